"""C05 -- Young's modulus is the scaled linear interpolation of the look-up table.

Correspondence: dclab.features.emodulus.get_emodulus against Model/C05.v
(get_emodulus with both routes) evaluated by vm_compute in exact rationals.
The oracles of the model are supplied per case: the triangles scipy's
Delaunay triangulation (qhull) gives for the normalised LUT around the query
points, np.exp at the arguments of the pixelation offset, and the viscosities
(exp/pow) computed by an independent transcription of the documented
formulas. Values agree within
1e-9 relative; NaN sets agree exactly except within 1e-9 (normalised units)
of the hull of the LUT.

Property oracle (model independent, real code only, many more points):
  * an independent piecewise-linear interpolation of the LUT (own hull, own
    barycentric formula) incl. "NaN exactly outside the support",
  * batch independence (sub-batches, permutations, singletons, NaN/inf
    neighbours, dtypes), scalar-vs-array temperature, proportionality to
    viscosity and flow rate, joint geometric rescaling, px_um=0,
  * no mutation of the caller's arrays, of (array, meta) LUTs, of registered
    LUT files and of EXTERNAL_LUTS, repeated and interleaved calls,
  * LUT by path / identifier / (array, meta), ds["emodulus"] (cases A, B, C),
    isoelastics consistency.
"""
import hashlib
import json
import math
import os
import re
from concurrent.futures import ThreadPoolExecutor
from fractions import Fraction

# qhull/LAPACK are called on tiny problems from many worker processes: BLAS
# thread pools only spin (measured: 25x CPU time); must precede numpy
for _v in ("OPENBLAS_NUM_THREADS", "OMP_NUM_THREADS", "MKL_NUM_THREADS"):
    os.environ.setdefault(_v, "1")

import numpy as np  # noqa: E402

from . import common

PROP = "C05"
RULE = ("scenario = (LUT: one of the three built-in tables or a generated "
        "user table on area_um or volume, passed as identifier / path / "
        "(array, meta); channel width, flow rate, pixel size incl. 0; medium "
        "as number or known medium x viscosity model x temperature scalar or "
        "per-event array; events placed inside the support, at nodes, on "
        "triangle edges, within 1e-3..1e-13 of the hull on both sides, far "
        "outside). Correspondence cases use dyadic inputs so that the exact "
        "rational model is cheap. A case is non-trivial when it has at least "
        "one event with a finite result and one NaN result or a non-identity "
        "scaling; distinct = different (LUT, set-up, medium, events)")
TRUSTED_BASE = [
    "oracle tri: qhull's Delaunay triangulation of the normalised LUT "
    "(scipy.spatial.Delaunay on the same floats); theorems are relative to "
    "the triangulation; per run it is checked that the triangles handed to "
    "the model contain the query points in exact arithmetic",
    "oracle exp: the pixelation offset (pxcorr.py) is modelled (pxdelta: "
    "offset + three exponential decays); np.exp is an oracle, supplied as "
    "math.exp at the exact arguments the model computes; theorems assume of "
    "it only that it is a function of the number. The general theorems take "
    "an arbitrary offset function delta with hypothesis delta_rescale, which "
    "is proved for pxdelta and checked numerically on the real function",
    "oracle eta: viscosity models (exp/pow), supplied as values computed by "
    "an independent transcription of the documented formulas",
    "binary64 rounding is not modelled: model evaluates in Q, comparison "
    "tolerance 1e-9 relative (plus conditioning slack for sliver triangles)",
    "Qred at the boundary to the triangulation oracle: the oracle is a "
    "function of the numbers, not of their representation as fractions",
]
ASSUMPTIONS = [
    "LUT abscissae, deformations, channel widths, flow rates and "
    "viscosities are positive and finite (theorem hypotheses lut_ok/"
    "setup_ok); NaN/inf events are covered by the property oracle only",
    "copy=True for the no-mutation clause (the documented copy=False "
    "overrides the deform array on purpose; its effect is modelled and tied: "
    "get_emodulus_mem / run_case_nocopy)",
    "the Coq correspondence uses tables in general position (unique "
    "Delaunay triangulation); tables on a regular grid (cocircular cells, "
    "non-unique triangulation) are generated for the property oracle only, "
    "which accepts either diagonal of a cocircular cell in the reference "
    "but demands the SAME value across routes, set-ups, batches and calls",
    "exception classes of load/register errors are not part of the property "
    "(compared as error / no error)",
    "extrapolate=False (spline extrapolation is outside the property)",
]

RTOL = 1e-9
BAND = 1e-9


# --------------------------------------------------------------------------
# independent transcriptions of the documented formulas (floats)
# --------------------------------------------------------------------------
def ref_delta(feat, x, px):
    """Pixelation offset of the deformation (Herold 2017; volume variant)."""
    x = np.asarray(x, dtype=float)
    if feat == "area_um":
        s = (0.34 / px) ** 2
        return (0.0012 + 0.020 * np.exp(-x * s / 7.1)
                + 0.010 * np.exp(-x * s / 38.6)
                + 0.005 * np.exp(-x * s / 296))
    s = (0.34 / px) ** 3
    return (0.0013 + 0.0172 * np.exp(-x * s / 40)
            + 0.0070 * np.exp(-x * s / 450)
            + 0.0032 * np.exp(-x * s / 6040))


_SAME = {"0.49% MC-PBS": ["0.49% MC-PBS", "0.5% MC-PBS", "0.50% MC-PBS",
                          "CellCarrier"],
         "0.59% MC-PBS": ["0.59% MC-PBS", "0.6% MC-PBS", "0.60% MC-PBS",
                          "CellCarrier B", "CellCarrierB"],
         "0.83% MC-PBS": ["0.83% MC-PBS", "0.8% MC-PBS", "0.80% MC-PBS"],
         "water": ["water"]}
MEDIA = {}
for _k, _names in _SAME.items():
    for _nm in _names:
        MEDIA[_nm] = _k
        MEDIA[_nm.lower()] = _k


def ref_viscosity(medium, model, cw, fr, temp):
    """mPa s; temp scalar or array"""
    t = np.asarray(temp, dtype=float)
    med = MEDIA[medium]
    if med == "water":
        right = (20 - t) / (t + 96) * (1.2364 - 1.37e-3 * (20 - t)
                                       + 5.7e-6 * (20 - t) ** 2)
        return 1.002 * 10 ** right
    if model in ("herold-2017", "herold-2017-fallback"):
        term1 = 1.1856 * 6 * fr * 1e-9 / (cw * 1e-6) ** 3 * 2 / 3
        if med == "0.49% MC-PBS":
            t0, n, k = 23.2, 0.677, 0.179
        elif med == "0.59% MC-PBS":
            t0, n, k = 23.6, 0.634, 0.360
        else:
            raise NotImplementedError(med)
        term2 = 0.6771 / 0.5928 + 0.2121 / (0.5928 * n)
        return k * (term1 * term2) ** (n - 1) * (t / t0) ** -0.866 * 1e3
    if model == "buyukurganci-2022":
        kelvin = t + 273.15
        a, beta = {"0.49% MC-PBS": (2.30e-6, -0.0056),
                   "0.59% MC-PBS": (5.70e-6, -0.0744),
                   "0.83% MC-PBS": (16.52e-6, -0.1455)}[med]
        k = a * np.exp(3379.7 / kelvin)
        n = 0.00223 * kelvin + beta
        shear = 8 * fr / (cw * 1e-3) ** 3 * (0.6671 + 0.2121 / n)
        return k * shear ** (n - 1) * 1e3
    raise NotImplementedError(model)


# --------------------------------------------------------------------------
# look-up tables
# --------------------------------------------------------------------------
BUILTIN = ["LE-2D-FEM-19", "HE-2D-FEM-22", "HE-3D-FEM-22"]
_LUTS = {}


def emod_dir():
    import dclab
    return os.path.join(os.path.dirname(dclab.__file__), "features",
                        "emodulus")


class Lut:
    def __init__(self, feat, cw, fr, visc, nodes, name=None, dec=None,
                 grid=False):
        self.grid = grid          # nodes on a regular grid: cocircular
        self.feat = feat
        self.cw = float(cw)
        self.fr = float(fr)
        self.visc = float(visc)
        self.nodes = np.array(nodes, dtype=float)
        self.name = name          # built-in identifier
        self.dec = dec            # decimal Fractions as written in the file
        self.pw = 2 if feat == "area_um" else 3
        self._cache = {}

    def meta(self, ident="verif-lut"):
        return {"channel_width": self.cw, "channel_width_unit": "um",
                "flow_rate": self.fr, "flow_rate_unit": "uL/s",
                "fluid_viscosity": self.visc,
                "fluid_viscosity_unit": "mPa s",
                "identifier": ident,
                "column features": [self.feat, "deform", "emodulus"],
                "column units": ["um^2" if self.feat == "area_um" else "um^3",
                                 "", "kPa"]}

    def write(self, path, ident, crlf=False):
        m = self.meta(ident)
        del m["column features"], m["column units"]
        lines = ["# verification LUT", "#", "# BEGIN METADATA"]
        lines += ["# " + ln for ln in json.dumps(m, indent=2,
                                                 sort_keys=True).split("\n")]
        lines += ["# END METADATA", "#"]
        unit = "[um^2]" if self.feat == "area_um" else "[um^3]"
        lines.append("# %s %s\tdeform\temodulus [kPa]" % (self.feat, unit))
        for r in self.nodes:
            lines.append("\t".join(repr(float(v)) for v in r))
        with open(path, "w", newline="") as fd:
            fd.write(("\r\n" if crlf else "\n").join(lines)
                     + ("\r\n" if crlf else "\n"))

    # -- float normalisation as documented (scale LUT | scale data; divide
    #    both axes by the LUT maximum), and its triangulation ---------------
    def normalised(self, cw, route):
        key = (float(cw), route)
        if key not in self._cache:
            import scipy.spatial as sp
            x = self.nodes[:, 0].copy()
            d = self.nodes[:, 1].copy()
            if route == "scalar" and cw != self.cw:
                x *= (cw / self.cw) ** self.pw
            xm, dm = x.max(), d.max()
            P = np.column_stack((x / xm, d / dm))
            T = sp.Delaunay(P)
            self._cache[key] = (P, T, xm, dm, hull_of(P))
        return self._cache[key]


def parse_lut_file(path, name=None):
    txt = open(path, errors="replace").read()
    m = re.search(r"# BEGIN METADATA(.*?)# END METADATA", txt, re.S)
    meta = json.loads("\n".join(ln.lstrip("#").strip()
                                for ln in m.group(1).strip().splitlines()))
    rows, header = [], ""
    for ln in txt.splitlines():
        if not ln.strip():
            continue
        if ln.startswith("#"):
            if not rows:
                header = ln
            continue
        rows.append(ln.split())
    feat = header.strip("# ").split("\t")[0].split(" ")[0]
    nodes = [[float(t) for t in r] for r in rows]
    dec = [[Fraction(t) for t in r] for r in rows]
    return Lut(feat, meta["channel_width"], meta["flow_rate"],
               meta["fluid_viscosity"], nodes, name=name, dec=dec)


def builtin_lut(name):
    if name not in _LUTS:
        _LUTS[name] = parse_lut_file(
            os.path.join(emod_dir(), "lut_%s.txt" % name), name=name)
    return _LUTS[name]


def gen_grid_lut(rng, feat=None):
    """A table on a regular grid: every cell is cocircular, the Delaunay
    triangulation is NOT unique (qhull picks the diagonal by rounding)."""
    feat = feat or rng.choice(["area_um", "area_um", "volume"])
    nx, ny = rng.randint(3, 9), rng.randint(3, 9)
    xlo = rng.choice([8.0, 20.0, 33.3])
    xhi = xlo + rng.choice([90.0, 280.0, 1000.0 / 3])
    dlo, dhi = rng.choice([0.001, 0.005]), rng.choice([0.05, 0.15, 0.2])
    xs = np.linspace(xlo, xhi, nx)
    ds = np.linspace(dlo, dhi, ny)
    if rng.random() < 0.3:      # geometric spacing in x: still cocircular
        xs = xlo * (xhi / xlo) ** np.linspace(0, 1, nx)
    k1, k2 = rng.uniform(10, 25), rng.uniform(10, 40)
    nodes = []
    for dv in ds:
        for xv in xs:
            e = 1 + k1 * (xv / xhi) / (1 + k2 * dv) \
                + 0.3 * math.sin(xv / 17.0) * math.cos(dv * 90)
            nodes.append([float(xv), float(dv), float(e)])
    cw = rng.choice([20.0, 30.0, 15.0, 40.0, 24.5])
    fr = rng.choice([0.04, 0.125, 0.16, 0.5])
    visc = rng.choice([15.0, 6.0, 1.5, 7.25])
    return Lut(feat, cw, fr, visc, nodes, grid=True)


def gen_user_lut(rng, dyadic=True, nmin=5, nmax=40, feat=None):
    """A small table in general position (scattered nodes: the Delaunay
    triangulation is unique), emodulus a smooth function plus noise."""
    feat = feat or rng.choice(["area_um", "area_um", "volume"])
    n = rng.randint(nmin, nmax)
    xhi = rng.choice([100, 300, 1000]) if feat == "area_um" else \
        rng.choice([500, 4000])
    dhi = rng.choice([0.05, 0.2])
    seen = set()
    nodes = []
    while len(nodes) < n:
        if dyadic:
            x = rng.randint(8 * 8, xhi * 8) / 8
            d = rng.randint(1, int(dhi * 4096)) / 4096
            e = rng.randint(4, 240) / 8
        else:
            x = rng.uniform(8, xhi)
            d = rng.uniform(1e-4, dhi)
            e = 0.5 + 25 * rng.random() * (1 + x / xhi) / (1 + 30 * d)
        if (x, d) in seen:
            continue
        seen.add((x, d))
        nodes.append([x, d, e])
    cw = rng.choice([20.0, 30.0, 15.0, 40.0, 24.5])
    fr = rng.choice([0.04, 0.125, 0.16, 0.5])
    visc = rng.choice([15.0, 6.0, 1.5, 7.25])
    return Lut(feat, cw, fr, visc, nodes)


def lut_from_case(cl):
    if cl["kind"] == "builtin":
        return builtin_lut(cl["name"])
    return Lut(cl["feat"], cl["cw"], cl["fr"], cl["visc"], cl["nodes"],
               grid=bool(cl.get("grid")))


def lut_to_case(L, via="tuple"):
    if L.name:
        return dict(kind="builtin", name=L.name)
    return dict(kind="user", feat=L.feat, cw=L.cw, fr=L.fr, visc=L.visc,
                nodes=[[float(v) for v in r] for r in L.nodes], via=via,
                grid=L.grid)


# --------------------------------------------------------------------------
# geometry helpers (model independent)
# --------------------------------------------------------------------------
def _orient(o, a, b):
    v = (a[0] - o[0]) * (b[1] - o[1]) - (b[0] - o[0]) * (a[1] - o[1])
    if abs(v) > 1e-13:
        return v
    fo = [Fraction(float(t)) for t in o]
    fa = [Fraction(float(t)) for t in a]
    fb = [Fraction(float(t)) for t in b]
    return float((fa[0] - fo[0]) * (fb[1] - fo[1])
                 - (fb[0] - fo[0]) * (fa[1] - fo[1]))


def hull_of(P):
    """Convex hull (Andrew's monotone chain, exact orientation test),
    counter-clockwise, as an array of vertices."""
    pts = sorted(set((float(a), float(b)) for a, b in P))
    if len(pts) < 3:
        return np.array(pts)
    lower, upper = [], []
    for p in pts:
        while len(lower) >= 2 and _orient(lower[-2], lower[-1], p) <= 0:
            lower.pop()
        lower.append(p)
    for p in reversed(pts):
        while len(upper) >= 2 and _orient(upper[-2], upper[-1], p) <= 0:
            upper.pop()
        upper.append(p)
    return np.array(lower[:-1] + upper[:-1])


def hull_signed_dist(H, Q):
    """> 0 inside: min over edges of the signed distance to the edge line
    (exact for the inside test of a convex polygon; for outside points a
    lower bound of the distance, which is what a band test needs)."""
    Q = np.atleast_2d(Q)
    A = H
    B = np.roll(H, -1, axis=0)
    e = B - A
    ln = np.hypot(e[:, 0], e[:, 1])
    # cross(e, q - a) / |e|
    cr = (e[None, :, 0] * (Q[:, None, 1] - A[None, :, 1])
          - e[None, :, 1] * (Q[:, None, 0] - A[None, :, 0])) / ln[None, :]
    return cr.min(axis=1)


def cross2(o, a, b):
    return ((a[..., 0] - o[..., 0]) * (b[..., 1] - o[..., 1])
            - (b[..., 0] - o[..., 0]) * (a[..., 1] - o[..., 1]))


# --------------------------------------------------------------------------
# calling the implementation
# --------------------------------------------------------------------------
# np.float32 scalars make numpy compute the scaling factors in single
# precision (NEP 50): not generated in general, see chk_numtypes
NUMTYPES = ["float", "int", "np.float64", "np.int64"]


def cast_num(v, t):
    """the number v as Python int / numpy scalar when that is exact"""
    v = float(v)
    if t in ("int", "np.int64") and v == int(v):
        return int(v) if t == "int" else np.int64(int(v))
    if t == "np.float32" and float(np.float32(v)) == v:
        return np.float32(v)
    if t == "np.float64":
        return np.float64(v)
    return v


def medium_kwargs(med, n=None):
    nt = med.get("numtype", "float")
    if med["kind"] == "num":
        return dict(medium=cast_num(med["v"], nt), temperature=None,
                    visc_model=None)
    t = med["temp"]
    if isinstance(t, list):
        t = np.array(t, dtype=float)
        if nt in ("int", "np.int64") and np.all(t == np.round(t)):
            t = t.astype(np.int64)
        elif nt == "np.float32" and np.all(t.astype(np.float32) == t):
            t = t.astype(np.float32)
    else:
        t = cast_num(t, nt)
    return dict(medium=med["name"], temperature=t, visc_model=med["model"])


def nd_layout(temps, shape, layout):
    """The temperature ndarray handed to get_emodulus for a batch of the
    given shape whose per-event temperatures (flattened, C order) are
    `temps`: "full" (same shape as the batch), "rows" (shape[:-1] + (1,),
    needs temperatures constant along the last axis), "cols" (last axis
    only, needs temperatures constant along all other axes). Falls back to
    "full" when the temperatures do not have that structure."""
    T = np.array(temps, dtype=float).reshape(shape)
    if layout == "rows" and np.all(T == T[..., :1]):
        return T[..., :1].copy()
    if layout == "cols":
        first = T.reshape(-1, shape[-1])[0]
        if np.all(T == first):
            return first.copy()
    return T


def nd_call(L, lut_arg, case, med=None):
    """get_emodulus on the case with the batch arranged as case["nd"]"""
    nd = case["nd"]
    shape = tuple(nd["shape"])
    x = np.array(case["x"], dtype=float).reshape(shape)
    d = np.array(case["d"], dtype=float).reshape(shape)
    med = med or case["medium"]
    kw = {}
    if med["kind"] == "known" and isinstance(med["temp"], list):
        kw = dict(temperature=nd_layout(med["temp"], shape,
                                        nd.get("tlayout", "full")))
    return call_emod(L, lut_arg, case["cw"], case["fr"], case["px"], med,
                     x, d, **kw)


def call_emod(L, lut_arg, cw, fr, px, med, x, d, **kw):
    from dclab.features import emodulus as em
    nt = med.get("numtype", "float")
    args = dict(deform=d, channel_width=cast_num(cw, nt),
                flow_rate=cast_num(fr, nt), px_um=px, lut_data=lut_arg)
    args["area_um" if L.feat == "area_um" else "volume"] = x
    args.update(medium_kwargs(med))
    args.update(kw)
    return em.get_emodulus(**args)


def lut_arg_tuple(L):
    return (L.nodes.copy(), L.meta())


def viscosities(med, cw, fr, n):
    """float viscosities per event (reference formulas)"""
    if med["kind"] == "num":
        return np.full(n, float(med["v"]))
    t = med["temp"]
    v = ref_viscosity(med["name"], med["model"], cw, fr,
                      np.array(t, dtype=float))
    try:
        return np.broadcast_to(v, (n,)).astype(float)
    except ValueError:          # the implementation raises as well
        return np.full(n, np.nan)


def route_of(med):
    return "array" if (med["kind"] == "known"
                       and isinstance(med["temp"], list)) else "scalar"


# --------------------------------------------------------------------------
# independent float reference: piecewise-linear interpolation + scaling laws
# --------------------------------------------------------------------------
def reference(L, cw, fr, px, med, x, d):
    """Returns (E_ref, signed hull distance, conditioning) per event.
    E_ref is NaN where qhull finds no simplex."""
    x = np.asarray(x, dtype=float)
    d = np.asarray(d, dtype=float)
    n = x.size
    # the interpolation grid is the table itself (both axes divided by
    # their maximum); the event is brought to the table's channel width
    P, T, xm, dm, H = L.normalised(cw, "array")
    dc = d - ref_delta(L.feat, x, px) if px else d.copy()
    qx = (x * (L.cw / cw) ** L.pw if cw != L.cw else x) / xm
    Q = np.column_stack((qx, dc / dm))
    fin = np.isfinite(Q).all(axis=1)
    s = np.full(n, -1)
    if fin.any():
        s[fin] = T.find_simplex(Q[fin])
    dist = np.full(n, np.nan)
    if fin.any():
        dist[fin] = hull_signed_dist(H, Q[fin])
    E = np.full(n, np.nan)
    cond = np.zeros(n)
    ok = s >= 0
    if ok.any():
        tri = T.simplices[s[ok]]
        a, b, c = P[tri[:, 0]], P[tri[:, 1]], P[tri[:, 2]]
        q = Q[ok]
        dd = cross2(a, b, c)
        l1 = cross2(q, b, c) / dd
        l2 = cross2(a, q, c) / dd
        l3 = cross2(a, b, q) / dd
        V = L.nodes[:, 2]
        E[ok] = l1 * V[tri[:, 0]] + l2 * V[tri[:, 1]] + l3 * V[tri[:, 2]]
        emax = np.maximum.reduce([((a - b) ** 2).sum(1), ((b - c) ** 2).sum(1),
                                  ((a - c) ** 2).sum(1)])
        vs = np.abs(V[tri]).max(axis=1) / np.maximum(np.abs(E[ok]), 1e-300)
        cond[ok] = emax / np.abs(dd) * vs
        # a point on a common edge of two triangles (barycentric coordinate
        # below 1e-12) is located by rounding: if one of the two is a
        # sliver qhull may find neither (measured on HE-2D-FEM-22: exactly
        # on the edge not found, 1e-14 to either side found). NaN-ness of
        # such points is not compared: they count as "in the band".
        # Only where a SLIVER is involved (the simplex or one of its
        # neighbours has longest-edge^2 / area > 1e3); on edges and nodes of
        # well-shaped triangles qhull's answer is determined and compared.
        lmin = np.minimum(np.minimum(l1, l2), l3)
        idx = np.where(ok)[0]
        G = sliver_measure(T, P)
        sk = s[ok]
        gn = np.maximum(G[sk], np.where(T.neighbors[sk] >= 0,
                                        G[T.neighbors[sk]], 0).max(axis=1))
        dist[idx[(lmin < 1e-12) & (gn > 1e3)]] = 0.0
    lost = (~ok) & fin & (dist > BAND)
    if lost.any():
        # inside the hull but not located: on an edge of a sliver?
        SA, SB, SC = (P[T.simplices[:, 0]], P[T.simplices[:, 1]],
                      P[T.simplices[:, 2]])
        DD = cross2(SA, SB, SC)
        G = sliver_measure(T, P)
        gn = np.maximum(G, np.where(T.neighbors >= 0, G[T.neighbors],
                                    0).max(axis=1))
        for i in np.where(lost)[0]:
            q = Q[i][None, :]
            m = np.minimum(np.minimum(cross2(q, SB, SC) / DD,
                                      cross2(SA, q, SC) / DD),
                           cross2(SA, SB, q) / DD)
            if ((m > -1e-12) & (m < 1e-12) & (gn > 1e3)).any():
                dist[i] = 0.0
    visc = viscosities(med, cw, fr, n)
    E = E * (fr / L.fr) * (visc / L.visc) * (L.cw / cw) ** 3
    return E, dist, cond, (Q, s, T, P)


def alt_interps(P, V, T, k, q):
    """For a table whose Delaunay triangulation is not unique: the values at
    q of the linear interpolants in the triangulations obtained from simplex
    k by flipping the diagonal of a cocircular quadrilateral (k and one of
    its neighbours)."""
    out = []
    tri = T.simplices[k]
    for j, nb in enumerate(T.neighbors[k]):
        if nb < 0:
            continue
        w = tri[j]                                   # opposite to the edge
        u, v = [tri[m] for m in range(3) if m != j]
        z = [t for t in T.simplices[nb] if t not in (u, v)]
        if len(z) != 1:
            continue
        z = z[0]
        A, B, C, Dp = P[u], P[v], P[w], P[z]
        # in-circle determinant of (u, v, w, z), relative
        M = np.array([[pt[0] - Dp[0], pt[1] - Dp[1],
                       (pt[0] - Dp[0]) ** 2 + (pt[1] - Dp[1]) ** 2]
                      for pt in (A, B, C)])
        scale = np.abs(M).max() ** 4 + 1e-300
        if abs(np.linalg.det(M)) > 1e-9 * scale:
            continue
        for (a, b, c) in ((w, z, u), (w, z, v)):
            pa, pb, pc = P[a], P[b], P[c]
            dd = cross2(pa, pb, pc)
            if dd == 0:
                continue
            l1 = cross2(q, pb, pc) / dd
            l2 = cross2(pa, q, pc) / dd
            l3 = cross2(pa, pb, q) / dd
            if min(l1, l2, l3) >= -1e-12:
                out.append(l1 * V[a] + l2 * V[b] + l3 * V[c])
    return out


def sliver_measure(T, P):
    """longest edge squared / |2 area| per simplex (cached on T)"""
    G = getattr(T, "_verif_sliver", None)
    if G is None:
        a, b, c = (P[T.simplices[:, 0]], P[T.simplices[:, 1]],
                   P[T.simplices[:, 2]])
        em_ = np.maximum.reduce([((a - b) ** 2).sum(1), ((b - c) ** 2).sum(1),
                                 ((a - c) ** 2).sum(1)])
        G = em_ / np.maximum(np.abs(cross2(a, b, c)), 1e-300)
        try:
            T._verif_sliver = G
        except Exception:
            pass
    return G


def compare_values(ref, got, dist, cond, rtol=RTOL):
    """indices where the implementation disagrees with the reference"""
    bad = []
    ref = np.asarray(ref, dtype=float)
    got = np.asarray(got, dtype=float)
    for i in range(ref.size):
        rn, gn = np.isnan(ref[i]), np.isnan(got[i])
        near = (not np.isnan(dist[i])) and abs(dist[i]) <= BAND
        if rn or gn:
            if rn != gn and not near:
                bad.append(i)
            continue
        tol = rtol + 1e-14 * cond[i]
        if abs(ref[i] - got[i]) > tol * abs(ref[i]) + 1e-300:
            bad.append(i)
    return bad


# --------------------------------------------------------------------------
# generators
# --------------------------------------------------------------------------
def quant(v, bits):
    if not math.isfinite(v):
        return v
    return round(v * (1 << bits)) / (1 << bits)


OTHER_PX = [0.25, 0.5, 0.125, 0.75, 0.3125]      # dyadic: cheap in Q


def gen_setup(rng, L, nice=True, other_px=False):
    cw = rng.choice([L.cw, L.cw, 20.0, 30.0, 15.0, 40.0, 17.5] if nice else
                    [L.cw, 20.0, 30.0, rng.uniform(10, 50)])
    fr = rng.choice([L.fr, 0.04, 0.16, 0.125, 0.5, 1.0] if nice else
                    [L.fr, 0.04, 0.16, rng.uniform(0.01, 1.2)])
    px = rng.choice([0.34, 0.34, 0.0, 0, 0.25, 0.5] if nice else
                    [0.34, 0.0, rng.uniform(0.1, 0.7)])
    if other_px:
        px = rng.choice(OTHER_PX if nice else
                        OTHER_PX + [0.2, 0.68, rng.uniform(0.1, 0.9)])
    return cw, fr, px


KNOWN = []
for _nm, _k in sorted(MEDIA.items()):
    if _k == "water":
        KNOWN.append((_nm, "kestin-1978"))
    else:
        KNOWN.append((_nm, "buyukurganci-2022"))
        if _k != "0.83% MC-PBS":
            KNOWN.append((_nm, "herold-2017"))
for _nm, _k in sorted(MEDIA.items()):
    if _k in ("0.49% MC-PBS", "0.59% MC-PBS"):
        KNOWN.append((_nm, "herold-2017-fallback"))


_OOR = {"n": 0}


def gen_medium(rng, n, L, cw, fr, force=None):
    k = force or rng.choice(["num", "num", "scalar", "array", "array"])
    if k == "per-event":
        k = "array"
    nt = rng.choice(NUMTYPES)
    if k == "num":
        v = rng.choice([L.visc, 1.0, 5.5, 2.25, 12.0, 3.0, 7.0,
                        quant(rng.uniform(0.5, 20), 6)])
        return dict(kind="num", v=v, numtype=nt)
    name, model = rng.choice(KNOWN)
    lo, hi = (22.0, 26.0) if name != "water" else (5.0, 38.0)
    _OOR["n"] += 1
    if _OOR["n"] % 5 == 0:          # quota: every fifth known-medium case
        lo, hi = rng.choice([(8.0, 17.0), (38.0, 45.0), (41.0, 60.0)])
    if k == "scalar":
        tq = quant(rng.uniform(lo, hi), 4)
        if nt in ("int", "np.int64"):
            tq = float(round(tq))
        return dict(kind="known", name=name, model=model, temp=tq,
                    numtype=nt)
    r = rng.random() if force != "per-event" else 1.0
    if r < 0.2:
        t = [quant(rng.uniform(lo, hi), 4)] * n       # all equal
    elif r < 0.3 and n != 1:
        t = [quant(rng.uniform(lo, hi), 4)]           # broadcast
    else:
        t = [quant(rng.uniform(lo, hi), 4) for _ in range(n)]
    return dict(kind="known", name=name, model=model, temp=t)


def gen_events(rng, L, cw, px, n, qbits=None, special=False):
    """events in measurement coordinates placed relative to the support"""
    P, T, xm, dm, H = L.normalised(L.cw, "array")     # LUT coordinates
    s = (cw / L.cw) ** L.pw if cw != L.cw else 1.0
    xs, ds, kinds = [], [], []
    nh = len(H)
    for _ in range(n):
        r = rng.random()
        if r < 0.30:            # inside a random triangle
            tri = T.simplices[rng.randrange(len(T.simplices))]
            w = [rng.random() for _ in range(3)]
            w = [v / sum(w) for v in w]
            q = sum(w[i] * P[tri[i]] for i in range(3))
            kind = "in-triangle"
        elif r < 0.40:          # at a node
            q = P[rng.randrange(len(P))].copy()
            kind = "node"
        elif r < 0.50:          # on a triangle edge
            tri = T.simplices[rng.randrange(len(T.simplices))]
            w = rng.random()
            q = w * P[tri[0]] + (1 - w) * P[tri[1]]
            kind = "edge"
        elif r < 0.75:          # near the hull, both sides
            i = rng.randrange(nh)
            a, b = H[i], H[(i + 1) % nh]
            w = rng.choice([0.0, 1.0, rng.random(), rng.random()])
            e = b - a
            nrm = np.array([e[1], -e[0]]) / math.hypot(*e)   # outward
            off = rng.choice([0, 1e-3, -1e-3, 1e-6, -1e-6, 1e-8, -1e-8,
                              1e-10, -1e-10, 1e-13, -1e-13, 1e-2, -1e-2])
            q = a + w * e + off * nrm
            kind = "hull"
        elif r < 0.93:          # bounding box and a bit beyond
            q = np.array([rng.uniform(-0.05, 1.1), rng.uniform(-0.05, 1.1)])
            kind = "box"
        else:                   # far away / degenerate
            q = np.array([rng.choice([0.0, -1.0, 5.0, 1e6, 1.0]),
                          rng.choice([0.0, -1.0, 5.0, 1.0, 0.5])])
            kind = "far"
        x = float(q[0] * xm * s)
        dl = float(q[1] * dm)
        if qbits:
            x = quant(x, qbits[0])
        with np.errstate(all="ignore"):
            dlt = float(ref_delta(L.feat, x, px)) if px else 0.0
        if not math.isfinite(dlt) or abs(dlt) > 1e3:
            # exp overflow for very negative abscissae: keep the event
            # finite and out of the exp's overflow range
            x, dlt = abs(x), 0.0
        d = dl + dlt
        if qbits:
            d = quant(d, qbits[1])
        if special and rng.random() < 0.08:
            if rng.random() < 0.5:
                x = rng.choice([float("nan"), float("inf"), -float("inf")])
            else:
                d = rng.choice([float("nan"), float("inf"), -float("inf")])
            kind = "nonfinite"
        xs.append(x)
        ds.append(d)
        kinds.append(kind)
    return xs, ds, kinds


# --------------------------------------------------------------------------
# Coq rendering
# --------------------------------------------------------------------------
def qlit(v):
    f = v if isinstance(v, Fraction) else Fraction(float(v))
    return "(Qmake %s %d)" % (common.zlit(f.numerator), f.denominator)


HEADER = ("From Coq Require Import ZArith NArith QArith List.\n"
          "Import ListNotations.\nFrom Verif Require Import Model.C05.\n")


def render_lut(L, use_dec=False):
    rows = L.dec if (use_dec and L.dec) else L.nodes
    body = ";\n".join("(%s,%s,%s)" % (qlit(r[0]), qlit(r[1]), qlit(r[2]))
                      for r in rows)
    return ("Definition lut0 : lut := mkLut %s %s %s %s [\n%s].\n" % (
        "Area" if L.feat == "area_um" else "Volume", qlit(L.cw), qlit(L.fr),
        qlit(L.visc), body))


def render_lut_term(L):
    body = "; ".join("(%s,%s,%s)" % (qlit(r[0]), qlit(r[1]), qlit(r[2]))
                     for r in L.nodes)
    return "mkLut %s %s %s %s [%s]" % (
        "Area" if L.feat == "area_um" else "Volume", qlit(L.cw), qlit(L.fr),
        qlit(L.visc), body)


def candidate_triangles(L, cw, fr, px, med, x, d):
    """The value of the oracle [tri] restricted to what the events can see:
    the simplex qhull finds for every event, its neighbours, and all
    simplices around a vertex the event is close to."""
    E, dist, cond, (Q, s, T, P) = reference(L, cw, fr, px, med, x, d)
    tris = []
    seen = set()

    def add(k):
        if k >= 0 and k not in seen:
            seen.add(k)
            tris.append(tuple(int(v) for v in T.simplices[k]))
    v2s = None
    for i, k in enumerate(s):
        if k < 0:
            continue
        add(k)
        for nb in T.neighbors[k]:
            add(nb)
        tri = T.simplices[k]
        for v in tri:
            if np.hypot(*(P[v] - Q[i])) < 1e-6:
                if v2s is None:
                    v2s = {}
                    for si, sv in enumerate(T.simplices):
                        for vv in sv:
                            v2s.setdefault(int(vv), []).append(si)
                for si in v2s[int(v)]:
                    add(si)
    return tris, E, dist, cond


def render_case(L, case, tris):
    cw, fr, px, med = case["cw"], case["fr"], case["px"], case["medium"]
    x, d = case["x"], case["d"]
    if med["kind"] == "num":
        m = "(MNum %s)" % qlit(med["v"])
        etab = []
    else:
        ts = med["temp"] if isinstance(med["temp"], list) else [med["temp"]]
        vs = ref_viscosity(med["name"], med["model"], cw, fr,
                           np.array(ts, dtype=float))
        etab = sorted(set(zip(ts, [float(v) for v in np.atleast_1d(vs)])))
        if isinstance(med["temp"], list):
            m = "(MTempArray %s)" % common.clist([qlit(t) for t in ts])
        else:
            m = "(MTempScalar %s)" % qlit(med["temp"])
    # oracle np.exp: argument (exact, as the model computes it from the
    # documented constants) -> value
    dtab = []
    if px:
        fpx = Fraction(float(px))
        sc = (Fraction(34, 100) / fpx) ** L.pw
        taus = ([Fraction(71, 10), Fraction(386, 10), Fraction(296)]
                if L.feat == "area_um" else
                [Fraction(40), Fraction(450), Fraction(6040)])
        seen = {}
        for xv in x:
            for tau in taus:
                key = -Fraction(float(xv)) * sc / tau
                seen[key] = Fraction(math.exp(float(key)))
        dtab = sorted(seen.items())
    return "mkCase (mkSetup %s %s %s) %s %s %s %s %s" % (
        qlit(cw), qlit(fr), qlit(px), m,
        common.clist(["(%s,%s)" % (qlit(a), qlit(b)) for a, b in zip(x, d)]),
        common.clist(["(%s,%s)" % (qlit(a), qlit(b)) for a, b in dtab]),
        common.clist(["(%s,%s)" % (qlit(a), qlit(b)) for a, b in etab]),
        common.clist(["(%d%%N,%d%%N,%d%%N)" % t for t in tris]))


def decode_model(flat):
    if flat == [9]:
        return "ValueError"
    out = []
    i = 0
    while i < len(flat):
        if flat[i] == 0:
            out.append(None)
            i += 1
        else:
            out.append(Fraction(flat[i + 1], flat[i + 2]))
            i += 3
    return out


def run_impl(case, L=None, via=None, scratch=None):
    """get_emodulus on the case; list of floats or the exception's name"""
    L = L or lut_from_case(case["lut"])
    arg = L.name if L.name else lut_arg_tuple(L)
    x = np.array(case["x"], dtype=float)
    d = np.array(case["d"], dtype=float)
    try:
        if case.get("nd"):
            e = np.asarray(nd_call(L, arg, case))
            if e.shape != tuple(case["nd"]["shape"]):
                return "shape %r" % (e.shape,)
            e = e.ravel()
        else:
            e = call_emod(L, arg, case["cw"], case["fr"], case["px"],
                          case["medium"], x, d)
    except Exception as exc:
        return type(exc).__name__
    return [float(v) for v in np.atleast_1d(e)]


def compare_model(model, impl, dist, cond):
    """None if they agree, else a description"""
    if isinstance(model, str) or isinstance(impl, str):
        return None if model == impl else "model %s, implementation %s" % (
            model if isinstance(model, str) else "values",
            impl if isinstance(impl, str) else "values")
    if len(model) != len(impl):
        return "lengths %d / %d" % (len(model), len(impl))
    for i, (m, v) in enumerate(zip(model, impl)):
        near = (not np.isnan(dist[i])) and abs(dist[i]) <= BAND
        if m is None or np.isnan(v):
            if (m is None) != bool(np.isnan(v)) and not near:
                return "event %d: model %s, implementation %r (hull " \
                       "distance %.3g)" % (i, "NaN" if m is None else
                                           float(m), v, dist[i])
            continue
        tol = RTOL + 1e-14 * cond[i]
        if abs(float(m) - v) > tol * abs(float(m)) + 1e-300:
            return "event %d: model %.17g, implementation %.17g" % (
                i, float(m), v)
    return None


# --------------------------------------------------------------------------
# quotas named by the property's quantifier
# --------------------------------------------------------------------------
def quota_kind(case):
    """which of the two guaranteed classes a case belongs to"""
    out = []
    lut = case["lut"]
    if lut.get("kind") == "user" and lut["feat"] == "volume" and \
            case["px"] not in (0, 0.0, 0.34):
        out.append("volume-lut-other-px")
    m = case["medium"]
    if m["kind"] == "known" and isinstance(m["temp"], list) and \
            len(m["temp"]) == len(case["x"]) and len(case["x"]) >= 1:
        out.append("per-event-temperature")
    return out


def count_quota(run, case, where):
    run.count("quota:%s:total" % where)
    for k in quota_kind(case):
        run.count("quota:%s:%s" % (where, k))


# --------------------------------------------------------------------------
# correspondence
# --------------------------------------------------------------------------
def gen_corr_case(rng, L, n=None, builtin=False, other_px=False,
                  per_event=False):
    cw, fr, px = gen_setup(rng, L, nice=True, other_px=other_px)
    n = n if n is not None else rng.choice([0, 1, 2, 3, 4, 5])
    if per_event and n == 0:
        n = 3
    med = gen_medium(rng, n, L, cw, fr,
                     force="per-event" if per_event else None)
    if med["kind"] == "known" and isinstance(med["temp"], list) and \
            rng.random() < 0.06:
        # broadcasting error: wrong length
        med["temp"] = med["temp"][:1] * (n + 2)
    x, d, kinds = gen_events(rng, L, cw, px, n, qbits=(6, 14))
    case = dict(lut=lut_to_case(L), cw=cw, fr=fr, px=px, medium=med,
                x=x, d=d)
    if per_event and n >= 2 and len(med["temp"]) == n and \
            rng.random() < 0.6:
        # the same events as a non-1-D batch; the model is elementwise, so
        # it sees the flattened batch with the broadcast temperatures
        r = rng.random()
        if r < 0.4 or n % 2:
            case["nd"] = dict(shape=[n, 1], tlayout="full")
        elif r < 0.5:
            case["nd"] = dict(shape=[1, n], tlayout="full")
        else:
            rows = n // 2
            t = med["temp"]
            lay = rng.choice(["rows", "rows", "full"])
            if lay == "rows":      # constant along the last axis
                med["temp"] = [t[i // 2] for i in range(n)]
            case["nd"] = dict(shape=[rows, 2], tlayout=lay)
    return case, kinds


def correspondence(run):
    rng = run.rng
    groups = []          # (Lut, use_dec, [cases])
    nuser = 200 if run.thorough else 14
    per = 8 if run.thorough else 6
    for c in load_corpus():
        if "x" in c and "check" not in c:
            groups.append((lut_from_case(c["lut"]), False, [(c, ["corpus"])]))
    run.extra.setdefault("_case_luts", [])
    for gi in range(nuser):
        # every fourth table is a volume table used with pixel sizes other
        # than 0 and 0.34; every fourth case has per-event temperatures
        vol = gi % 4 == 0
        L = gen_user_lut(rng, dyadic=True, feat="volume" if vol else None)
        run.extra["_case_luts"].append(lut_to_case(L))
        groups.append((L, False,
                       [gen_corr_case(rng, L, other_px=vol,
                                      per_event=(k % 4 == 1))
                        for k in range(per)]))
    names = BUILTIN if run.thorough else ["HE-3D-FEM-22"]
    for name in names:
        L = builtin_lut(name)
        groups.append((L, True, [gen_corr_case(rng, L, n=3, builtin=True)
                                 for _ in range(4 if run.thorough else 2)]))

    # small (generated) tables travel with their cases, several tables per
    # coqc run; a built-in table is defined once in the header of its run
    jobs = []
    small_r, small_i = [], []
    for gi, (L, use_dec, cases) in enumerate(groups):
        rendered, infos = [], []
        for case, kinds in cases:
            tris, E, dist, cond = candidate_triangles(
                L, case["cw"], case["fr"], case["px"], case["medium"],
                case["x"], case["d"]) if case["x"] else ([], [], [], [])
            rendered.append(render_case(L, case, tris))
            infos.append((case, kinds, dist, cond, L))
        if len(L.nodes) <= 100:
            lt = render_lut_term(L)
            small_r += ["(%s,\n %s)" % (lt, r) for r in rendered]
            small_i += infos
        else:
            jobs.append(("c05_g%d" % gi, HEADER + render_lut(L, use_dec),
                         "run_case lut0", rendered, infos, 2))
    if small_r:
        jobs.append(("c05_s", HEADER, "(fun lc => run_case (fst lc) (snd lc))",
                     small_r, small_i, 12))
    # the memory model (get_emodulus_mem) against the caller's arrays:
    # copy=False, copy=True, and the same array passed as abscissa AND deform
    mem_jobs = {}
    pick = [k for k, inf in enumerate(small_i)
            if inf[0]["x"] and not inf[0].get("nd")]
    for mode, (copy, alias), sel in (
            ("nocopy", (False, False), pick[0::6]),
            ("copy", (True, False), pick[1::12]),
            ("alias_copy", (True, True), pick[2::12]),
            ("alias_nocopy", (False, True), pick[3::24])):
        if not sel:
            continue
        rr, ii = [], []
        for k in sel:
            case, kinds, dist, cond, L = small_i[k]
            if alias:
                # the same ndarray twice: re-render with deform := abscissa
                case = dict(case, d=list(case["x"]))
                tris, E, dist, cond = candidate_triangles(
                    L, case["cw"], case["fr"], case["px"], case["medium"],
                    case["x"], case["d"])
                rr.append("(%s,\n %s)" % (render_lut_term(L),
                                         render_case(L, case, tris)))
            else:
                rr.append(small_r[k])
            ii.append((case, kinds, dist, cond, L))
        job = ("c05_mem_%s" % mode, HEADER,
               "(fun lc => run_case_mem %s %s (fst lc) (snd lc))" % (
                   common.blit(copy), common.blit(alias)), rr, ii, 12)
        mem_jobs[id(job)] = (copy, alias)
        jobs.append(job)

    def work(job):
        name, hdr, fn, rendered, infos, shard = job
        big = len(infos[0][4].nodes) > 5000
        try:
            return common.coq_map(run.scratch, name, hdr, fn, rendered,
                                  shard=shard,
                                  timeout=2400 if big else 1200)
        except common.ModelError as exc:
            if big and "timeout" in str(exc):
                # a 13k/16k-node table costs coqc minutes of parsing; on an
                # overloaded machine it may not finish: the small tables
                # and HE-3D-FEM-22 carry the tie, this is reported
                run.notes.append("Coq evaluation of %s timed out: %s" % (
                    infos[0][4].name, str(exc)[:120]))
                run.count("corr:builtin-coq-timeout")
                return None
            raise

    with ThreadPoolExecutor(max_workers=4) as ex:
        results = list(ex.map(work, jobs))
    for job, res in zip(jobs, results):
        infos = job[4]
        if res is None:
            continue
        if id(job) in mem_jobs:
            copy, alias = mem_jobs[id(job)]
            for (case, kinds, dist, cond, L), flat in zip(infos, res):
                mem_compare(run, case, L, flat, dist, cond, copy, alias)
            continue
        for (case, kinds, dist, cond, L), flat in zip(infos, res):
            model = decode_model(flat)
            impl = run_impl(case, L)
            nontrivial = (not isinstance(impl, str)) and any(
                not np.isnan(v) for v in impl)
            run.record_case(case, nontrivial)
            run.count("corr:lut=%s" % (L.name or "user-" + L.feat))
            run.count("corr:route=%s" % route_of(case["medium"]))
            run.count("corr:px0" if not case["px"] else "corr:px")
            for k in kinds:
                run.count("corr:event=%s" % k)
            if isinstance(impl, str):
                run.count("corr:error=%s" % impl)
            else:
                run.count("corr:nan", sum(1 for v in impl if np.isnan(v)))
                run.count("corr:finite", sum(1 for v in impl
                                             if not np.isnan(v)))
            count_quota(run, case, "corr")
            if case.get("nd"):
                run.count("corr:nd-batch")
            run.corr_checked += 1
            why = compare_model(model, impl, dist, cond)
            if why is not None:
                run.mismatch(case, [str(m) for m in model] if not
                             isinstance(model, str) else model, impl,
                             what=why)


def mem_compare(run, case, L, flat, dist, cond, copy, alias):
    """get_emodulus(copy=...) on float64 arrays against run_case_mem: the
    values, and what happened to the caller's arrays (abscissa, deform,
    temperatures).  copy=True: the arrays must be unchanged (property).
    copy=False: "input arrays are overridden" -- the final contents are not
    specified; the model's prediction is compared for information only
    (run.count), the VALUES are compared when the arrays are distinct."""
    n = len(case["x"])
    x = np.array(case["x"], dtype=float)
    d = x if alias else np.array(case["d"], dtype=float)
    x0, d0 = x.copy(), d.copy()
    arg = L.name if L.name else lut_arg_tuple(L)
    tag = "copy=%s%s" % (copy, ",aliased" if alias else "")
    run.count("corr:mem:" + tag)
    run.corr_checked += 1
    kw = medium_kwargs(case["medium"])
    tarr = kw["temperature"] if isinstance(kw["temperature"], np.ndarray) \
        else None
    t0 = None if tarr is None else tarr.copy()
    try:
        e = call_emod(L, arg, case["cw"], case["fr"], case["px"],
                      case["medium"], x, d, copy=copy, temperature=tarr
                      if tarr is not None else kw["temperature"])
    except Exception:
        if copy and (not np.array_equal(x, x0) or not np.array_equal(d, d0)):
            run.mismatch(dict(case, copy=copy, alias=alias), "unchanged",
                         "modified", what=tag + ": the caller's arrays were "
                         "modified by a failing call")
        return
    # decode: result, 77, x cells, 77, d cells, 77, temperature cells
    i, model = 0, []
    for _ in range(n):
        if flat[i] == 0:
            model.append(None)
            i += 1
        else:
            model.append(Fraction(flat[i + 1], flat[i + 2]))
            i += 3
    why = None
    if copy or not alias:
        why = compare_model(model, [float(v) for v in np.atleast_1d(e)],
                            dist, cond)
    cells = []
    for _ in range(3):
        if i >= len(flat) or flat[i] != 77:
            why = why or "malformed model output"
            break
        i += 1
        j = i
        while j < len(flat) and not (flat[j] == 77 and (j - i) % 2 == 0
                                     and (j - i) // 2 in (n, 0, len(
                                         t0 if t0 is not None else []))):
            j += 2
        cells.append([Fraction(flat[k], flat[k + 1])
                      for k in range(i, j, 2)])
        i = j
    if why is None and copy:
        if not np.array_equal(x, x0) or not np.array_equal(d, d0) or (
                t0 is not None and not np.array_equal(tarr, t0)):
            why = "the caller's arrays were modified"
        elif len(cells) == 3 and (
                [float(v) for v in cells[0]] != list(x0) or
                [float(v) for v in cells[1]] != list(x0 if alias else d0)):
            why = "the model modifies the caller's arrays"
    if why is None and not copy and len(cells) == 3 and not alias:
        dm = float(L.nodes[:, 1].max())
        same_ = len(cells[0]) == n and len(cells[1]) == n
        for nm, arr, cell, orig in (("abscissa", x, cells[0], x0),
                                    ("deform", d, cells[1], d0)):
            for k in range(n if same_ else 0):
                mv = float(cell[k])
                slack = 1e-13 * abs(d0[k]) / dm if nm == "deform" else 0.0
                if abs(mv - arr[k]) > 1e-11 * abs(mv) + slack + 1e-300:
                    same_ = False
        # not demanded by the property ("overridden"): information only
        run.count("corr:mem:copy=False-contents-%s" % (
            "as-modelled" if same_ else "differ"))
        if t0 is not None and not np.array_equal(tarr, t0):
            why = "copy=False: the temperature array was modified"
    if why is not None:
        run.mismatch(dict(case, copy=copy, alias=alias),
                     [str(v) for v in flat[:12]],
                     [float(v) for v in np.atleast_1d(e)],
                     what=tag + ": " + why)


# --------------------------------------------------------------------------
# load.py bookkeeping: registry / resolution / header checks vs the model
# --------------------------------------------------------------------------
FEAT_NAMES = {0: "deform", 1: "area_um", 2: "emodulus", 3: "volume",
              4: "circ", 9: "notafeature"}
UNIT_NAMES = {0: "", 1: "um^2", 2: "kPa", 3: "um^3", 5: "furlong"}
ERR_CODES = {"ValueError": 1, "AssertionError": 2, "KeyError": 3,
             "FileNotFoundError": 4}


def gen_filespec(rng):
    r = rng.random()
    cols = [(1, 1), (0, 0), (2, 2)]
    if r < 0.2:
        cols = [(3, 3), (0, 0), (2, 2)]
    elif r < 0.3:
        cols = [(0, 0), (1, 1), (2, 2)]            # KeyError: no recipe
    elif r < 0.34:
        cols = [(1, 1), (0, 0), (4, 0)]            # unit-less last column
    elif r < 0.38:
        cols = [(1, 1), (4, 0), (2, 2)]            # circ: assert False
    elif r < 0.46:
        cols = [(1, 5), (0, 0), (2, 2)]            # wrong unit
    elif r < 0.52:
        cols = [(9, 0), (0, 0), (2, 2)]            # not a feature
    elif r < 0.58:
        cols = [(1, 1), (0, 0), (2, 2), (3, 3)]    # four header columns
    units = [rng.random() > 0.08 for _ in range(3)]
    return dict(cols=cols, units=units, tag=rng.randint(10, 900),
                ident=rng.choice([None, 1, 2]))     # index into id pool


def filespec_rows(spec):
    t = spec["tag"]
    return [(10.0, 0.01, float(t)), (100.0, 0.02, float(t + 1)),
            (60.0, 0.1, float(t + 2))]


def filespec_coq(spec):
    ic = spec["ident_code"]
    rows = "; ".join("(%s,%s,%s)" % tuple(qlit(v) for v in r)
                     for r in filespec_rows(spec))
    return ("mkFile %s %s %s %s [%s] (Qmake 20 1) (Qmake 1 25) (Qmake 15 1) "
            "[%s]" % (common.blit(spec["units"][0]),
                      common.blit(spec["units"][1]),
                      common.blit(spec["units"][2]),
                      "None" if ic is None else "(Some %d)" % ic,
                      "; ".join("(%d, %d)" % tuple(c) for c in spec["cols"]),
                      rows))


def write_filespec(path, spec, ident):
    meta = {"channel_width": 20.0, "flow_rate": 0.04, "fluid_viscosity": 15.0,
            "channel_width_unit": "um" if spec["units"][0] else "mm",
            "flow_rate_unit": "uL/s" if spec["units"][1] else "mL/s",
            "fluid_viscosity_unit": "mPa s" if spec["units"][2] else "Pa s"}
    if ident is not None:
        meta["identifier"] = ident
    lines = ["# verification LUT", "# BEGIN METADATA"]
    lines += ["# " + ln for ln in json.dumps(meta, indent=1).split("\n")]
    lines += ["# END METADATA", "#"]
    hdr = []
    for ft, un in spec["cols"]:
        hdr.append(FEAT_NAMES[ft] + (" [%s]" % UNIT_NAMES[un]
                                     if UNIT_NAMES[un] else ""))
    lines.append("# " + "\t".join(hdr))
    lines += ["\t".join("%.6e" % v for v in r) for r in filespec_rows(spec)]
    with open(path, "w") as fd:
        fd.write("\n".join(lines) + "\n")


def registry_correspondence(run):
    """register_lut / get_lut_path / load_lut / column selection of the real
    code against run_load_ops of the model on random operation sequences"""
    from dclab.features import emodulus as em
    from dclab.features.emodulus import load
    rng = run.rng
    d = os.path.join(run.scratch, "reg")
    os.makedirs(d, exist_ok=True)
    builtin_codes = {1: "LE-2D-FEM-19", 2: "HE-2D-FEM-22", 3: "HE-3D-FEM-22"}
    rendered, expected, cases = [], [], []
    for ci in range(150 if run.thorough else 40):
        nfiles = rng.randint(1, 4)
        # names: 10+k files that exist, 20+k paths that do not exist,
        # 30+k free identifiers, 1..3 built-in identifiers (files 101..103)
        strs = {}
        files = {}
        for k in range(nfiles):
            spec = gen_filespec(rng)
            strs[10 + k] = os.path.join(d, "c%d_f%d.txt" % (ci, k))
            files[10 + k] = spec
        for k in range(2):
            strs[20 + k] = os.path.join(d, "c%d_missing%d.txt" % (ci, k))
        for k in range(3):
            strs[30 + k] = "verif-reg-%d-%d-%d" % (os.getpid(), ci, k)
        for k, nm in builtin_codes.items():
            strs[k] = nm
            strs[100 + k] = os.path.join(emod_dir(), "lut_%s.txt" % nm)
        back = {v: k for k, v in strs.items()}
        idpool = {1: 30, 2: 31}
        # alternative contents a file may be rewritten with between calls
        alts = [gen_filespec(rng) for _ in range(3)]
        if rng.random() < 0.7:       # mostly loadable tables
            for a in alts[:2]:
                a["cols"] = rng.choice([[(1, 1), (0, 0), (2, 2)],
                                        [(3, 3), (0, 0), (2, 2)]])
                a["units"] = [True, True, True]
        for code, spec in list(files.items()) + [(None, a) for a in alts]:
            ic = idpool.get(spec["ident"])
            if spec["ident"] is not None and rng.random() < 0.15 and code:
                ic = rng.choice([1, code])      # a built-in id / its own path
            spec["ident_code"] = ic
            if code is not None:
                write_filespec(strs[code], spec,
                               None if ic is None else strs[ic])
        ops = []
        for _ in range(rng.randint(4, 11)):
            r = rng.random()
            if r < 0.3:
                p = rng.choice(list(files) + [20, 21])
                i = rng.choice([-1, -1, 30, 31, 32, 1, rng.choice(list(files))])
                ops.append((0, p, i))
            elif r < 0.55:
                # the user rewrites a LUT file in place (same path)
                ops.append((2, rng.choice(list(files) + list(files) + [20]),
                            rng.randrange(len(alts))))
            else:
                x = rng.choice(list(files) + [20, 30, 31, 32, 1, 2, 3])
                ops.append((1, x, 0))
        if rng.random() < 0.6:
            # load, rewrite the same path, load again (also through an
            # identifier registered for it)
            f = rng.choice(list(files))
            ops += [(1, f, 0), (0, f, 32), (1, 32, 0),
                    (2, f, rng.randrange(2)), (1, f, 0), (1, 32, 0)]
        # the implementation
        out = []
        added = []
        try:
            current = dict(files)
            for tag, x, y in ops:
                if tag == 2:
                    a = alts[y]
                    write_filespec(strs[x], a, None if a["ident_code"] is None
                                   else strs[a["ident_code"]])
                    current[x] = a
                    continue
                if tag == 0:
                    before = set(load.EXTERNAL_LUTS)
                    try:
                        load.register_lut(strs[x],
                                          None if y < 0 else strs[y])
                        out.append(0)
                    except Exception as exc:
                        out.append(ERR_CODES.get(type(exc).__name__, 8))
                    added += list(set(load.EXTERNAL_LUTS) - before)
                    continue
                try:
                    pth = str(load.get_lut_path(strs[x]))
                except Exception as exc:
                    out.append(ERR_CODES.get(type(exc).__name__, 8))
                    continue
                pc = back.get(pth, -7)
                spec = current.get(pc)
                vol = bool(spec) and spec["cols"][0][0] == 3
                # at the first node, in the table's own set-up: the value is
                # the first node's modulus (the content tag)
                kw = dict(deform=np.array([0.01]), medium=15.0,
                          channel_width=20.0, flow_rate=0.04, px_um=0,
                          temperature=None, visc_model=None,
                          lut_data=strs[x])
                kw["volume" if vol else "area_um"] = np.array([10.0])
                try:
                    e = em.get_emodulus(**kw)
                    ctag = -1 if pc > 100 else (
                        -2 if np.isnan(e[0]) else int(round(float(e[0]))))
                    out += [0, pc, 3 if vol else 1, ctag]
                except Exception as exc:
                    out += [ERR_CODES.get(type(exc).__name__, 8), pc]
        finally:
            for k in added:
                load.EXTERNAL_LUTS.pop(k, None)
        # the model
        frec = []
        for code, spec in sorted(files.items()):
            frec.append("(%d, %s)" % (code, filespec_coq(spec)))
        for k in builtin_codes:
            frec.append("(%d, mkFile true true true (Some %d) "
                        "[(1, 1); (0, 0); (2, 2)] (Qmake 20 1) (Qmake 1 25) "
                        "(Qmake 15 1) [])" % (100 + k, k))
        world = "mkWorld [%s] [(1, 101); (2, 102); (3, 103)] [] [] 0%%N" % \
            "; ".join(frec)
        rendered.append("(%s,\n [%s],\n [%s])" % (
            world, "; ".join(filespec_coq(a) for a in alts), "; ".join(
                "(%s, %s, %s)" % tuple(common.zlit(v) for v in o)
                for o in ops)))
        expected.append(out)
        case = dict(kind="registry", files={str(k): dict(
            cols=v["cols"], units=v["units"], ident=v["ident_code"],
            tag=v["tag"]) for k, v in files.items()},
            alts=[dict(cols=a["cols"], units=a["units"],
                       ident=a["ident_code"], tag=a["tag"]) for a in alts],
            ops=ops)
        cases.append(case)
    res = common.coq_map(run.scratch, "c05_reg", HEADER,
                         "(fun c => run_load_ops (fst (fst c)) (snd (fst c)) "
                         "(snd c))", rendered,
                         shard=50)
    def collapse(out, ops):
        """the property does not fix exception classes: error codes -> 1"""
        res_, k = [], 0
        for tag, x, y in ops:
            if tag == 2 or k >= len(out):
                continue
            v = out[k]
            if tag == 0:
                res_.append(min(v, 1))
                k += 1
            elif v == 0:
                res_ += out[k:k + 4]
                k += 4
            else:
                res_.append(1)
                k += 1
                if k < len(out) and out[k] >= 10:
                    res_.append(out[k])
                    k += 1
        return res_ + out[k:]
    for case, m, i in zip(cases, res, expected):
        m, i = collapse(m, case["ops"]), collapse(i, case["ops"])
        run.record_case(case, True, sample=False)
        run.count("corr:registry")
        for o in case["ops"]:
            run.count("corr:registry-op=%s" % ["register", "load",
                                               "rewrite-file"][o[0]])
        run.corr_checked += 1
        if m != i:
            run.mismatch(case, m, i, what="registry/loading bookkeeping")


def history_correspondence(run):
    """run_ops of the model (get_emodulus_w, register_lut, OWriteFile,
    OMutate) against the real code on random histories: calls by path, by
    registered identifier and by (array, meta); the user rewrites files and
    modifies his array between calls"""
    from dclab.features import emodulus as em
    from dclab.features.emodulus import load
    rng = run.rng
    d = os.path.join(run.scratch, "hist")
    os.makedirs(d, exist_ok=True)
    rendered, expected, cases = [], [], []

    def good_spec():
        sp = gen_filespec(rng)
        if rng.random() < 0.85:
            sp["cols"] = rng.choice([[(1, 1), (0, 0), (2, 2)],
                                     [(3, 3), (0, 0), (2, 2)]])
            sp["units"] = [True, True, True]
        sp["ident_code"] = None
        return sp

    def q3(rows):
        return "[%s]" % "; ".join("(%s,%s,%s)" % tuple(qlit(v) for v in r)
                                  for r in rows)
    for ci in range(120 if run.thorough else 30):
        strs = {10: os.path.join(d, "h%d_a.txt" % ci),
                11: os.path.join(d, "h%d_b.txt" % ci),
                30: "verif-hist-%d-%d" % (os.getpid(), ci)}
        files = {10: good_spec(), 11: good_spec()}
        for code, sp in files.items():
            write_filespec(strs[code], sp, None)
        tfeat = rng.choice([1, 3])
        trow0 = filespec_rows(dict(tag=rng.randint(1, 900)))
        arr = np.array(trow0, dtype=float)
        tmeta = {"channel_width": 20.0, "flow_rate": 0.04,
                 "fluid_viscosity": 15.0,
                 "column features": [FEAT_NAMES[tfeat], "deform",
                                     "emodulus"]}
        ops, cops, out = [], [], []
        current = dict(files)
        added = []
        exptab, etatab = {}, {}
        hmed = rng.choice([("CellCarrier", "buyukurganci-2022"),
                           ("0.6% MC-PBS", "herold-2017"),
                           ("water", "kestin-1978")])
        hcw, hfr = rng.choice([20.0, 30.0]), rng.choice([0.04, 0.16])
        plan = [None] * rng.randint(5, 12)
        if rng.random() < 0.6:
            # bind the identifier, use it, re-bind it to the other file (the
            # only way: remove it from EXTERNAL_LUTS and register again), use
            # it, rewrite that file in place, use it again
            plan += ["reg10", "callid", "unreg", "reg11", "callid", "write11",
                     "callid"]
        try:
            for forced in plan:
                r = rng.random()
                if forced in ("reg10", "reg11"):
                    r = 0.0
                elif forced == "unreg":
                    r = 0.16
                elif forced == "write11":
                    r = 0.25
                elif forced == "callid":
                    r = 0.9
                if 0.15 <= r < 0.19:
                    ops.append(["unreg", 30])
                    cops.append("OUnregister 30")
                    load.EXTERNAL_LUTS.pop(strs[30], None)
                    continue
                if r < 0.15:
                    idc = rng.choice([30, 30, 1])
                    p_ = rng.choice([10, 11])
                    if forced:
                        idc, p_ = 30, int(forced[3:])
                    ops.append(["reg", p_, idc])
                    cops.append("ORegister %d (Some %d)" % (p_, idc))
                    before = set(load.EXTERNAL_LUTS)
                    try:
                        load.register_lut(strs[p_], "LE-2D-FEM-19" if idc == 1
                                          else strs[idc])
                        out.append(0)
                    except Exception as exc:
                        out.append(ERR_CODES.get(type(exc).__name__, 8))
                    added += list(set(load.EXTERNAL_LUTS) - before)
                elif r < 0.30:
                    p_ = 11 if forced else rng.choice([10, 11])
                    sp = good_spec()
                    ops.append(["write", p_, sp["tag"], sp["cols"],
                                sp["units"]])
                    cops.append("OWriteFile %d (%s)" % (p_, filespec_coq(sp)))
                    write_filespec(strs[p_], sp, None)
                    current[p_] = sp
                elif r < 0.42:
                    rows = filespec_rows(dict(tag=rng.randint(1, 900)))
                    ops.append(["mutate", rows[0][2]])
                    cops.append("OMutate 0 %s" % q3(rows))
                    arr[:] = np.array(rows)          # in place, by the user
                else:
                    how = rng.choice(["path", "path", "ident", "tuple"])
                    if forced:
                        how = "ident"
                    cw = rng.choice([20.0, 30.0, 15.0])
                    fr = rng.choice([0.04, 0.16])
                    v = rng.choice([15.0, 5.0, 7.5])
                    if how == "tuple":
                        vol = tfeat == 3
                        dat = "DTuple 0 (mkMeta [%d; 0; 2] %s %s %s None)" % (
                            tfeat, qlit(20.0), qlit(0.04), qlit(15.0))
                        arg = (arr, tmeta)
                    else:
                        x_ = rng.choice([10, 11]) if how == "path" else 30
                        pth = x_
                        if how == "ident":
                            reg = load.EXTERNAL_LUTS.get(strs[30])
                            pth = {strs[10]: 10, strs[11]: 11}.get(reg)
                        sp = current.get(pth)
                        vol = bool(sp) and sp["cols"][0][0] == 3
                        dat = "DName %d" % x_
                        arg = strs[x_]
                    pw = 3 if vol else 2
                    feat = "volume" if vol else "area_um"
                    px = rng.choice([0.0, 0.0, 0.25, 0.34])
                    ne = rng.choice([1, 1, 2, 3])
                    mk = rng.choice(["num", "num", "scalar", "array"])
                    if mk != "num":
                        cw, fr = hcw, hfr      # one eta table per history
                    xs_, ds_ = [], []
                    for _e in range(ne):
                        xl, dl = rng.choice([(10.0, 0.01), (56.0, 0.04),
                                             (500.0, 0.5), (70.0, 0.05)])
                        xv = quant(xl * (cw / 20.0) ** pw, 6)
                        dv = dl + (quant(float(ref_delta(feat, xv, px)), 20)
                                   if px else 0.0)
                        xs_.append(xv)
                        ds_.append(dv)
                        if px:
                            fpx = Fraction(px)
                            sc_ = (Fraction(34, 100) / fpx) ** pw
                            for tau in ([Fraction(71, 10), Fraction(386, 10),
                                         Fraction(296)] if not vol else
                                        [Fraction(40), Fraction(450),
                                         Fraction(6040)]):
                                key = -Fraction(xv) * sc_ / tau
                                exptab[key] = Fraction(math.exp(float(key)))
                    if mk == "num":
                        cmed = "(MNum %s)" % qlit(v)
                        mkw = dict(medium=v, temperature=None,
                                   visc_model=None)
                    else:
                        ts_ = [quant(rng.uniform(22, 26), 3)
                               for _ in range(ne if mk == "array" else 1)]
                        for t_ in ts_:
                            etatab[Fraction(t_)] = Fraction(float(
                                ref_viscosity(hmed[0], hmed[1], hcw, hfr,
                                              t_)))
                        if mk == "array":
                            cmed = "(MTempArray %s)" % common.clist(
                                [qlit(t_) for t_ in ts_])
                            mkw = dict(medium=hmed[0], visc_model=hmed[1],
                                       temperature=np.array(ts_))
                        else:
                            cmed = "(MTempScalar %s)" % qlit(ts_[0])
                            mkw = dict(medium=hmed[0], visc_model=hmed[1],
                                       temperature=ts_[0])
                    ops.append(["call", how, cw, fr, px, mk, xs_, ds_])
                    cops.append("OCall (%s) (mkSetup %s %s %s) %s %s" % (
                        dat, qlit(cw), qlit(fr), qlit(px), cmed,
                        common.clist(["(%s,%s)" % (qlit(a_), qlit(b_))
                                      for a_, b_ in zip(xs_, ds_)])))
                    kw = dict(deform=np.array(ds_), channel_width=cw,
                              flow_rate=fr, px_um=px, lut_data=arg)
                    kw.update(mkw)
                    kw[feat] = np.array(xs_)
                    try:
                        e = em.get_emodulus(**kw)
                        out.append([float(v_) for v_ in e])
                    except Exception as exc:
                        out.append(ERR_CODES.get(type(exc).__name__, 8))
        finally:
            for k_ in added:
                load.EXTERNAL_LUTS.pop(k_, None)
        world = ("mkWorld [%s] [(1, 101)] [] [(0%%N, %s)] 1%%N" % (
            "; ".join("(%d, %s)" % (c, filespec_coq(sp))
                      for c, sp in sorted(files.items())), q3(trow0)))
        tab = lambda t: common.clist(["(%s,%s)" % (qlit(a_), qlit(b_))
                                      for a_, b_ in sorted(t.items())])
        rendered.append("(%s, %s, %s,\n [%s])" % (
            tab(exptab), tab(etatab), world, ";\n ".join(cops)))
        expected.append(out)
        cases.append(dict(kind="history", ops=ops, medium=list(hmed),
                          files={str(k): dict(cols=v["cols"], units=v["units"],
                                              tag=v["tag"])
                                 for k, v in files.items()}))
    res = common.coq_map(run.scratch, "c05_hist", HEADER,
                         "(fun c => run_ops_flat2 (fst (fst (fst c))) "
                         "(snd (fst (fst c))) (snd (fst c)) (snd c))",
                         rendered, shard=15)
    for case, flat, exp in zip(cases, res, expected):
        run.record_case(case, True, sample=False)
        run.count("corr:history")
        for o in case["ops"]:
            run.count("corr:history-op=%s" % o[0])
        run.corr_checked += 1
        # decode the model's outcomes along the expected ones
        i, why = 0, None
        for k, e in enumerate(exp):
            if i >= len(flat):
                why = "model has fewer outcomes"
                break
            if isinstance(e, list):
                if flat[i] != 0:
                    why = "op %d: model error %d, implementation %r" % (
                        k, flat[i], e)
                    break
                i += 1
                for ev in e:
                    if flat[i] == 0:
                        mv, i = None, i + 1
                    else:
                        mv, i = Fraction(flat[i + 1], flat[i + 2]), i + 3
                    if (mv is None) != bool(np.isnan(ev)) or (
                            mv is not None and
                            abs(float(mv) - ev) > RTOL * abs(ev)):
                        why = "op %d: model %s, implementation %r" % (
                            k, mv if mv is None else float(mv), ev)
                        break
                if why:
                    break
            else:
                if min(flat[i], 1) != min(e, 1):     # classes not compared
                    why = "op %d: model %d, implementation code %d" % (
                        k, flat[i], e)
                    break
                i += 1
        if why is None and i != len(flat):
            why = "model has more outcomes"
        if why:
            run.mismatch(case, flat, exp, what="history: " + why)


def load_corpus():
    d = os.path.join(common.VERIF, "corpus", PROP)
    cases = []
    if os.path.isdir(d):
        for fn in sorted(os.listdir(d)):
            if fn.endswith(".json"):
                cases.append(json.load(open(os.path.join(d, fn)))["case"])
    return cases


# --------------------------------------------------------------------------
# property oracle on the real code (model independent)
# --------------------------------------------------------------------------
def _h(a):
    a = np.ascontiguousarray(a)
    return hashlib.sha1(a.tobytes() + str(a.dtype).encode()
                        + str(a.shape).encode()).hexdigest()


def same(a, b, rtol=0.0):
    """None if equal (NaN == NaN), else (index, a, b)"""
    a = np.atleast_1d(np.asarray(a, dtype=float))
    b = np.atleast_1d(np.asarray(b, dtype=float))
    if a.shape != b.shape:
        return (-1, a.shape, b.shape)
    na, nb = np.isnan(a), np.isnan(b)
    bad = na != nb
    with np.errstate(all="ignore"):
        bad |= (~na & ~nb) & (np.abs(a - b) > rtol * np.abs(a))
    if bad.any():
        i = int(np.argmax(bad))
        return (i, float(a[i]), float(b[i]))
    return None


def close_outside_band(a, b, dist, cond, rtol=RTOL):
    """like same(), but NaN-ness may differ within BAND of the hull and the
    tolerance grows with the conditioning of the triangle"""
    a = np.atleast_1d(np.asarray(a, dtype=float))
    b = np.atleast_1d(np.asarray(b, dtype=float))
    if a.shape != b.shape:
        return (-1, a.shape, b.shape)
    for i in range(a.size):
        near = (not np.isnan(dist[i])) and abs(dist[i]) <= BAND
        na, nb = np.isnan(a[i]), np.isnan(b[i])
        if na or nb:
            if na != nb and not near:
                return (i, float(a[i]), float(b[i]))
            continue
        if abs(a[i] - b[i]) > (rtol + 1e-14 * cond[i]) * abs(a[i]) + 1e-300:
            return (i, float(a[i]), float(b[i]))
    return None


class Scn:
    """a scenario: everything get_emodulus needs"""

    def __init__(self, case):
        self.case = case
        self.L = lut_from_case(case["lut"])
        self.cw, self.fr, self.px = case["cw"], case["fr"], case["px"]
        self.med = case["medium"]
        self.x = np.array(case["x"], dtype=float)
        self.d = np.array(case["d"], dtype=float)
        self.arg = self.L.name if self.L.name else lut_arg_tuple(self.L)

    def f(self, x=None, d=None, med=None, cw=None, fr=None, px=None,
          arg=None, **kw):
        with np.errstate(all="ignore"):
            return call_emod(self.L, self.arg if arg is None else arg,
                             self.cw if cw is None else cw,
                             self.fr if fr is None else fr,
                             self.px if px is None else px,
                             self.med if med is None else med,
                             self.x if x is None else x,
                             self.d if d is None else d, **kw)

    def sub_med(self, idx):
        med = self.med
        if route_of(med) == "array" and len(med["temp"]) == self.x.size \
                and self.x.size != 1:
            return dict(med, temp=[med["temp"][i] for i in idx])
        return med

    def ref(self, **kw):
        a = dict(cw=self.cw, fr=self.fr, px=self.px, med=self.med, x=self.x,
                 d=self.d)
        a.update(kw)
        with np.errstate(all="ignore"):
            return reference(self.L, a["cw"], a["fr"], a["px"], a["med"],
                             a["x"], a["d"])


def chk_reference(sc, rng):
    """equals the scaled piecewise-linear interpolation; NaN exactly outside
    the support (own convex hull, exact orientation tests)"""
    E = sc.f()
    bad, R, dist, cond = compare_with_reference(sc, E)
    if bad:
        i = bad[0]
        return ("event %d (x=%r, deform=%r): get_emodulus=%r, scaled linear "
                "interpolation of the LUT=%r (hull distance %.3g)" % (
                    i, float(sc.x[i]), float(sc.d[i]),
                    float(np.atleast_1d(E)[i]), float(R[i]), dist[i]))
    return check_support(sc, E, dist)


def compare_with_reference(sc, E):
    """indices where E differs from every piecewise-linear interpolation of
    the table (for cocircular tables: from both diagonals)"""
    R, dist, cond, (Q, ss, T, P) = sc.ref()
    bad = compare_values(R, E, dist, cond)
    if bad and sc.L.grid:
        # cocircular nodes: any Delaunay triangulation is a piecewise-linear
        # interpolation of the table; accept the flipped diagonal
        Ev = np.atleast_1d(E)
        still = []
        V = sc.L.nodes[:, 2]
        vis = viscosities(sc.med, sc.cw, sc.fr, sc.x.size)
        for i in bad:
            ok = False
            if ss[i] >= 0 and not np.isnan(Ev[i]):
                k = (sc.fr / sc.L.fr) * (vis[i] / sc.L.visc) \
                    * (sc.L.cw / sc.cw) ** 3
                for a in alt_interps(P, V, T, ss[i], Q[i]):
                    if abs(a * k - Ev[i]) <= (RTOL + 1e-14 * cond[i]) \
                            * abs(Ev[i]):
                        ok = True
            if not ok:
                still.append(i)
        bad = still
    return bad, R, dist, cond


def check_support(sc, E, dist):
    """NaN exactly outside the support (own hull)"""
    E = np.atleast_1d(E)
    for i in range(E.size):
        if np.isnan(dist[i]):
            if not np.isnan(E[i]):
                return "event %d is not finite but emodulus=%r" % (i, E[i])
        elif dist[i] > BAND and np.isnan(E[i]):
            return ("event %d (x=%r, deform=%r) lies inside the support "
                    "(distance %.3g to the hull) but emodulus is NaN" % (
                        i, float(sc.x[i]), float(sc.d[i]), dist[i]))
        elif dist[i] < -BAND and not np.isnan(E[i]):
            return ("event %d (x=%r, deform=%r) lies outside the support "
                    "(distance %.3g) but emodulus=%r" % (
                        i, float(sc.x[i]), float(sc.d[i]), -dist[i],
                        float(E[i])))
    return None


def chk_batch(sc, rng):
    """the value of an event does not depend on the other events"""
    E = np.atleast_1d(sc.f())
    n = sc.x.size
    if n == 0:
        return None
    tol = RTOL
    # on the hull itself (within rounding) qhull's answer depends on where
    # its directed search starts, i.e. on the preceding event: NaN-ness is
    # compared outside the band only
    # an event on a common edge of two (possibly thin) triangles may be
    # evaluated in either: the tolerance follows the conditioning
    _, dist, cond, _ = sc.ref()

    def same(a, b, tol, idx=None):          # noqa: F811 (band-aware)
        ii = np.arange(n) if idx is None else np.array(idx, dtype=int)
        return close_outside_band(a, b, dist[ii], cond[ii], rtol=tol)
    for trial in range(4):
        k = rng.randint(1, n)
        idx = [rng.randrange(n) for _ in range(k)]      # with repetitions
        if trial == 0:
            idx = list(range(n))[::-1]
        elif trial == 1:
            idx = [rng.randrange(n)]
        sub = np.atleast_1d(sc.f(x=sc.x[idx], d=sc.d[idx],
                                 med=sc.sub_med(idx)))
        r = same(E[idx], sub, tol, idx)
        if r:
            return ("event %d of the batch (x=%r, deform=%r) has emodulus %r "
                    "in the full batch but %r in the sub-batch with indices "
                    "%s" % (idx[r[0]], float(sc.x[idx[r[0]]]),
                            float(sc.d[idx[r[0]]]), r[1], r[2], idx[:20]))
    # split in two halves
    h = n // 2
    a = np.atleast_1d(sc.f(x=sc.x[:h], d=sc.d[:h],
                           med=sc.sub_med(range(h)))) if h else np.zeros(0)
    b = np.atleast_1d(sc.f(x=sc.x[h:], d=sc.d[h:],
                           med=sc.sub_med(range(h, n))))
    r = same(E, np.concatenate([a, b]), tol)
    if r:
        return "split at %d: event %d: %r vs %r" % (h, r[0], r[1], r[2])
    # python scalars (0-d) for the scalar route
    if route_of(sc.med) == "scalar":
        i = rng.randrange(n)
        s0 = sc.f(x=float(sc.x[i]), d=float(sc.d[i]))
        r = same(E[[i]], s0, tol, [i])
        if r:
            return ("event %d alone as python floats gives %r, in the batch "
                    "%r" % (i, r[2], r[1]))
    # input containers / dtypes
    r = same(E, sc.f(x=list(sc.x), d=list(sc.d)), 0.0)
    if r:
        return "list input differs from ndarray input: event %d: %r vs %r" % r
    x32 = sc.x.astype(np.float32)
    d32 = sc.d.astype(np.float32)
    r = globals()["same"](sc.f(x=x32.astype(float), d=d32.astype(float)),
                          sc.f(x=x32, d=d32), 0.0)
    if r:
        return "float32 input differs from its float64 copy: event %d: " \
               "%r vs %r" % r
    return None


def chk_scalar_vs_array(sc, rng):
    """temperature per event (all equal) or globally"""
    if sc.med["kind"] != "known" or sc.x.size == 0:
        return None
    t = sc.med["temp"]
    t = t[0] if isinstance(t, list) else t
    n = sc.x.size
    m0 = dict(sc.med, temp=t)
    E0 = sc.f(med=m0)
    _, dist, cond, _ = sc.ref(med=m0)
    # numpy scalar and 0-d array temperatures
    for tv, nm in ((np.float64(t), "numpy.float64"),
                   (np.array(t, dtype=float), "0-d ndarray")):
        kw = dict(medium_kwargs(m0), temperature=tv)
        E1 = sc.f(**kw)
        r = close_outside_band(E0, E1, dist, cond)
        if r:
            return ("event %d: temperature %r as float gives %r, as %s "
                    "gives %r" % (r[0], t, r[1], nm, r[2]))
    for m1 in (dict(sc.med, temp=[t] * n), dict(sc.med, temp=[t])):
        E1 = sc.f(med=m1)
        r = close_outside_band(E0, E1, dist, cond)
        if r:
            return ("event %d (x=%r, deform=%r): temperature %r as scalar "
                    "gives %r, as array of length %d gives %r" % (
                        r[0], float(sc.x[r[0]]), float(sc.d[r[0]]), t, r[1],
                        len(m1["temp"]), r[2]))
    return None


def chk_proportional(sc, rng):
    """E ~ viscosity and E ~ flow rate (numeric viscosity)"""
    v = sc.med["v"] if sc.med["kind"] == "num" else 4.5
    k = rng.choice([2.0, 0.5, 3.0, 1.7, 10.0])
    E0 = np.atleast_1d(sc.f(med=dict(kind="num", v=v)))
    E1 = np.atleast_1d(sc.f(med=dict(kind="num", v=v * k)))
    r = same(E0 * k, E1, 1e-12)
    if r:
        return ("event %d: viscosity %r -> %r: emodulus %r -> %r, expected "
                "%r" % (r[0], v, v * k, float(E0[r[0]]), r[2], r[1]))
    E2 = np.atleast_1d(sc.f(med=dict(kind="num", v=v), fr=sc.fr * k))
    r = same(E0 * k, E2, 1e-12)
    if r:
        return ("event %d: flow rate %r -> %r: emodulus %r -> %r, expected "
                "%r" % (r[0], sc.fr, sc.fr * k, float(E0[r[0]]), r[2], r[1]))
    if route_of(sc.med) == "array":
        # per-event viscosities: compare with the global-viscosity call
        # event by event through the reference viscosity
        vs = viscosities(sc.med, sc.cw, sc.fr, sc.x.size)
        if np.isfinite(vs).all() and sc.x.size:
            EA = np.atleast_1d(sc.f())
            _, dist, cond, _ = sc.ref()
            r = close_outside_band(E0 / v * vs, EA, dist, cond)
            if r:
                return ("event %d: per-event viscosity %r: emodulus %r, "
                        "expected %r (global viscosity %r gives %r)" % (
                            r[0], float(vs[r[0]]), r[2], r[1], v, float(E0[r[0]])))
    return None


def chk_rescale(sc, rng):
    """joint geometric rescaling of the set-up leaves E unchanged"""
    lam = rng.choice([2.0, 0.5, 1.5, 1.25, 3.0, rng.uniform(0.5, 2.5)])
    E0 = sc.f()
    _, dist, cond, _ = sc.ref()
    E1 = sc.f(x=sc.x * lam ** sc.L.pw, cw=sc.cw * lam, px=sc.px * lam,
              fr=sc.fr * lam ** 3)
    r = close_outside_band(E0, E1, dist, cond)
    if r:
        return ("event %d (x=%r, deform=%r): emodulus %r, after rescaling "
                "the set-up by %r (width, pixel size x lam; %s x lam^%d; "
                "flow rate x lam^3) %r" % (
                    r[0], float(sc.x[r[0]]), float(sc.d[r[0]]), r[1], lam,
                    sc.L.feat,
                    sc.L.pw, r[2]))
    return None


def chk_px0(sc, rng):
    """pixel size 0 disables the correction; otherwise the correction is
    the documented offset subtracted from the deformation"""
    if not sc.px:
        E0 = sc.f(px=0)
        E1 = sc.f(px=0.0)
        r = same(E0, E1)
        return ("px_um=0 vs px_um=0.0: event %d: %r vs %r" % r) if r else None
    with np.errstate(all="ignore"):
        dc = sc.d - ref_delta(sc.L.feat, sc.x, sc.px)
    E0 = sc.f()
    E1 = sc.f(px=0, d=dc)
    _, dist, cond, _ = sc.ref()
    r = close_outside_band(E0, E1, dist, cond)
    if r:
        return ("event %d (x=%r, deform=%r): px_um=%r gives %r; px_um=0 with "
                "the documented offset subtracted gives %r" % (
                    r[0], float(sc.x[r[0]]), float(sc.d[r[0]]), sc.px, r[1], r[2]))
    return None


def chk_nomutation(sc, rng):
    """neither the caller's arrays nor the tables are modified; earlier
    calls do not matter"""
    from dclab.features.emodulus import load
    x, d = sc.x.copy(), sc.d.copy()
    med = sc.med
    kw = medium_kwargs(med)
    tarr = kw["temperature"] if isinstance(kw["temperature"], np.ndarray) \
        else None
    arg = sc.arg
    if isinstance(arg, tuple):
        arr, meta = arg
        before_l = (_h(arr), json.dumps(meta, sort_keys=True))
    else:
        path = os.path.join(emod_dir(), "lut_%s.txt" % arg)
        before_l = hashlib.sha1(open(path, "rb").read()).hexdigest()
        before_load = _h(load.load_lut(arg)[0])
    ext = dict(load.EXTERNAL_LUTS)
    hx, hd = _h(x), _h(d)
    ht = _h(tarr) if tarr is not None else None
    from dclab.features import emodulus as em
    args = dict(deform=d, channel_width=sc.cw, flow_rate=sc.fr, px_um=sc.px,
                lut_data=arg)
    args["area_um" if sc.L.feat == "area_um" else "volume"] = x
    args.update(kw)
    with np.errstate(all="ignore"):
        E1 = em.get_emodulus(**args)
        # an unrelated call in between
        other = builtin_lut("HE-3D-FEM-22")
        em.get_emodulus(deform=np.array([0.02, 0.5]),
                        area_um=np.array([80.0, 10.0]), medium=3.3,
                        channel_width=25.0, flow_rate=0.2, px_um=0.3,
                        temperature=None, visc_model=None,
                        lut_data=other.name)
        E2 = em.get_emodulus(**args)
    if _h(x) != hx or _h(d) != hd:
        return "the caller's %s array was modified" % (
            sc.L.feat if _h(x) != hx else "deform")
    if tarr is not None and _h(tarr) != ht:
        return "the caller's temperature array was modified"
    if isinstance(arg, tuple):
        if (_h(arr), json.dumps(meta, sort_keys=True)) != before_l:
            return "the caller's (LUT array, meta) was modified"
    else:
        if hashlib.sha1(open(path, "rb").read()).hexdigest() != before_l:
            return "the LUT file %s was modified" % path
        if _h(load.load_lut(arg)[0]) != before_load:
            return "load_lut(%r) returns different data after the calls" % arg
    if dict(load.EXTERNAL_LUTS) != ext:
        return "EXTERNAL_LUTS changed"
    r = same(E1, E2)
    if r:
        return ("the same call repeated after an unrelated call gives a "
                "different value for event %d: %r then %r" % r)
    # the same ndarray passed as abscissa AND deform (copy=True): the values
    # are those of two separate arrays, the array is unchanged
    both = x.copy()
    hb = _h(both)
    a2 = dict(args, deform=both)
    a2["area_um" if sc.L.feat == "area_um" else "volume"] = both
    a3 = dict(args, deform=both.copy())
    a3["area_um" if sc.L.feat == "area_um" else "volume"] = both.copy()
    with np.errstate(all="ignore"):
        r = same(em.get_emodulus(**a3), em.get_emodulus(**a2))
    if r:
        return ("the same array passed as %s and deform: event %d: %r, with "
                "two separate arrays %r" % (sc.L.feat, r[0], r[2], r[1]))
    if _h(both) != hb:
        return "an array passed as both %s and deform was modified" % sc.L.feat
    E1 = np.atleast_1d(E1)
    if E1.size and (np.shares_memory(E1, x) or np.shares_memory(E1, d)):
        return "the result shares memory with an input array"
    return None


_REG = {"n": 0}


def chk_lutvia(sc, rng, scratch):
    """a LUT given by path, registered identifier or (array, meta) gives the
    same values; built-in tables by identifier, by path, by tuple"""
    from dclab.features.emodulus import load
    if sc.L.name:
        path = os.path.join(emod_dir(), "lut_%s.txt" % sc.L.name)
        E0 = sc.f()
        E1 = sc.f(arg=path)
        import pathlib
        E2 = sc.f(arg=pathlib.Path(path))
        E3 = sc.f(arg=load.load_lut(sc.L.name))
        cands = [("path str", E1), ("pathlib.Path", E2),
                 ("(array, meta) from load_lut", E3)]
        if sc.L.name == "LE-2D-FEM-19":
            cands.append(("deprecated alias FEM-2Daxis",
                          sc.f(arg="FEM-2Daxis")))
        for nm, e in cands:
            r = same(E0, e)
            if r:
                return "built-in identifier vs %s: event %d: %r vs %r" % (
                    (nm,) + r)
        return None
    # (array, meta) tables of other dtypes / layouts are the same table
    nodes = sc.L.nodes
    meta = sc.L.meta()
    E0 = sc.f()
    for nm, arr in (("list of lists", nodes.tolist()),
                    ("Fortran-ordered array", np.asfortranarray(nodes)),
                    ("read-only array", None)):
        if arr is None:
            arr = nodes.copy()
            arr.setflags(write=False)
        r = same(E0, sc.f(arg=(arr, dict(meta))))
        if r:
            return "(array, meta) as %s: event %d: %r vs %r" % ((nm,) + r)
    n32 = nodes.astype(np.float32)
    L32 = Lut(sc.L.feat, sc.L.cw, sc.L.fr, sc.L.visc, n32.astype(float),
              grid=sc.L.grid)
    s32 = Scn(dict(sc.case, lut=lut_to_case(L32)))
    E64 = s32.f()
    _, dist32, cond32, _ = s32.ref()
    r = close_outside_band(E64, s32.f(arg=(n32, dict(meta))), dist32, cond32)
    if r:
        return ("(float32 array, meta) vs the same numbers as float64: "
                "event %d: %r vs %r" % (r[0], r[2], r[1]))
    # an integer table (deformation in 1/4096, modulus in 1/8 units)
    ni = np.round(nodes * np.array([8.0, 4096.0, 8.0])).astype(np.int64)
    if len(set(map(tuple, ni[:, :2]))) == len(ni):
        Li = Lut(sc.L.feat, sc.L.cw, sc.L.fr, sc.L.visc, ni.astype(float))
        si = Scn(dict(sc.case, lut=lut_to_case(Li), px=0,
                      x=list(sc.x * 8.0), d=list(sc.d * 4096.0)))
        Ef = si.f()
        _, disti, condi, _ = si.ref()
        try:
            Ei = si.f(arg=(ni, dict(meta)))
        except Exception as exc:
            return ("(integer array, meta) raises %s: %s" % (
                type(exc).__name__, str(exc)[:80]))
        r = close_outside_band(Ef, Ei, disti, condi)
        if r:
            return ("(integer array, meta) vs the same numbers as float64: "
                    "event %d: %r vs %r" % (r[0], r[2], r[1]))
    _REG["n"] += 1
    ident = "verif-lut-%d-%d" % (os.getpid(), _REG["n"])
    path = os.path.join(scratch, ident + ".txt")
    sc.L.write(path, ident)
    raw = open(path, "rb").read()
    E1 = sc.f(arg=path)
    # the same table with CRLF line ends
    pcr = os.path.join(scratch, ident + "-crlf.txt")
    sc.L.write(pcr, ident, crlf=True)
    r = same(E0, sc.f(arg=pcr))
    if r:
        return "file with CRLF line ends: event %d: %r vs %r" % r
    load.register_lut(path)
    try:
        if load.EXTERNAL_LUTS.get(ident) != path:
            return "register_lut did not register %s" % ident
        E2 = sc.f(arg=ident)
        E3 = sc.f(arg=load.load_lut(ident))
        E4 = sc.f(arg=ident)
    finally:
        load.EXTERNAL_LUTS.pop(ident, None)
    for nm, e in (("path", E1), ("registered identifier", E2),
                  ("(array, meta) from load_lut", E3),
                  ("registered identifier, second call", E4)):
        r = same(E0, e)
        if r:
            return "(array, meta) vs %s: event %d: %r vs %r" % ((nm,) + r)
    if open(path, "rb").read() != raw:
        return "the registered LUT file was modified"
    return None


def chk_dataset(sc, rng, scratch):
    """ds["emodulus"] (ancillary feature, cases A/B/C) equals get_emodulus"""
    import dclab
    from dclab.features.emodulus import load
    if sc.L.feat != "area_um" or sc.x.size == 0 or not sc.px:
        return None
    if not np.isfinite(sc.x).all() or not np.isfinite(sc.d).all():
        return None
    ident = sc.L.name
    registered = None
    if not ident:
        _REG["n"] += 1
        ident = "verif-lut-%d-%d" % (os.getpid(), _REG["n"])
        path = os.path.join(scratch, ident + ".txt")
        sc.L.write(path, ident)
        load.register_lut(path)
        registered = ident
    try:
        data = {"area_um": sc.x.copy(), "deform": sc.d.copy()}
        med = sc.med
        if route_of(med) == "array":
            t = np.array(med["temp"], dtype=float)
            data["temp"] = np.broadcast_to(t, sc.x.shape).copy()
            med = dict(med, temp=[float(v) for v in data["temp"]])
        ds = dclab.new_dataset(data)
        ds.config["setup"]["flow rate"] = sc.fr
        ds.config["setup"]["channel width"] = sc.cw
        ds.config["imaging"]["pixel size"] = sc.px
        ds.config["calculation"]["emodulus lut"] = ident
        variant = rng.choice(["plain", "plain", "no-model-key",
                              "both-temperatures", "reservoir"])
        if med["kind"] == "num":
            ds.config["calculation"]["emodulus viscosity"] = med["v"]
            want = "B"
        else:
            ds.config["calculation"]["emodulus medium"] = med["name"]
            model = med["model"] if med["model"] != "herold-2017-fallback" \
                else "herold-2017"
            if variant == "no-model-key" and MEDIA[med["name"]] in (
                    "0.49% MC-PBS", "0.59% MC-PBS"):
                # documented fallback when the key is absent: herold-2017
                med = dict(med, model="herold-2017")
            else:
                ds.config["calculation"]["emodulus viscosity model"] = model
                med = dict(med, model=model)
            if route_of(med) == "scalar":
                ds.config["calculation"]["emodulus temperature"] = med["temp"]
                want = "C"
                if variant == "both-temperatures":
                    # the configured temperature takes precedence over a
                    # "temp" feature (case C before case A)
                    ds2 = dclab.new_dataset(dict(
                        data, temp=np.full(sc.x.size, med["temp"] + 3.0)))
                    ds2.config.update(ds.config)
                    ds = ds2
            else:
                want = "A"
        if variant == "reservoir":
            ds.config["setup"]["chip region"] = "reservoir"
            if "emodulus" in ds:
                return ("case %s: emodulus is available for a reservoir "
                        "measurement" % want)
            return None
        if "emodulus" not in ds:
            return "case %s: emodulus not available in the dataset" % want
        with np.errstate(all="ignore"):
            got = np.array(ds["emodulus"])
        if med["kind"] == "known" and med["model"] == "herold-2017-fallback":
            med = dict(med, model="herold-2017")
        exp = sc.f(med=med, arg=ident)
        r = same(exp, got)
        if r:
            return ("case %s: ds['emodulus'][%d]=%r, get_emodulus gives %r"
                    % (want, r[0], r[2], r[1]))
        if _h(data["area_um"]) != _h(sc.x) or _h(data["deform"]) != _h(sc.d):
            return "case %s: the dataset's input arrays were modified" % want
    finally:
        if registered:
            load.EXTERNAL_LUTS.pop(registered, None)
    return None


def chk_isoelastics(sc, rng):
    """isoelasticity lines converted to the set-up (Isoelastics.get with
    pixelation error added) and get_emodulus use the same scaling laws: the
    ratio emodulus(line point) / emodulus of the line does not depend on the
    set-up"""
    if not sc.L.name:
        return None
    from dclab import isoelastics as iso
    v = sc.med["v"] if sc.med["kind"] == "num" else 4.5
    med = dict(kind="num", v=v)
    inst = iso.get_default()
    L = sc.L

    def ratios(cw, fr, visc, px):
        lines = inst.get(col1=L.feat, col2="deform", lut_identifier=L.name,
                         channel_width=cw, flow_rate=fr, viscosity=visc,
                         add_px_err=bool(px), px_um=px)
        out = []
        for ln in lines[::3]:
            pts = ln[::7]
            e = sc.f(x=pts[:, 0].copy(), d=pts[:, 1].copy(), cw=cw, fr=fr,
                     px=px, med=dict(kind="num", v=visc))
            out.append(np.atleast_1d(e) / pts[:, 2])
        return np.concatenate(out)
    r0 = ratios(L.cw, L.fr, L.visc, 0)
    r1 = ratios(sc.cw, sc.fr, v, sc.px)
    both = ~np.isnan(r0) & ~np.isnan(r1)
    if both.sum() < 0.9 * r0.size:
        return "isoelastics: only %d of %d line points are inside the LUT " \
               "in both set-ups" % (both.sum(), r0.size)
    r = same(r0[both], r1[both], 1e-8)
    if r:
        return ("isoelastic point %d: emodulus/line value is %r in the "
                "LUT's own set-up but %r at channel width %r, flow rate %r, "
                "viscosity %r, pixel size %r" % (r[0], r[1], r[2], sc.cw,
                                                 sc.fr, v, sc.px))
    if abs(np.median(r0[both]) - 1) > 0.05:
        return "isoelastics: median emodulus/line value is %r" % float(
            np.median(r0[both]))
    return None


def chk_rewrite(sc, rng, scratch):
    """the table is read when get_emodulus is called: after the user rewrote
    the LUT file at the same path (same size and different size), or modified
    his (array, meta) table in place, the result is the interpolation of the
    CURRENT content -- by path, by registered identifier and by tuple"""
    from dclab.features.emodulus import load
    if sc.L.name or sc.x.size == 0:
        return None
    L1 = sc.L
    _REG["n"] += 1
    ident = "verif-rw-%d-%d" % (os.getpid(), _REG["n"])
    path = os.path.join(scratch, ident + ".txt")

    def variant(L, k):
        nodes = L.nodes.copy()
        nodes[:, 2] = nodes[:, 2] * k + 0.25
        if k > 2:                      # other support as well
            nodes[:, 1] = nodes[:, 1] * 0.75
        return Lut(L.feat, L.cw, L.fr, L.visc, nodes, grid=L.grid)

    def write_fixed(L, extra=False):
        m = L.meta(ident)
        del m["column features"], m["column units"]
        lines = ["# verification LUT", "# BEGIN METADATA"]
        lines += ["# " + ln for ln in json.dumps(m, indent=2,
                                                 sort_keys=True).split("\n")]
        lines += ["# END METADATA", "#"]
        unit = "[um^2]" if L.feat == "area_um" else "[um^3]"
        lines.append("# %s %s\tdeform\temodulus [kPa]" % (L.feat, unit))
        for r in L.nodes:
            lines.append("\t".join("%.17e" % float(v) for v in r))
        if extra:
            lines.append("# trailing comment changes the size")
        with open(path, "w") as fd:
            fd.write("\n".join(lines) + "\n")
        # what np.loadtxt will read
        return Lut(L.feat, L.cw, L.fr, L.visc,
                   [[float("%.17e" % float(v)) for v in r] for r in L.nodes],
                   grid=L.grid)

    def expect(Lc, how, arg):
        scc = Scn(dict(sc.case, lut=lut_to_case(Lc)))
        E = scc.f(arg=arg)
        bad, R, dist, cond = compare_with_reference(scc, E)
        if bad:
            i = bad[0]
            return ("%s: event %d (x=%r, deform=%r): get_emodulus=%r but the "
                    "interpolation of the CURRENT table gives %r" % (
                        how, i, float(sc.x[i]), float(sc.d[i]),
                        float(np.atleast_1d(E)[i]), float(R[i])))
        return None
    try:
        La = write_fixed(L1)
        size_a = os.path.getsize(path)
        why = expect(La, "LUT by path, first call", path)
        if why:
            return why
        Lb = write_fixed(variant(L1, 1.5))
        same_size = os.path.getsize(path) == size_a
        why = expect(Lb, "LUT by path after the file was rewritten in place "
                     "(%s size)" % ("same" if same_size else "different"),
                     path)
        if why:
            return why
        load.register_lut(path)
        why = expect(Lb, "registered identifier", ident)
        if why:
            return why
        Lc = write_fixed(variant(L1, 3.0), extra=True)
        why = expect(Lc, "registered identifier after its file was "
                     "rewritten (different size)", ident)
        if why:
            return why
        why = expect(Lc, "LUT by path after the second rewrite", path)
        if why:
            return why
        Ld = write_fixed(L1)
        why = expect(Ld, "registered identifier after the original content "
                     "was restored", ident)
        if why:
            return why
        # re-bind the identifier to ANOTHER file (remove + register again)
        path2 = os.path.join(scratch, ident + "-b.txt")
        Le = variant(L1, 2.0)
        Le.write(path2, ident)
        load.EXTERNAL_LUTS.pop(ident, None)
        load.register_lut(path2, ident)
        why = expect(Le, "identifier removed from EXTERNAL_LUTS and "
                     "registered again with another file", ident)
        if why:
            return why
        if sc.L.feat == "area_um" and sc.px and np.isfinite(sc.x).all() \
                and np.isfinite(sc.d).all() and sc.med["kind"] == "num":
            import dclab
            ds = dclab.new_dataset({"area_um": sc.x.copy(),
                                    "deform": sc.d.copy()})
            ds.config["setup"]["flow rate"] = sc.fr
            ds.config["setup"]["channel width"] = sc.cw
            ds.config["imaging"]["pixel size"] = sc.px
            ds.config["calculation"]["emodulus lut"] = ident
            ds.config["calculation"]["emodulus viscosity"] = sc.med["v"]
            with np.errstate(all="ignore"):
                got = np.array(ds["emodulus"])
            sce = Scn(dict(sc.case, lut=lut_to_case(Le)))
            bad, R, dist, cond = compare_with_reference(sce, got)
            if bad:
                i = bad[0]
                return ("ds['emodulus'] with the re-bound identifier: event "
                        "%d: %r, the interpolation of the table currently "
                        "registered gives %r" % (i, float(got[i]),
                                                 float(R[i])))
    finally:
        load.EXTERNAL_LUTS.pop(ident, None)
    # (array, meta) modified by the caller between calls
    arr, meta = lut_arg_tuple(L1)
    why = expect(L1, "(array, meta), first call", (arr, meta))
    if why:
        return why
    arr[:, 2] *= 2.0
    arr[:, 0] *= 1.25
    L2 = Lut(L1.feat, L1.cw, L1.fr, L1.visc, arr.copy(), grid=L1.grid)
    why = expect(L2, "(array, meta) after the caller modified the array in "
                 "place", (arr, meta))
    if why:
        return why
    meta["fluid_viscosity"] = L1.visc * 2
    L3 = Lut(L1.feat, L1.cw, L1.fr, L1.visc * 2, arr.copy(),
             grid=L1.grid)
    return expect(L3, "(array, meta) after the caller modified the meta "
                  "dict", (arr, meta))


def nd_plan(n, rng):
    """shape and temperature layout for n events"""
    opts = [([n, 1], "full"), ([1, n], "full")]
    for r in (2, 3, 4):
        if n >= 2 * r:
            opts += [([r, n // r], "rows"), ([r, n // r], "rows"),
                     ([r, n // r], "cols"), ([r, n // r], "full")]
    if n >= 8:
        opts.append(([2, 2, n // 4], "rows"))
        opts.append(([2, n // 4, 2], "full"))
    return rng.choice(opts)


def chk_ndbatch(sc, rng):
    """batches that are not 1-D (column vectors, grids as in dclab's own
    test_simple_emod, 3-D): the result has the shape of the batch and
    result[i, j] is what the call on element (i, j) alone returns, with the
    temperature of that element given as a scalar"""
    case = sc.case
    n = sc.x.size
    if n == 0:
        return None
    nd = case.get("nd")
    if not nd:
        shape, lay = nd_plan(n, rng)
        nd = dict(shape=shape, tlayout=lay)
    shape = tuple(nd["shape"])
    m = int(np.prod(shape))
    x, d = sc.x[:m], sc.d[:m]
    med = sc.med
    if med["kind"] == "known":
        t = med["temp"]
        t = list(t) if isinstance(t, list) else [t]
        if len(t) != m:
            t = [t[i % len(t)] for i in range(m)]
        T = np.array(t, dtype=float).reshape(shape)
        if not case.get("nd"):
            # give the temperatures the structure of the layout
            if nd["tlayout"] == "rows":
                T = np.broadcast_to(T[..., :1], shape).copy()
            elif nd["tlayout"] == "cols":
                T = np.broadcast_to(T.reshape(-1, shape[-1])[0], shape).copy()
        med = dict(med, temp=[float(v) for v in T.ravel()])
    c2 = dict(case, x=[float(v) for v in x], d=[float(v) for v in d],
              medium=med, nd=nd)
    full = nd_layout(med["temp"], shape, nd["tlayout"]).shape == shape \
        if med["kind"] == "known" else True
    try:
        with np.errstate(all="ignore"):
            E = np.asarray(nd_call(sc.L, sc.arg, c2))
    except Exception:
        if not full:
            # the statement has "scalar and per-event arrays": a temperature
            # array of another (broadcastable) shape need not be accepted
            return None
        raise
    if E.shape != shape:
        if not full:
            return None
        return "batch of shape %r gives a result of shape %r" % (shape,
                                                                 E.shape)
    E = E.ravel()
    sf = Scn(dict(c2, nd=None))
    _, dist, cond, _ = sf.ref()
    # elementwise: one call per distinct temperature with that temperature
    # as a scalar (batch independence of 1-D calls is checked elsewhere),
    # and a few truly single-element calls
    if med["kind"] == "known":
        temps = np.array(med["temp"])
        exp = np.full(m, np.nan)
        for tv in sorted(set(med["temp"])):
            ii = np.where(temps == tv)[0]
            exp[ii] = np.atleast_1d(sf.f(x=x[ii], d=d[ii],
                                         med=dict(med, temp=float(tv))))
        singles = [rng.randrange(m) for _ in range(min(m, 3))]
        for i in singles:
            exp[i] = np.atleast_1d(sf.f(x=x[[i]], d=d[[i]],
                                        med=dict(med, temp=temps[i])))[0]
    else:
        exp = np.atleast_1d(sf.f(x=x, d=d))
    r = close_outside_band(exp, E, dist, cond)
    if r:
        i = r[0]
        idx = tuple(int(v) for v in np.unravel_index(i, shape))
        tdesc = ""
        if med["kind"] == "known":
            tdesc = ", temperature=%r (temperature array of shape %r)" % (
                med["temp"][i], nd_layout(med["temp"], shape,
                                          nd["tlayout"]).shape)
        return ("element %r of the batch of shape %r (x=%r, deform=%r%s): "
                "get_emodulus=%r, the call on that element alone gives %r" % (
                    idx, shape, float(x[i]), float(d[i]), tdesc, r[2], r[1]))
    return None


def chk_nodes(sc, rng):
    """at a node of the table, in the table's own set-up and without
    pixelation correction, the event coordinates are bit-identical to the
    node: the value is determined (the node's modulus times the viscosity
    ratio), also for nodes on the hull and for the nodes with the largest
    abscissa / deformation -- no band applies"""
    L = sc.L
    n = len(L.nodes)
    idx = list(range(n)) if n <= 400 else sorted(set(
        [int(np.argmax(L.nodes[:, 0])), int(np.argmax(L.nodes[:, 1])),
         int(np.argmin(L.nodes[:, 0])), int(np.argmin(L.nodes[:, 1]))]
        + [rng.randrange(n) for _ in range(300)]))
    x = L.nodes[idx, 0].copy()
    d = L.nodes[idx, 1].copy()
    v = sc.med["v"] if sc.med["kind"] == "num" else 4.5
    E = np.atleast_1d(sc.f(x=x, d=d, cw=L.cw, fr=L.fr, px=0,
                           med=dict(kind="num", v=v)))
    exp = L.nodes[idx, 2] * (v / L.visc)
    # duplicate coordinates would make the value ambiguous
    for k, i in enumerate(idx):
        if np.isnan(E[k]) or abs(E[k] - exp[k]) > 1e-9 * abs(exp[k]):
            return ("event at node %d of the table (x=%r, deform=%r, table's "
                    "own set-up, px_um=0): emodulus=%r, the node's value "
                    "scaled by the viscosity ratio is %r" % (
                        i, float(x[k]), float(d[k]), float(E[k]),
                        float(exp[k])))
    return None


def chk_numtypes(sc, rng):
    """numeric viscosities, temperatures, widths and flow rates given as
    Python int, numpy.int64, numpy.float64, numpy.float32 are numbers like
    any other (np.float32 scalars: numpy computes the viscosity model and
    the scaling factors in single precision, observed up to 1e-3 and NaN
    flips near the hull -- only acceptance is demanded)"""
    med = sc.med
    if med["kind"] == "known" and isinstance(med["temp"], list):
        med = dict(med, temp=med["temp"][0] if med["temp"] else 23.0)
    # values that all types represent exactly
    if med["kind"] == "num":
        med = dict(med, v=float(rng.choice([3, 7, 15, 6])))
    else:
        med = dict(med, temp=float(rng.choice([22, 23, 24, 25])))
    cw = float(rng.choice([20, 30, 15]))
    fr = float(rng.choice([1, 2])) if rng.random() < 0.5 else sc.fr
    base = np.atleast_1d(sc.f(med=dict(med, numtype="float"), cw=cw, fr=fr))
    _, dist, cond, _ = sc.ref(med=med, cw=cw, fr=fr)
    for nt in ("int", "np.int64", "np.float64", "np.float32"):
        try:
            e = np.atleast_1d(sc.f(med=dict(med, numtype=nt), cw=cw, fr=fr))
        except Exception as exc:
            return ("viscosity/temperature/width/flow rate given as %s: %s: "
                    "%s" % (nt, type(exc).__name__, str(exc)[:120]))
        if nt == "np.float32":
            continue        # accepted; single-precision values not compared
        r = close_outside_band(base, e, dist, cond, rtol=1e-12)
        if r:
            return ("numbers given as %s: event %d: %r, as float %r" % (
                nt, r[0], r[2], r[1]))
    return None


CHECKS = {
    "reference": chk_reference, "batch": chk_batch,
    "scalar_vs_array": chk_scalar_vs_array,
    "proportional": chk_proportional, "rescale": chk_rescale,
    "px0": chk_px0, "nomutation": chk_nomutation, "lutvia": chk_lutvia,
    "dataset": chk_dataset, "isoelastics": chk_isoelastics,
    "rewrite": chk_rewrite, "ndbatch": chk_ndbatch,
    "numtypes": chk_numtypes, "nodes": chk_nodes,
}
NEED_SCRATCH = ("lutvia", "dataset", "rewrite")


def run_check(case, scratch, seed=0):
    """Run the named oracle check on a case; failure description or None."""
    import random
    name = case["check"]
    rng = random.Random(case.get("rseed", seed))
    sc = Scn(case)
    fn = CHECKS[name]
    try:
        if name in NEED_SCRATCH:
            return fn(sc, rng, scratch)
        return fn(sc, rng)
    except Exception as exc:      # the property promises values, not errors
        import traceback
        return "check %s raised %r (%s)" % (
            name, exc, traceback.format_exc().splitlines()[-3].strip())


def gen_scenario(rng, L, n, nice=False, special=False, force_med=None,
                 other_px=False):
    cw, fr, px = gen_setup(rng, L, nice=nice, other_px=other_px)
    med = gen_medium(rng, n, L, cw, fr, force=force_med)
    x, d, kinds = gen_events(rng, L, cw, px, n, special=special)
    return dict(lut=lut_to_case(L), cw=cw, fr=fr, px=px, medium=med,
                x=x, d=d), kinds


def oracle_cases(run):
    """yield (case, kinds)"""
    rng = run.rng
    th = run.thorough
    out = []
    names = list(CHECKS)
    # built-in tables: few calls (each triangulates >10^4 nodes), many events
    for name in BUILTIN:
        L = builtin_lut(name)
        for chk in names:
            if chk == "rewrite":
                continue
            reps = (3 if th else 1)
            if chk == "reference":
                reps = 8 if th else 3
            for _ in range(reps):
                n = {"reference": 4000 if th else 1500, "batch": 40,
                     "dataset": 30, "ndbatch": 24}.get(chk, 150)
                case, kinds = gen_scenario(
                    rng, L, n, nice=rng.random() < 0.5,
                    special=(chk in ("batch", "reference")
                             and rng.random() < 0.5),
                    force_med="per-event" if chk == "ndbatch" else None)
                case["check"] = chk
                case["rseed"] = rng.randrange(1 << 30)
                out.append((case, kinds))
    # size-dependent code paths: large batches on a cheap table
    for chk in ("reference", "batch", "scalar_vs_array"):
        L = gen_user_lut(rng, dyadic=False, nmax=60)
        case, kinds = gen_scenario(rng, L, 60000 if th else 22000,
                                   nice=False, special=(chk == "reference"),
                                   force_med="per-event" if chk == "batch"
                                   else None)
        case["check"] = chk
        case["rseed"] = rng.randrange(1 << 30)
        out.append((case, kinds))
    # generated tables: many calls, few events
    for k in range(1500 if th else 75):
        vol = k % 4 == 0
        if k % 4 == 2:
            L = gen_grid_lut(rng)
        else:
            L = gen_user_lut(rng, dyadic=rng.random() < 0.3, nmax=60,
                             feat="volume" if vol else None)
        for chk in names:
            if chk == "isoelastics" or (
                    rng.random() < 0.5 and chk not in ("reference", "batch",
                                                       "rewrite", "ndbatch")):
                continue
            n = rng.choice([1, 2, 3, 7, 20, 60])
            if chk == "ndbatch":
                n = rng.choice([2, 3, 6, 8, 12, 24])
            case, kinds = gen_scenario(
                rng, L, n, nice=rng.random() < 0.5,
                special=(chk in ("batch", "reference")
                         and rng.random() < 0.3),
                other_px=vol,
                force_med="per-event" if (
                    rng.random() < (0.8 if chk == "ndbatch" else 0.25))
                else None)
            case["lut"]["via"] = "tuple"
            case["check"] = chk
            case["rseed"] = rng.randrange(1 << 30)
            out.append((case, kinds))
    return out


def _work(args):
    case, scratch = args
    import warnings
    warnings.simplefilter("ignore")
    return run_check(case, scratch)


def oracle(run):
    import multiprocessing as mp
    cases = [(c, ["corpus"]) for c in load_corpus() if "check" in c]
    cases += oracle_cases(run)
    jobs = [(c, run.scratch) for c, _ in cases]
    ctx = mp.get_context("fork")
    with ctx.Pool(min(common.NCPU, 12)) as pool:
        results = pool.map(_work, jobs, chunksize=4)
    run.extra.setdefault("_case_luts", [])
    for (case, kinds), fail in zip(cases, results):
        n = len(case["x"])
        if case["lut"]["kind"] == "user":
            run.extra["_case_luts"].append(case["lut"])
        run.record_case(case, n > 0, sample=n <= 8)
        run.count("oracle:%s" % case["check"])
        run.count("oracle:lut=%s" % (case["lut"].get("name")
                                     or ("grid-" if case["lut"].get("grid")
                                         else "user-")
                                     + case["lut"]["feat"]))
        run.count("oracle:events", n)
        run.count("oracle:route=%s" % route_of(case["medium"]))
        count_quota(run, case, "oracle")
        med = case["medium"]
        if med["kind"] == "known":
            run.count("oracle:alias=%s" % med["name"])
            run.count("oracle:visc-model=%s" % med["model"])
            ts = med["temp"] if isinstance(med["temp"], list) \
                else [med["temp"]]
            lo, hi = {"water": (0, 40)}.get(
                MEDIA[med["name"]],
                (18, 26) if med["model"].startswith("herold") else (22, 37))
            if any(t < lo or t > hi for t in ts):
                run.count("oracle:temp-out-of-range")
        run.count("oracle:numtype=%s" % med.get("numtype", "float"))
        if n >= 20000:
            run.count("oracle:large-batch")
        if case["check"] == "lutvia" and case["lut"]["kind"] == "user":
            for dt in ("list", "fortran", "readonly", "float32", "int"):
                run.count("oracle:tuple-dtype=%s" % dt)
        if case["check"] == "numtypes":
            for dt in ("int", "np.int64", "np.float64", "np.float32"):
                run.count("oracle:numtypes-check=%s" % dt)
        for k in set(kinds):
            run.count("oracle:event=%s" % k, kinds.count(k))
        if fail is not None:
            run.oracle_failure(case, "[%s] %s" % (case["check"], fail),
                               classify(case, fail))
    oracle_hypotheses(run)


def classify(case, fail):
    """no known finding for C05"""
    return None


def check_triangulation(L, cw, route):
    """oracle hypothesis on [tri]: the simplices qhull returns are
    non-degenerate, cover the convex hull of the nodes without overlap (areas
    add up to the hull area) and no node lies inside a triangle's
    circumcircle (Delaunay; implies the vertex property). Returns a
    description of the first violation or None."""
    P, T, xm, dm, H = L.normalised(cw, route)
    tri = T.simplices
    a, b, c = P[tri[:, 0]], P[tri[:, 1]], P[tri[:, 2]]
    ar = np.abs(cross2(a, b, c)) / 2
    if not (ar > 0).all():
        return "degenerate simplex"
    hx, hy = H[:, 0], H[:, 1]
    hull_area = 0.5 * abs(np.dot(hx, np.roll(hy, -1))
                          - np.dot(hy, np.roll(hx, -1)))
    if abs(ar.sum() - hull_area) > 1e-9 * hull_area:
        return "simplices do not tile the hull: %r vs %r" % (ar.sum(),
                                                            hull_area)
    used = np.unique(tri)
    if len(P) <= 80:
        # empty circumcircle, all nodes against all simplices
        for k in range(len(tri)):
            A, B, C = a[k], b[k], c[k]
            d = 2 * cross2(A, B, C)
            ux = ((A @ A) * (B[1] - C[1]) + (B @ B) * (C[1] - A[1])
                  + (C @ C) * (A[1] - B[1])) / d
            uy = ((A @ A) * (C[0] - B[0]) + (B @ B) * (A[0] - C[0])
                  + (C @ C) * (B[0] - A[0])) / d
            r2 = (A[0] - ux) ** 2 + (A[1] - uy) ** 2
            d2 = (P[:, 0] - ux) ** 2 + (P[:, 1] - uy) ** 2
            if (d2 < r2 * (1 - 1e-9)).any():
                return "a node lies inside the circumcircle of simplex %d" % k
    return None


def oracle_hypotheses(run):
    """the transcribed formulas used as oracle values, and the hypothesis
    delta_rescale of the rescaling theorem, against the real functions"""
    from dclab.features.emodulus import pxcorr, viscosity
    rng = run.rng
    luts = [builtin_lut(n) for n in BUILTIN]
    luts += [gen_user_lut(rng, dyadic=rng.random() < 0.5, nmax=60)
             for _ in range(100 if run.thorough else 25)]
    # ... and on the tables of the generated oracle and correspondence cases
    seen_ = set()
    for c in run.extra.get("_case_luts", []):
        key = json.dumps(c, sort_keys=True)
        if key in seen_ or c.get("grid"):
            continue        # cocircular tables: Delaunay is not strict
        seen_.add(key)
        Lc = lut_from_case(c)
        why = check_triangulation(Lc, Lc.cw, "array")
        run.count("oracle:hyp-tri-case-table")
        if why:
            run.broken.append(("oracle-hypothesis(tri)",
                               "case table: %s" % why))
    run.extra.pop("_case_luts", None)
    for L in luts:
        for cw, route in ((L.cw, "array"), (rng.choice([15.0, 30.0, 17.5]),
                                            "scalar")):
            why = check_triangulation(L, cw, route)
            run.count("oracle:hyp-tri")
            if why:
                run.broken.append(("oracle-hypothesis(tri)",
                                   "%s: %s" % (L.name or "user LUT", why)))
    for _ in range(300 if run.thorough else 60):
        feat = rng.choice(["area_um", "volume"])
        px = rng.uniform(0.1, 0.8)
        x = np.array([rng.uniform(0, 2000) for _ in range(20)])
        lam = rng.uniform(0.3, 3)
        p = 2 if feat == "area_um" else 3
        a = pxcorr.get_pixelation_delta("deform", feat, x, px)
        b = pxcorr.get_pixelation_delta("deform", feat, x * lam ** p, px * lam)
        c = ref_delta(feat, x, px)
        case = dict(check="hyp-delta", feat=feat, px=px, lam=lam,
                    x=[float(v) for v in x])
        run.record_case(case, True, sample=False)
        run.count("oracle:hyp-delta")
        if not np.allclose(a, b, rtol=1e-11, atol=0):
            run.oracle_failure(case, "pixelation offset is not invariant "
                               "under joint rescaling of pixel size and %s: "
                               "%r vs %r" % (feat, a[:3], b[:3]))
        if not np.allclose(a, c, rtol=1e-12, atol=0):
            run.oracle_failure(case, "pixelation offset differs from the "
                               "documented formula: %r vs %r" % (a[:3], c[:3]))
        name, model = rng.choice(KNOWN)
        cw, fr = rng.uniform(10, 50), rng.uniform(0.01, 1.2)
        lo, hi = (22.0, 26.0) if name != "water" else (5.0, 38.0)
        t = np.array([rng.uniform(lo, hi) for _ in range(5)])
        v = viscosity.get_viscosity(name, cw, fr, t, model)
        w = ref_viscosity(name, model, cw, fr, t)
        v2 = viscosity.get_viscosity(name, cw * lam, fr * lam ** 3, t, model)
        case = dict(check="hyp-eta", medium=name, model=model, cw=cw, fr=fr,
                    t=[float(q) for q in t])
        run.record_case(case, True, sample=False)
        run.count("oracle:hyp-eta")
        if not np.allclose(v, w, rtol=1e-12, atol=0):
            run.oracle_failure(case, "viscosity differs from the documented "
                               "formula: %r vs %r" % (v, w))
        if not np.allclose(v, v2, rtol=1e-11, atol=0):
            run.oracle_failure(case, "viscosity changes under joint "
                               "rescaling (shear rate is invariant): %r vs "
                               "%r" % (v, v2))


def run(run):
    correspondence(run)
    registry_correspondence(run)
    history_correspondence(run)
    oracle(run)


def shrink_nd(run, failure):
    """an N-D batch failure: make the layout explicit, then look for a
    failing column vector of two events"""
    import random
    case = failure["case"]
    n = len(case["x"])
    med = case["medium"]
    best, desc = case, failure["desc"]
    if not case.get("nd"):
        shape, lay = nd_plan(n, random.Random(case.get("rseed", 0)))
        # re-run with the plan written into the case (same behaviour)
        explicit = dict(case, nd=dict(shape=shape, tlayout=lay))
    else:
        explicit = case
    if med["kind"] == "known" and isinstance(med["temp"], list) and \
            len(med["temp"]) >= 2 and n >= 2:
        t = med["temp"]
        for i in range(min(n, 12)):
            for j in range(i + 1, min(n, 12)):
                ti, tj = t[i % len(t)], t[j % len(t)]
                if ti == tj:
                    continue
                c = dict(case, x=[case["x"][i], case["x"][j]],
                         d=[case["d"][i], case["d"][j]],
                         medium=dict(med, temp=[ti, tj]),
                         nd=dict(shape=[2, 1], tlayout="full"))
                f = run_check(c, run.scratch)
                if f is not None:
                    return dict(case=c, desc="[%s] %s" % (c["check"], f),
                                finding=failure.get("finding"))
    f = run_check(explicit, run.scratch)
    if f is not None:
        best, desc = explicit, "[%s] %s" % (explicit["check"], f)
    return dict(case=best, desc=desc, finding=failure.get("finding"))


def shrink(run, failure):
    case = failure["case"]
    if case.get("check") == "ndbatch" or case.get("nd"):
        if "check" not in case:
            return failure
        return shrink_nd(run, failure)
    if "x" not in case or "check" not in case or len(case["x"]) <= 1:
        return failure
    best = case
    desc = failure["desc"]
    # try single events, then halves
    n = len(case["x"])

    def sub(idx):
        c = dict(best, x=[best["x"][i] for i in idx],
                 d=[best["d"][i] for i in idx])
        m = c["medium"]
        if m["kind"] == "known" and isinstance(m["temp"], list) and \
                len(m["temp"]) == len(best["x"]):
            c["medium"] = dict(m, temp=[m["temp"][i] for i in idx])
        return c
    changed = True
    while changed and len(best["x"]) > 1:
        changed = False
        n = len(best["x"])
        cands = [list(range(n // 2)), list(range(n // 2, n))]
        if n <= 12:
            cands += [[j for j in range(n) if j != i] for i in range(n)]
        for idx in cands:
            if not idx:
                continue
            c = sub(idx)
            f = run_check(c, run.scratch)
            if f is not None:
                best, desc, changed = c, "[%s] %s" % (c["check"], f), True
                break
    return dict(case=best, desc=desc, finding=failure.get("finding"))


def search(run, broken):
    """Proof or correspondence broken and the oracle was quiet: a larger
    oracle-only sweep on the real code."""
    import random
    rng = run.rng
    for k in range(600 if run.thorough else 100):
        L = (gen_grid_lut(rng) if k % 3 == 1 else
             gen_user_lut(rng, dyadic=rng.random() < 0.3, nmax=60)) \
            if k % 10 else builtin_lut(rng.choice(BUILTIN))
        for chk in CHECKS:
            n = rng.choice([1, 3, 20, 100])
            case, _ = gen_scenario(rng, L, n, nice=rng.random() < 0.5,
                                   special=False)
            case["check"] = chk
            case["rseed"] = rng.randrange(1 << 30)
            f = run_check(case, run.scratch)
            if f is not None and classify(case, f) is None:
                return shrink(run, dict(case=case, desc="[%s] %s" % (chk, f)))
    return None


def replay(payload):
    import tempfile
    import shutil
    case = payload.get("case")
    if not case or ("check" not in case and "x" not in case):
        print("replay: nothing executable in this file (kind=%s): %s" % (
            payload.get("kind"), json.dumps(payload.get("broken"))[:2000]))
        return 1
    print("case:", json.dumps(case)[:3000])
    if "check" not in case:
        # a correspondence case: run the independent reference on it
        case = dict(case, check="reference")
    if case["check"].startswith("hyp-"):
        print("hypothesis check; re-run ./check C05")
        return 1
    scratch = tempfile.mkdtemp(prefix="verif-C05-replay-",
                               dir=os.environ.get("VERIF_SCRATCH", "/var/tmp"))
    try:
        fail = run_check(case, scratch)
    finally:
        shutil.rmtree(scratch, ignore_errors=True)
    if fail:
        print("FAILS: [%s] %s" % (case["check"], fail))
        return 1
    print("passes on the current tree")
    return 0
