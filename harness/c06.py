"""C06 -- computed (ancillary) features reflect the current data and settings.

pre_build: harness/translators/anc_trace.py regenerates coq/Gen/AncRegistry.v
from the tree under test (declared vs. actually read ingredients of every
recipe).

Correspondence: a long-lived dataset (RTDC_Dict, RTDC_HDF5 written by
harness/gen.py, or a hierarchy child of a dict dataset) is driven by a random
history of {set/delete a configuration key, set/replace a temporary feature,
read, `in`, `.features`}; at every read a fresh dataset is built from the
current state. The per-operation result codes are compared with Model/C06.v
(run over the generated registry by vm_compute). Second tie: the emodulus
scenario table (all present/absent combinations).

Property oracle (model independent): value of the long-lived dataset ==
value of the fresh dataset; `feat in ds` == `feat in fresh`; `feat in fresh`
== reading from fresh succeeds; emodulus value == direct get_emodulus call
with the inputs of the scenario the documentation gives precedence to.
"""
import json
import os
import warnings

from . import common

PROP = "C06"
RULE = ("configuration values include the falsy-but-legal ones (emodulus "
        "temperature 0.0 with water, viscosity 0.0 and 2**-10, crosstalk "
        "0.0, alias spellings of media, all three LUTs); histories of 4..28 operations {SetCfg, DelCfg, SetTemp, Read, "
        "Contains, Features} over six dataset families (emodulus keys x temp "
        "feature; fluorescence channels x crosstalk keys; image/mask/bg_off; "
        "ml_score temporary features; basic/plugin features; mixed) in three "
        "formats (dict, hdf5 file, hierarchy child); every set uses a value "
        "never used before for that key; a case is non-trivial when at least "
        "one ancillary feature was computed and at least one setting or "
        "temporary feature changed between two reads; distinct = different "
        "(format, features, initial state, history). Plus the 128-row "
        "emodulus table.")
TRUSTED_BASE = [
    "md5 over the hashed items is injective (model: identity on the item "
    "list); obj2bytes concatenation ambiguities are not modelled",
    "anc_trace.py: the ingredients a method reads are those observed in the "
    "traced environments (declared-only, everything present, medium 'other', "
    "reservoir, ml scores present); accesses other than ds[f], f in ds, "
    "len(ds), ds.config[sec][key]/.get/in make the translator fail closed",
    "a method is a function of the values it reads (symbolic Comp term); "
    "numerics of the feature computations are not modelled",
    "modelling assumption: inside a method a declared feature has the value "
    "that was hashed just before (second ds[col] hits the cache)",
    "undeclared feature reads (bg_off, ml_score_*, fl*_max, temp) refer to "
    "innate or temporary features in the generated datasets",
]
ASSUMPTIONS = [
    "no basins; configuration values are valid for their key (known LUT, "
    "temperature inside the model range); innate data never change",
    "theorem scope (C06_read_coherent_*): reads for which the cache did not "
    "change the selected recipe, whose selected recipe has only innate/"
    "temporary required features (flat), reads only hashed ingredients, is a "
    "generic method or the 3-channel crosstalk correction and has no hashed "
    "req_func result; chains of computed features, hashed req_func results "
    "and the emodulus recipes are covered by the correspondence only",
]

F_ID = {}      # feature name -> id
K_ID = {}      # (sec, key) -> id
ID_F = {}
ID_K = {}
SIDE = {}
NEV = 5

FINDINGS = {
    "C06-ctc-undeclared-crosstalk":
        "fl*_max_ctc with fewer than three channels/six elements",
    "C06-emodulus-available-unreadable":
        "emodulus listed as available but reading raises ValueError",
    "C06-emodulus-stale-viscosity":
        "emodulus with 'emodulus viscosity' set next to other scenarios",
    "C06-cached-stays-listed":
        "a computed feature stays listed after its inputs were removed",
}


# --------------------------------------------------------------------------
# translator
# --------------------------------------------------------------------------
def load_side(side=None):
    global SIDE
    if side is None:
        from .translators import anc_trace
        side = json.load(open(anc_trace.GEN_JSON))
    SIDE = side
    F_ID.clear(), K_ID.clear(), ID_F.clear(), ID_K.clear()
    for k, v in side["feat_ids"].items():
        F_ID[k] = v
        ID_F[v] = k
    for sec, key, v in side["key_ids"]:
        K_ID[(sec, key)] = v
        ID_K[v] = (sec, key)


_REGISTRY_LOCK = None


def hold_registry_lock():
    """coq/Gen/AncRegistry.v is regenerated from the tree under test, and
    C06 checks of different trees (VERIF_REPO) may run at the same time:
    one check owns the generated file from translation to exit."""
    global _REGISTRY_LOCK
    if _REGISTRY_LOCK is None:
        import fcntl
        os.makedirs(os.path.join(common.COQ, "Gen"), exist_ok=True)
        fd = open(os.path.join(common.COQ, "Gen", ".c06-registry.lock"), "w")
        fcntl.flock(fd, fcntl.LOCK_EX)
        _REGISTRY_LOCK = fd


def pre_build(run):
    from .translators import anc_trace
    hold_registry_lock()
    side = anc_trace.generate(common.REPO)
    load_side(side)
    run.notes.append("anc_trace: %d recipes, %s" % (len(side["rows"]),
                                                    side["note"]))


# --------------------------------------------------------------------------
# value tables: ids <-> python values
# --------------------------------------------------------------------------
LUTS = {1: "LE-2D-FEM-19", 2: "HE-2D-FEM-22", 3: "HE-3D-FEM-22"}
# ids 1-3 and 10-19: spellings dclab documents as known media (lower-case
# and alias forms included); 4 and 20: "other"; 5: not a medium
MEDIA = {1: "CellCarrier", 2: "CellCarrierB", 3: "water", 4: "other",
         5: "verifbogus", 10: "cellcarrier", 11: "CellCarrier B",
         12: "0.49% MC-PBS", 13: "0.5% mc-pbs", 14: "cellcarrierb",
         15: "0.83% MC-PBS", 20: "Other"}
KNOWN_MEDIUM_IDS = [1, 2, 3, 10, 11, 12, 13, 14, 15]
OTHER_MEDIUM_IDS = [4, 20]
VMODELS = {1: "buyukurganci-2022", 2: "herold-2017"}
REGIONS = {1: "channel", 2: "reservoir"}


NEAR = 1000     # value id v + NEAR: the value of id v, 2**-30 relative away
FLOAT_KEYS = ("emodulus temperature", "emodulus viscosity", "frame rate",
              "pixel size", "flow rate", "channel width")


def is_float_key(key):
    return key in FLOAT_KEYS or key.startswith("crosstalk")


def cfg_value(kid, v):
    sec, key = ID_K[kid]
    if v >= NEAR and is_float_key(key):
        # differs from the value of id v - NEAR in the 10th significant
        # digit: a cache key that formats or rounds the value loses it
        base = cfg_value(kid, v - NEAR)
        return base * (1 + 2.0 ** -30) if base != 0 else 2.0 ** -40
    if key == "emodulus lut":
        return LUTS[v]
    if key == "emodulus medium":
        return MEDIA[v]
    if key == "emodulus temperature":
        # id 0: 0.0 degC -- legal (e.g. water) and falsy
        return 0.0 if v == 0 else 22.0 + v / 8.0
    if key == "emodulus viscosity":
        # ids 0, 1: falsy / tiny values
        return 0.0 if v == 0 else 2.0 ** -10 if v == 1 else 2.0 + v / 4.0
    if key == "emodulus viscosity model":
        return VMODELS[v]
    if key == "chip region":
        return REGIONS[v]
    if key == "frame rate":
        return 1000.0 + 125.0 * v
    if key == "pixel size":
        return 0.25 + v / 64.0
    if key == "flow rate":
        return 0.04 * (1 + v % 4)
    if key == "channel width":
        return 20.0 if v % 2 else 30.0
    if key.startswith("crosstalk"):
        return (v % 12) / 16.0
    raise ValueError("no value table for %s:%s" % (sec, key))


def cfg_value_choices(kid, rng, counter):
    """a value id for this key that was not used before in this case"""
    key = ID_K[kid][1]
    v = _cfg_value_choice(kid, key, rng, counter)
    last = counter.get(("last", kid))
    if is_float_key(key) and last is not None and last < NEAR \
            and rng.random() < 0.18:
        v = last + NEAR
    counter[("last", kid)] = v
    return v


def _cfg_value_choice(kid, key, rng, counter):
    counter[kid] = counter.get(kid, 0) + 1
    c = counter[kid]
    if key == "emodulus lut":
        # the 2D LUTs cost ~0.25 s per evaluation, the 3D one 0.03 s
        return 3 if rng.random() < 0.85 else 1 + c % 2
    zero = counter.get("zero", False)
    if key == "emodulus medium":
        r = rng.random()
        if r < 0.12:
            return rng.choice(OTHER_MEDIUM_IDS)
        if zero:
            # 0.0 degC is outside the domain of the herold-2017 MC-PBS
            # model (ZeroDivisionError): cases that use it stay with water
            return 3
        return KNOWN_MEDIUM_IDS[c % len(KNOWN_MEDIUM_IDS)]
    if key == "emodulus viscosity model":
        return 1 + c % 2
    if key == "chip region":
        return 1 if rng.random() < 0.7 else 2
    if key == "emodulus temperature":
        if zero and (rng.random() < 0.45 or c == 2):
            return 0
        return 1 + c % 23
    if key == "emodulus viscosity":
        r = rng.random()
        return 0 if r < 0.2 else 1 if r < 0.35 else 1 + c
    if key == "channel width":
        return c
    if key == "flow rate":
        return c
    if key.startswith("crosstalk"):
        return c % 12          # includes 0.0: no crosstalk, legal and falsy
    return c


def innate_data(name, n=NEV):
    """deterministic innate data for a feature"""
    import numpy as np
    rs = np.random.RandomState(sum(name.encode()) % 9973 + 17)
    if name in ("image", "image_bg"):
        return rs.randint(0, 255, (n, 6, 9)).astype(np.uint8)
    if name == "mask":
        m = np.zeros((n, 6, 9), dtype=bool)
        for i in range(n):
            m[i, 1:4 + i % 2, 2:6 + i % 3] = True
        return m
    if name == "frame":
        return np.cumsum(rs.randint(1, 5, n)).astype(np.float64)
    if name == "deform":
        return rs.randint(10, 50, n) / 1024.0
    if name == "circ":
        return 1 - rs.randint(10, 50, n) / 1024.0
    if name == "area_um":
        return rs.randint(400, 900, n) / 8.0
    if name in ("area_cvx", "area_msd"):
        return rs.randint(3200, 7200, n) / 8.0
    if name == "temp":
        return rs.randint(180, 196, n) / 8.0
    if name in ("pos_x", "pos_y"):
        return rs.randint(16, 40, n) / 8.0
    if name in ("fl1_max", "fl2_max", "fl3_max"):
        return rs.randint(80, 8000, n) / 8.0
    return rs.randint(8, 800, n) / 8.0


def temp_data(name, v, n=NEV):
    """version v of a temporary feature. Versions 3k+1, 3k+2, 3k+3 agree
    in every element but the last (3k+3 additionally has NaN in the last but
    one), so consecutive replacements usually differ in one trailing
    element only -- a cache key built from a prefix or a summary of the data
    would not see them."""
    import numpy as np
    blk, kind = ((v - 1) // 3) * 3 if v >= 1 else -3, (v - 1) % 3
    if name == "image_bg":
        arr = (innate_data("image_bg", n).astype(int) + blk) % 256
        arr[-1, -1, -1] = (arr[-1, -1, -1] + kind) % 256
        return arr.astype(np.uint8)
    if name.startswith("ml_score_"):
        # rotating pattern so that the arg-max class changes with the block
        s = sum(name.encode()) % 5
        arr = np.array([((i * 3 + blk * 2 + s) % 8) / 8.0 for i in range(n)])
        arr[-1] = (arr[-1] + kind * 3 / 8.0) % 1.0
        step = 0.0
    elif name == "bg_off":
        arr = np.arange(n) * 0.5 + blk
        step = 0.25
    elif name == "temp":
        arr = 22.5 + np.arange(n) / 16.0 + (blk % 16) / 8.0
        step = 1 / 64.0
    elif name in ("fl1_max", "fl2_max", "fl3_max"):
        arr = 100.0 + 37.0 * blk + np.arange(n) * (11.0 + blk)
        step = 3.0
    else:
        arr = innate_data(name, n) + blk
        step = 1 / 16.0
    arr = np.array(arr, dtype=np.float64)
    if kind == 1 and step:
        # one trailing element, 2**-30 relative: invisible to a key made of
        # a prefix, a rounded or a float32 copy of the data
        arr[-1] = arr[-1] * (1 + 2.0 ** -30) if arr[-1] != 0 else 2.0 ** -30
    else:
        arr[-1] += kind * step
    if kind == 2:
        arr[-2] = np.nan
    return arr


# --------------------------------------------------------------------------
# case generation
# --------------------------------------------------------------------------
def kid(sec, key):
    return K_ID[(sec, key)]


FAMILIES = ["emod", "fl", "img", "ml", "basic", "mixed"]


def family_setup(rng, fam):
    """(innate features, settable temps, relevant keys, features to read)"""
    emod_keys = [kid("calculation", k) for k in (
        "emodulus lut", "emodulus medium", "emodulus temperature",
        "emodulus viscosity", "emodulus viscosity model")] + [
        kid("setup", "chip region"), kid("imaging", "pixel size"),
        kid("setup", "flow rate"), kid("setup", "channel width")]
    ct_keys = [kid("calculation", "crosstalk fl%d%d" % (i, j))
               for i in (1, 2, 3) for j in (1, 2, 3) if i != j]
    if fam == "emod":
        ev = ["area_um", "deform", "frame"]
        if rng.random() < 0.35:
            ev.append("temp")
        temps = ["temp"]
        keys = emod_keys + [kid("imaging", "frame rate")]
        reads = ["emodulus"] * 5 + ["time", "index", "area_um"]
    elif fam == "fl":
        ev = ["fl1_max", "fl2_max", "fl3_max", "deform"]
        for f in ("fl1_max", "fl2_max", "fl3_max"):
            if rng.random() < 0.35:
                ev.remove(f)
        temps = ["fl1_max", "fl2_max", "fl3_max"]
        keys = ct_keys
        reads = ["fl1_max_ctc", "fl2_max_ctc", "fl3_max_ctc"]
    elif fam == "img":
        ev = ["image", "image_bg", "mask", "pos_x", "pos_y"]
        temps = ["bg_off"]
        if rng.random() < 0.3:
            # the background image as a (non-scalar) temporary feature
            ev.remove("image_bg")
            temps = ["bg_off", "image_bg"]
        keys = [kid("imaging", "pixel size")]
        reads = ["bright_bc_avg", "bright_bc_sd", "bright_perc_10",
                 "bright_perc_90", "bright_avg", "bright_sd", "volume",
                 "contour", "inert_ratio_cvx", "inert_ratio_raw",
                 "inert_ratio_prnc", "tilt"]
        # get_bright_perc(bg_off=<array>) raises (truth value of an array;
        # a C18 defect): bright_perc_* is only read while bg_off is unset
        if rng.random() < 0.7:
            reads = [r for r in reads if not r.startswith("bright_perc")]
        else:
            temps = [t for t in temps if t != "bg_off"]
    elif fam == "ml":
        ev = ["deform", "area_um"]
        temps = ["ml_score_abc", "ml_score_xyz"]
        keys = [kid("imaging", "pixel size")]
        reads = ["ml_class"] * 3 + ["index"]
    elif fam == "basic":
        ev = ["area_cvx", "area_msd", "size_x", "size_y", "circ", "frame"]
        for f in list(ev):
            if rng.random() < 0.15:
                ev.remove(f)
        if rng.random() < 0.3:
            ev.append("area_um")
        temps = ["circ", "area_um"]
        keys = [kid("imaging", "pixel size"), kid("imaging", "frame rate")]
        reads = ["area_um", "area_ratio", "aspect", "deform", "time", "index",
                 "circ_per_area", "circ_times_area"]
    else:
        ev = ["area_cvx", "deform", "frame", "fl1_max", "fl2_max", "circ",
              "image", "mask", "image_bg"]
        temps = ["temp", "bg_off", "ml_score_abc", "fl3_max"]
        keys = emod_keys + ct_keys[:3] + [kid("imaging", "frame rate")]
        reads = ["emodulus", "area_um", "time", "fl1_max_ctc", "ml_class",
                 "bright_bc_avg", "circ_per_area", "fl2_max_ctc", "volume"]
    reads = [r for r in reads if r in F_ID]
    temps = [t for t in temps if t in F_ID]
    return ev, temps, keys, reads


def emod_sweep_cases():
    """Exhaustive small scope for the emodulus recipes: every combination of
    {medium absent/known/"other", temperature, viscosity, viscosity model,
    temp feature} (lut set) x every single change of one ingredient (set to a
    new value, set when absent, delete when present), as the history
    [read; change; read]."""
    ek = {n: kid("calculation", "emodulus " + n) for n in (
        "lut", "medium", "temperature", "viscosity", "viscosity model")}
    base = [[kid("imaging", "pixel size"), 1], [kid("setup", "flow rate"), 1],
            [kid("setup", "channel width"), 1], [ek["lut"], 3]]
    fe = F_ID["emodulus"]
    cases = []
    for med in (None, 1, 3, 4):
        for tmp in (None, 2):
            for visc in (None, 3):
                for vm in (None, 1):
                    for has_temp in (False, True):
                        cfg0 = list(base)
                        for k, v in ((ek["medium"], med),
                                     (ek["temperature"], tmp),
                                     (ek["viscosity"], visc),
                                     (ek["viscosity model"], vm)):
                            if v is not None:
                                cfg0.append([k, v])
                        # medium 1 (CellCarrier): its viscosity depends on
                        # the viscosity model (water's does not); 0.0 degC
                        # only with water (herold-2017 MC-PBS domain)
                        muts = [[0, ek["medium"], 10 if med in (1, 3) else 3],
                                [0, ek["medium"], 20 if med == 4 else 4],
                                [0, ek["temperature"], 0 if med == 3 else 5],
                                [0, ek["temperature"], 7],
                                [0, ek["viscosity"], 0],
                                [0, ek["viscosity"], 5],
                                [0, ek["viscosity model"],
                                 2 if vm == 1 else 1],
                                [0, ek["lut"], 1],
                                [0, kid("imaging", "pixel size"), 2],
                                [0, kid("setup", "flow rate"), 2],
                                [0, kid("setup", "channel width"), 2],
                                [0, kid("setup", "chip region"), 1],
                                [0, kid("imaging", "pixel size"), 1 + NEAR]]
                        if tmp is not None:
                            muts.append([0, ek["temperature"], tmp + NEAR])
                        if visc is not None:
                            muts.append([0, ek["viscosity"], visc + NEAR])
                        for k, v in ((ek["medium"], med),
                                     (ek["temperature"], tmp),
                                     (ek["viscosity"], visc),
                                     (ek["viscosity model"], vm)):
                            if v is not None:
                                muts.append([1, k, 0])
                        ev = ["area_um", "deform"] + (
                            ["temp"] if has_temp else [])
                        for m in muts:
                            cases.append(dict(
                                family="emod-sweep", fmt="dict", events=ev,
                                temps0=[], cfg0=sorted(cfg0),
                                ops=[[3, fe, 0], m, [3, fe, 0]]))
    return cases


def ctc_sweep_cases():
    """Exhaustive small scope for the crosstalk recipes: every channel
    subset of size >= 2 x {only the pair's two elements, all six} x every
    single change (an element set to a new value or deleted, a channel
    replaced, the missing channel appearing), as [read; change; read] for
    every corrected feature of the subset."""
    ck = {(i, j): kid("calculation", "crosstalk fl%d%d" % (i, j))
          for i in (1, 2, 3) for j in (1, 2, 3) if i != j}
    cases = []
    for chans in ((1, 2), (1, 3), (2, 3), (1, 2, 3)):
        pairkeys = [ck[(i, j)] for i in chans for j in chans if i != j]
        for keys in (pairkeys, sorted(ck.values())):
            cfg0 = sorted([k, 1 + n] for n, k in enumerate(keys))
            muts = [[0, k, 9] for k in sorted(ck.values())]
            muts += [[0, k, 1 + n + NEAR] for n, k in enumerate(keys)]
            muts += [[1, k, 0] for k in keys]
            muts += [[2, F_ID["fl%d_max" % c], 1] for c in (1, 2, 3)]
            for c in chans:
                fe = F_ID["fl%d_max_ctc" % c]
                for m in muts:
                    cases.append(dict(
                        family="ctc-sweep", fmt="dict",
                        events=["fl%d_max" % c for c in chans] + ["deform"],
                        temps0=[], cfg0=cfg0,
                        ops=[[3, fe, 0], m, [3, fe, 0]]))
    return cases


def gen_case(rng, thorough=False):
    fam = rng.choice(FAMILIES)
    fmt = rng.choice(["dict", "dict", "dict", "hdf5", "child", "child2"])
    ev, temps, keys, reads = family_setup(rng, fam)
    nev = NEV
    if rng.random() < 0.08:
        # large arrays: versions of a temporary feature differ only in the
        # last element (index 1499; last pixel of 40 images), far beyond any
        # plausible "hash only the head of the data" prefix
        fmt = "dict"
        nev = 40 if fam in ("img", "mixed") else 1500
    counter = {"zero": fam in ("emod", "mixed") and rng.random() < 0.45}
    tcounter = {}
    cfg0 = {}
    pfull = rng.choice([0.55, 0.55, 0.9, 1.0])
    for k in keys:
        if rng.random() < pfull:
            cfg0[k] = cfg_value_choices(k, rng, counter)
    hot = []       # keys changed preferentially during the history
    if fam in ("emod", "mixed"):
        ek = {n: kid("calculation", "emodulus " + n) for n in (
            "lut", "medium", "temperature", "viscosity", "viscosity model")}
        hot = [ek["viscosity"], ek["temperature"], ek["medium"],
               ek["viscosity model"]]
        r = rng.random()
        if r < 0.45:
            # start from one complete scenario: drop the keys of the others
            scen = rng.choice("ABC")
            drop = {"A": ["temperature", "viscosity"],
                    "B": ["medium", "temperature"],
                    "C": ["viscosity"]}[scen]
            for name in drop:
                cfg0.pop(ek[name], None)
            cfg0.pop(kid("setup", "chip region"), None)
        elif r < 0.75:
            # overlapping scenarios: everything the recipes ask for is set,
            # then a random subset of the competing ingredients is removed;
            # the medium is "other" more often (case-B computation under a
            # case-A/C configuration)
            for k in keys:
                if k not in cfg0:
                    cfg0[k] = cfg_value_choices(k, rng, counter)
            cfg0.pop(kid("setup", "chip region"), None)
            other = rng.random() < 0.4
            if other:
                cfg0[ek["medium"]] = rng.choice(OTHER_MEDIUM_IDS)
            for name, pdrop in (("temperature", 0.5), ("viscosity", 0.25),
                                ("viscosity model", 0.25),
                                ("medium", 0.05 if other else 0.3)):
                if rng.random() < pdrop:
                    cfg0.pop(ek[name], None)
            if "temp" in temps and "temp" not in ev and rng.random() < 0.6:
                ev.append("temp")
    temps0 = {}
    for t in temps:
        if rng.random() < 0.3:
            tcounter[t] = tcounter.get(t, 0) + 1
            temps0[t] = tcounter[t]
    ops = []
    nops = rng.randint(4, 28 if not thorough else 40)
    present = set(cfg0)
    mutated = False
    for _ in range(nops):
        r = rng.random()
        if rng.random() < 0.12:
            # staleness probe: read, change exactly one ingredient, read
            f = F_ID[rng.choice(reads)]
            ops.append([3, f, 0])
            if temps and rng.random() < 0.3:
                t = rng.choice(temps)
                tcounter[t] = tcounter.get(t, 0) + 1
                ops.append([2, F_ID[t], tcounter[t]])
            else:
                k = rng.choice(hot) if hot and rng.random() < 0.7 \
                    else rng.choice(keys)
                ops.append([0, k, cfg_value_choices(k, rng, counter)])
                present.add(k)
            ops.append([3, f, 0])
            mutated = False
            continue
        if mutated and r < 0.6:
            # read right after a change: where stale values show
            ops.append([3, F_ID[rng.choice(reads)], 0])
            mutated = False
            continue
        mutated = r < 0.50
        if r < 0.27:
            k = rng.choice(hot) if hot and rng.random() < 0.5 \
                else rng.choice(keys)
            ops.append([0, k, cfg_value_choices(k, rng, counter)])
            present.add(k)
        elif r < 0.37:
            k = rng.choice(sorted(present)) if present and rng.random() < 0.8 \
                else rng.choice(keys)
            ops.append([1, k, 0])
            present.discard(k)
        elif r < 0.50 and temps:
            t = rng.choice(temps)
            tcounter[t] = tcounter.get(t, 0) + 1
            ops.append([2, F_ID[t], tcounter[t]])
        elif r < 0.80:
            ops.append([3, F_ID[rng.choice(reads)], 0])
        elif r < 0.95:
            ops.append([4, F_ID[rng.choice(reads)], 0])
        else:
            ops.append([5, 0, 0])
    return dict(family=fam, fmt=fmt, n=nev, events=ev,
                temps0=sorted([F_ID[t], v] for t, v in temps0.items()),
                cfg0=sorted([k, v] for k, v in cfg0.items()), ops=ops)


# --------------------------------------------------------------------------
# running the implementation
# --------------------------------------------------------------------------
class Impl:
    """builds long-lived and fresh datasets of one case"""

    def __init__(self, case, scratch):
        self.case = case
        self.fmt = case["fmt"]
        self.events = list(case["events"])
        self.n = case.get("n", NEV)
        self.scratch = scratch
        self.path = None
        self.opened = []
        if self.fmt == "hdf5":
            from . import gen
            self.path = os.path.join(
                scratch, "c06-%d-%d.rtdc" % (os.getpid(), id(case)))
            feats = {f: innate_data(f, self.n) for f in self.events}
            with_fl = any(f.startswith("fl") for f in feats)
            spec = dict(n=self.n, features=feats,
                        meta=gen.base_meta(with_fl=with_fl))
            gen.write_spec(self.path, spec)

    def close(self):
        for ds in self.opened:
            try:
                ds.close()
            except Exception:
                pass
        self.opened = []
        if self.path and os.path.exists(self.path):
            os.remove(self.path)

    def root(self):
        import dclab
        if self.fmt == "hdf5":
            ds = dclab.new_dataset(self.path)
            self.opened.append(ds)
            return ds
        return dclab.new_dataset({f: innate_data(f, self.n)
                                  for f in self.events})

    def build(self, cfg, temps):
        """dataset with exactly this state; returns (root, view)"""
        import dclab
        root = self.root()
        for (sec, key), k in K_ID.items():
            if k in cfg:
                root.config[sec][key] = cfg_value(k, cfg[k])
            elif key in root.config[sec]:
                root.config[sec].pop(key)
        for f, v in temps.items():
            dclab.set_temporary_feature(root, ID_F[f],
                                        temp_data(ID_F[f], v, self.n))
        view = root
        if self.fmt in ("child", "child2"):
            root.filter.manual[1] = False
            root.apply_filter()
            view = dclab.new_dataset(root)
        if self.fmt == "child2":
            # a grand-child: the child hides one more event
            view.filter.manual[0] = False
            view.apply_filter()
            view = dclab.new_dataset(view)
        return root, view


def materialise(name, x):
    import numpy as np
    if name == "contour":
        return [np.array(x[i]) for i in range(len(x))]
    return np.array(x)


def same_value(a, b):
    import numpy as np
    if isinstance(a, list) or isinstance(b, list):
        if not (isinstance(a, list) and isinstance(b, list)) or \
                len(a) != len(b):
            return False
        return all(x.shape == y.shape and np.array_equal(x, y)
                   for x, y in zip(a, b))
    if a.shape != b.shape:
        return False
    if a.dtype.kind == "f" or b.dtype.kind == "f":
        return bool(np.array_equal(a, b, equal_nan=True))
    return bool(np.array_equal(a, b))


def err_code(e):
    """The property distinguishes a value from an error; of the error
    classes only the two documented ones are told apart (KeyError: feature
    does not exist; MissingCrosstalkMatrixElementsError), everything else
    is "raises" (3)."""
    name = type(e).__name__
    if isinstance(e, KeyError):
        return 2
    if name == "MissingCrosstalkMatrixElementsError":
        return 4
    return 3


def norm_code(x):
    """model error kinds e_value (3) / e_other (5) are one class"""
    return 3 if x == 5 else x


def try_read(ds, name):
    """(code, value)"""
    try:
        return 0, materialise(name, ds[name])
    except BaseException as e:
        if isinstance(e, (KeyboardInterrupt, SystemExit, MemoryError)):
            raise
        return err_code(e), None


def emod_reference_check(cfg, fresh, value):
    """the value a fresh dataset computes for emodulus must be get_emodulus
    applied to the inputs of the scenario the documentation gives precedence
    to; returns a description of the deviation or None"""
    import numpy as np
    has_temp = "temp" in fresh
    sc = documented_scenario(cfg, has_temp)
    if sc not in (1, 2, 3):
        return None
    try:
        ref = emod_reference(sc, np.array(fresh["area_um"]),
                             np.array(fresh["deform"]), cfg,
                             np.array(fresh["temp"]) if has_temp else None)
    except Exception as e:
        return "reference get_emodulus for scenario %d failed: %r" % (sc, e)
    ref = np.array(ref, dtype=float)
    if ref.shape != value.shape or not np.allclose(
            ref, value, rtol=1e-10, atol=0, equal_nan=True):
        return ("ds['emodulus'] on a fresh dataset is not get_emodulus with "
                "the inputs of documented scenario %s" % " ABC"[sc])
    return None


def anc_names():
    seen = []
    for r in SIDE["rows"]:
        if r["name"] not in seen:
            seen.append(r["name"])
    return seen


def run_impl(case, scratch):
    """Returns (flat codes, list of oracle failures, nontrivial).
    An oracle failure is a dict(op=index, what=..., feature=..., ctx=...)."""
    import dclab
    warnings.simplefilter("ignore")
    im = Impl(case, scratch)
    flat = []
    fails = []
    try:
        cfg = {k: v for k, v in case["cfg0"]}
        temps = {f: v for f, v in case["temps0"]}
        root, view = im.build(cfg, temps)
        computed = 0
        changed_after_compute = False
        okreads = {}        # name -> snapshots of the successful reads
        refreshed_by_dclab = False
        for i, (tag, a, b) in enumerate(case["ops"]):
            if tag in (0, 1):
                refreshed_by_dclab = False
            if tag == 0:
                sec, key = ID_K[a]
                root.config[sec][key] = cfg_value(a, b)
                cfg[a] = b
                changed_after_compute |= computed > 0
            elif tag == 1:
                sec, key = ID_K[a]
                root.config[sec].pop(key, None)
                cfg.pop(a, None)
                changed_after_compute |= computed > 0
            elif tag == 2:
                data = temp_data(ID_F[a], b, im.n)
                if im.fmt in ("child", "child2") and b % 2 == 0:
                    # through the hierarchy child: dclab maps the events to
                    # the root (NaN for the hidden ones) and refreshes the
                    # tree itself
                    # (no refresh by the harness here: whatever the child
                    # cached from earlier reads must be renewed by dclab)
                    ids = [0, 2, 3, 4] if im.fmt == "child" else [2, 3, 4]
                    dclab.set_temporary_feature(view, ID_F[a], data[ids])
                    refreshed_by_dclab = True
                else:
                    dclab.set_temporary_feature(root, ID_F[a], data)
                    refreshed_by_dclab = False
                temps[a] = b
                changed_after_compute |= computed > 0
            else:
                ctx = dict(cfg=sorted(ID_K[k][1] for k in cfg),
                           temps=sorted(ID_F[f] for f in temps),
                           events=case["events"])
                snap = dict(cfg=dict(cfg), temps=dict(temps))
                if tag in (3, 4):
                    name = ID_F[a]
                    ctx = dict(ctx, snap=snap,
                               prev=list(okreads.get(name, [])),
                               cached=sorted(root._ancillaries))
                if tag == 3:
                    name = ID_F[a]
                    _fr, fresh = im.build(cfg, temps)
                    ctx["cached_unavailable"] = [
                        n for n in ctx["cached"] if n not in fresh]
                    if im.fmt in ("child", "child2") \
                            and not refreshed_by_dclab:
                        view.rejuvenate()
                    listed = name in view
                    c1, v1 = try_read(view, name)
                    listed0 = name in fresh
                    c0, v0 = try_read(fresh, name)
                    if c1 == 0:
                        code = 0 if (c0 == 0 and same_value(v1, v0)) else 1
                    else:
                        code = c1
                    flat += [code, c0]
                    if c1 == 0:
                        okreads.setdefault(name, []).append(snap)
                    if c1 == 0 and name not in case["events"] \
                            and name not in ctx["temps"]:
                        computed += 1
                    if code == 1:
                        fails.append(dict(
                            op=i, what="stale", feature=name, ctx=ctx,
                            desc="ds[%r] differs from a fresh dataset with "
                                 "the same data and configuration (fresh: %s)"
                                 % (name, "value" if c0 == 0 else
                                    "error %d" % c0)))
                    elif code != c0:
                        fails.append(dict(
                            op=i, what="raises", feature=name, ctx=ctx,
                            listed=listed, listed0=listed0,
                            desc="ds[%r] raises (code %d) but a fresh "
                                 "dataset gives code %d" % (name, code, c0)))
                    if listed0 != (c0 == 0):
                        fails.append(dict(
                            op=i, what="fresh-in-vs-read", feature=name,
                            ctx=ctx, listed0=listed0, code0=c0,
                            desc="fresh dataset: %r in ds is %s but reading "
                                 "gives code %d" % (name, listed0, c0)))
                    if name == "emodulus" and c0 == 0:
                        bad = emod_reference_check(cfg, fresh, v0)
                        if bad:
                            fails.append(dict(
                                op=i, what="emod-reference", feature=name,
                                ctx=ctx, desc=bad))
                    if listed != (c1 == 0) and listed0 == (c0 == 0) \
                            and listed != listed0:
                        fails.append(dict(
                            op=i, what="in-vs-fresh", feature=name, ctx=ctx,
                            listed=listed, listed0=listed0,
                            desc="%r in ds is %s on the long-lived dataset, "
                                 "%s on a fresh one" % (name, listed,
                                                        listed0)))
                elif tag == 4:
                    name = ID_F[a]
                    _fr, fresh = im.build(cfg, temps)
                    ctx["cached_unavailable"] = [
                        n for n in ctx["cached"] if n not in fresh]
                    listed = name in view
                    listed0 = name in fresh
                    flat += [int(listed), int(listed0)]
                    if listed != listed0:
                        fails.append(dict(
                            op=i, what="in-vs-fresh", feature=name, ctx=ctx,
                            listed=listed, listed0=listed0,
                            desc="%r in ds is %s on the long-lived dataset, "
                                 "%s on a fresh one" % (name, listed,
                                                        listed0)))
                    c0, _v = try_read(fresh, name)
                    if listed0 != (c0 == 0):
                        fails.append(dict(
                            op=i, what="fresh-in-vs-read", feature=name,
                            ctx=ctx, listed0=listed0, code0=c0,
                            desc="fresh dataset: %r in ds is %s but reading "
                                 "gives code %d" % (name, listed0, c0)))
                else:
                    feats = view.features
                    flat += [int(n in feats) for n in anc_names()]
                    for n in anc_names():
                        if (n in feats) != (n in view):
                            fails.append(dict(
                                op=i, what="features-vs-in", feature=n,
                                ctx=ctx, desc="ds.features and `in` disagree "
                                              "on %r" % n))
                    # features_ancillary: same judgement as `in`, on a
                    # long-lived vs. a fresh dataset
                    _fr, fresh = im.build(cfg, temps)
                    fa = set(view.features_ancillary)
                    fa0 = set(fresh.features_ancillary)
                    gone = [n for n in sorted(root._ancillaries)
                            if n not in fresh]
                    for n in sorted(fa ^ fa0):
                        fails.append(dict(
                            op=i, what="in-vs-fresh", feature=n,
                            ctx=dict(ctx, cached_unavailable=gone),
                            listed=n in fa, listed0=n in fa0,
                            desc="features_ancillary lists %r: %s on the "
                                 "long-lived dataset, %s on a fresh one" % (
                                     n, n in fa, n in fa0)))
        nontrivial = computed > 0 and changed_after_compute
    finally:
        im.close()
    return flat, fails, nontrivial


# --------------------------------------------------------------------------
# matchers of the known findings (predicates over the failure, model free)
# --------------------------------------------------------------------------
CT_KEYS = ["crosstalk fl%d%d" % (i, j) for i in (1, 2, 3) for j in (1, 2, 3)
           if i != j]

# Pinned copy of what the recipes of the UNCHANGED tree declare (feature
# name, priority, req_features, req_config keys of section [calculation]
# unless prefixed), in registration order. The staleness findings exist only
# where THIS table leaves a read ingredient out of the cache key; a stale
# value that this table would have re-computed is a new violation.
_EM = ["imaging:pixel size", "setup:flow rate", "setup:channel width"]
BASELINE = [
    ("emodulus", 5, ["area_um", "deform"],
     ["emodulus viscosity model", "emodulus lut", "emodulus medium",
      "emodulus temperature"] + _EM),
    ("emodulus", 1, ["area_um", "deform", "temp"],
     ["emodulus viscosity model", "emodulus lut", "emodulus medium"] + _EM),
    ("emodulus", 4, ["area_um", "deform"],
     ["emodulus lut", "emodulus medium", "emodulus temperature"] + _EM),
    ("emodulus", 0, ["area_um", "deform", "temp"],
     ["emodulus lut", "emodulus medium"] + _EM),
    ("emodulus", 2, ["area_um", "deform"],
     ["emodulus lut", "emodulus viscosity"] + _EM),
    ("fl1_max_ctc", 1, ["fl1_max", "fl2_max", "fl3_max"], CT_KEYS),
    ("fl2_max_ctc", 1, ["fl1_max", "fl2_max", "fl3_max"], CT_KEYS),
    ("fl3_max_ctc", 1, ["fl1_max", "fl2_max", "fl3_max"], CT_KEYS),
    ("fl1_max_ctc", 0, ["fl1_max", "fl2_max"],
     ["crosstalk fl21", "crosstalk fl12"]),
    ("fl2_max_ctc", 0, ["fl1_max", "fl2_max"],
     ["crosstalk fl21", "crosstalk fl12"]),
    ("fl1_max_ctc", 0, ["fl1_max", "fl3_max"],
     ["crosstalk fl31", "crosstalk fl13"]),
    ("fl3_max_ctc", 0, ["fl1_max", "fl3_max"],
     ["crosstalk fl31", "crosstalk fl13"]),
    ("fl2_max_ctc", 0, ["fl2_max", "fl3_max"],
     ["crosstalk fl32", "crosstalk fl23"]),
    ("fl3_max_ctc", 0, ["fl2_max", "fl3_max"],
     ["crosstalk fl32", "crosstalk fl23"]),
]


def _bkey(name):
    if ":" in name:
        sec, key = name.split(":")
        return K_ID[(sec, key)]
    return K_ID[("calculation", name)]


def feat_identity(name, events, snap):
    """what identifies the data of a feature in a snapshot (innate data
    never change; temporary data by version; the two computed inputs of the
    emodulus by their own ingredients)"""
    if name in events:
        return ("innate",)
    if F_ID.get(name) in snap["temps"]:
        return ("temp", snap["temps"][F_ID[name]])
    if name == "area_um":
        src = feat_identity("area_cvx", events, snap)
        px = snap["cfg"].get(K_ID[("imaging", "pixel size")])
        if src is not None and px is not None:
            return ("computed", src, px)
    if name == "deform":
        src = feat_identity("circ", events, snap)
        if src is not None:
            return ("computed", src)
    return None


def baseline_select(name, events, snap):
    """index of the BASELINE row the unchanged tree selects, or None"""
    own = []
    for i, (n, prio, feats, keys) in enumerate(BASELINE):
        if n != name:
            continue
        if any(_bkey(k) not in snap["cfg"] for k in keys):
            continue
        if any(feat_identity(f, events, snap) is None for f in feats):
            continue
        if n == "emodulus" and snap["cfg"].get(
                K_ID[("setup", "chip region")], 1) != 1:
            continue
        own.append((prio, i))
    if not own:
        return None
    top = max(p for p, _i in own)
    return [i for p, i in own if p == top][-1]


def baseline_key(name, events, snap):
    """(row, declared ingredients): the cache key of the unchanged tree"""
    i = baseline_select(name, events, snap)
    if i is None:
        return None
    _n, _p, feats, keys = BASELINE[i]
    return (i, tuple(feat_identity(f, events, snap) for f in feats),
            tuple(snap["cfg"][_bkey(k)] for k in keys))


def stale_on_unchanged_tree(case, f):
    """Replays the cache of the unchanged tree over the successful reads of
    this feature: the value held now was computed at the last read whose
    baseline cache key differed from its predecessor's. The stale read is
    the known finding only if the baseline key of the current state equals
    the key under which that value was stored (so the unchanged tree returns
    it as well) although the state differs."""
    ctx = f["ctx"]
    name = f["feature"]
    events = ctx["events"]
    held = None          # (key, snapshot at compute time)
    for p in ctx["prev"]:
        k = baseline_key(name, events, p)
        if k is None:
            continue
        if held is None or held[0] != k:
            held = (k, p)
    now = baseline_key(name, events, ctx["snap"])
    return held is not None and now is not None and held[0] == now \
        and held[1] != ctx["snap"]


def req_closure(name, seen=None):
    seen = set() if seen is None else seen
    for r in SIDE["rows"]:
        if r["name"] == name:
            for g in r["req_feats"]:
                if g not in seen:
                    seen.add(g)
                    req_closure(g, seen)
    return seen


def ctx_text(ctx):
    return json.dumps({k: ctx[k] for k in ("cfg", "temps", "events")})


def classify(case, f):
    """Matchers of the listed findings: each accepts exactly the inputs for
    which the unchanged tree misbehaves, judged from the pinned BASELINE
    declarations and the history -- not from the feature name alone."""
    feat = f["feature"]
    ctx = f["ctx"]
    have = set(ctx["events"]) | set(ctx["temps"])
    what = f["what"]
    if what == "in-vs-fresh" or (what == "raises" and f.get("listed")
                                 and not f.get("listed0")):
        # long-lived says available, fresh says not: legitimate only when
        # the feature itself, or one it requires, sits in the cache and is
        # no longer available
        if f["listed"] and not f["listed0"]:
            gone = set(ctx.get("cached_unavailable", []))
            if feat in gone or gone & req_closure(feat):
                return "C06-cached-stays-listed"
        return None
    if feat in ("fl1_max_ctc", "fl2_max_ctc", "fl3_max_ctc"):
        three = all(c in have for c in ("fl1_max", "fl2_max", "fl3_max"))
        full = three and all(k in ctx["cfg"] for k in CT_KEYS)
        if what == "stale" and not full and stale_on_unchanged_tree(case, f):
            return "C06-ctc-undeclared-crosstalk"
        if what == "fresh-in-vs-read" and three and not full \
                and f.get("listed0") and f.get("code0") == 4:
            return "C06-ctc-undeclared-crosstalk"
        return None
    if feat == "emodulus":
        has_temp = "temp" in have
        if what == "fresh-in-vs-read" and f.get("listed0") \
                and f.get("code0") == 3 \
                and documented_scenario(ctx["snap"]["cfg"], has_temp) is None:
            return "C06-emodulus-available-unreadable"
        if what == "stale" and stale_on_unchanged_tree(case, f):
            return "C06-emodulus-stale-viscosity"
        return None
    return None


# --------------------------------------------------------------------------
# rendering for Coq
# --------------------------------------------------------------------------
HEADER = ("From Coq Require Import ZArith List.\nImport ListNotations.\n"
          "From Verif Require Import Model.C06 Gen.AncRegistry.\n")


def pairs(xs):
    if not xs:
        return "(@nil (Z * Z))"
    return "[" + "; ".join("(%s, %s)" % (common.zlit(a), common.zlit(b))
                           for a, b in xs) + "]"


def render(case):
    ops = []
    for tag, a, b in case["ops"]:
        if tag == 0:
            ops.append("SetCfg %d %s" % (a, common.zlit(b)))
        elif tag == 1:
            ops.append("DelCfg %d" % a)
        elif tag == 2:
            ops.append("SetTemp %d %s" % (a, common.zlit(b)))
        elif tag == 3:
            ops.append("Read %d" % a)
        elif tag == 4:
            ops.append("Contains %d" % a)
        else:
            ops.append("Features")
    ev = [(F_ID[f], 0) for f in case["events"] if f in F_ID]
    return "(%s, %s, %s, [%s])" % (pairs(ev), pairs(case["temps0"]),
                                   pairs(case["cfg0"]), "; ".join(ops))


def read_positions(case):
    """indices in the flat code list holding the long-lived/fresh code of
    a Read"""
    pos = []
    k = 0
    nn = len(anc_names())
    for tag, _a, _b in case["ops"]:
        if tag == 3:
            pos.append(k)
            k += 2
        elif tag == 4:
            k += 2
        elif tag == 5:
            k += nn
    return pos


def load_corpus():
    d = os.path.join(common.VERIF, "corpus", PROP)
    cases = []
    if os.path.isdir(d):
        for fn in sorted(os.listdir(d)):
            if fn.endswith(".json"):
                cases.append(json.load(open(os.path.join(d, fn)))["case"])
    return cases


def corpus_case(c):
    """corpus files name features/keys symbolically"""
    def k(x):
        return K_ID[tuple(x)] if isinstance(x, list) else x

    def f(x):
        return F_ID[x] if isinstance(x, str) else x
    ops = []
    for o in c["ops"]:
        if o[0] in (0, 1):
            ops.append([o[0], k(o[1]), o[2]])
        elif o[0] in (2, 3, 4):
            ops.append([o[0], f(o[1]), o[2]])
        else:
            ops.append(list(o))
    return dict(family=c.get("family", "corpus"), fmt=c.get("fmt", "dict"),
                n=c.get("n", NEV), events=c["events"],
                temps0=sorted([f(a), b] for a, b in c.get("temps0", [])),
                cfg0=sorted([k(a), b] for a, b in c.get("cfg0", [])),
                ops=ops)


def _work(args):
    case, scratch = args
    try:
        return run_impl(case, scratch)
    except Exception as e:   # harness problem, reported by the caller
        import traceback
        return ("crash", traceback.format_exc(), repr(e))


def _pool_init(side, repo):
    warnings.simplefilter("ignore")
    load_side(side)
    from .translators import anc_trace
    anc_trace.load_plugin(repo)


def run_cases(run, cases):
    import multiprocessing as mp
    ctx = mp.get_context("fork")
    with ctx.Pool(min(common.NCPU, 12), initializer=_pool_init,
                  initargs=(SIDE, common.REPO)) as pool:
        return pool.map(_work, [(c, run.scratch) for c in cases], chunksize=4)


def run(run):
    if not SIDE:
        load_side()
    from .translators import anc_trace
    anc_trace.load_plugin(common.REPO)
    ncases = 1500 if run.thorough else 200
    cases = [corpus_case(c) for c in load_corpus()]
    run.count("corpus", len(cases))
    while len(cases) < ncases:
        cases.append(gen_case(run.rng, run.thorough))
    sweep = emod_sweep_cases()
    csweep = ctc_sweep_cases()
    if not run.thorough:
        # a part of the exhaustive sweeps per quick run (all of them in the
        # thorough tier and in search())
        # the slice rotates with VERIF_SEED and with the day, so that
        # repeated quick runs cover the whole sweep
        import time as _time
        rot = run.seed + _time.gmtime().tm_yday
        sweep = sweep[rot % 6::6]
        csweep = csweep[rot % 2::2]
        run.notes.append("sweep slice %d of 6 / %d of 2" % (rot % 6, rot % 2))
    run.count("emod-sweep", len(sweep))
    run.count("ctc-sweep", len(csweep))
    cases += sweep + csweep
    results = run_cases(run, cases)
    impl = []
    for c, res in zip(cases, results):
        if res[0] == "crash":
            raise RuntimeError("implementation runner crashed on %s: %s" % (
                json.dumps(c), res[1][-800:]))
        flat, fails, nontrivial = res
        impl.append(flat)
        run.record_case(c, nontrivial)
        run.count("family=" + c["family"])
        run.count("fmt=" + c["fmt"])
        if c["fmt"] in ("child", "child2"):
            run.count("temp-set-through-child", sum(
                1 for o in c["ops"] if o[0] == 2 and o[2] % 2 == 0))
        if c.get("n", NEV) != NEV:
            run.count("large-arrays(n=%d)" % c["n"])
        run.count("near-values", sum(
            1 for o in c["ops"] if o[0] == 0 and o[2] >= NEAR))
        for o in c["ops"]:
            run.count("op:" + ["setcfg", "delcfg", "settemp", "read",
                               "contains", "features"][o[0]])
        for f in fails:
            fid = classify(c, f)
            run.count("oracle:" + (fid or "UNMATCHED:" + f["what"]))
            fcase = dict(c, failing_op=f["op"])
            run.oracle_failure(fcase, f["desc"] + " [%s, op %d, state %s]" % (
                f["what"], f["op"], ctx_text(f["ctx"])), fid)
    model = common.coq_map(run.scratch, "c06", HEADER, "run_flat registry",
                           [render(c) for c in cases], shard=40)
    stale_pred = 0
    coincid = []
    for c, m, i in zip(cases, model, impl):
        run.corr_checked += 1
        rp = set(read_positions(c))
        m = [norm_code(x) if (k in rp or k - 1 in rp) else x
             for k, x in enumerate(m)]
        stale_pred += sum(1 for x in read_positions(c) if x < len(m)
                          and m[x] == 1)
        if m != i:
            # the model predicts "not the fresh value" from the ingredients;
            # numerically the stale and the fresh value may coincide (e.g.
            # bright_bc_sd is invariant under bg_off). Only that direction,
            # only at read positions, is tolerated (and counted).
            pos = set(read_positions(c))
            if len(m) == len(i) and all(
                    a == b or (k in pos and a == 1 and b == 0)
                    for k, (a, b) in enumerate(zip(m, i))):
                coincid.append(c)
                continue
            run.mismatch(c, m, i)
    run.count("model-stale-predictions", stale_pred)
    run.count("value-coincidences", len(coincid))
    if len(coincid) > max(3, 0.30 * max(1, stale_pred)):
        run.mismatch(coincid[0], "stale predicted", "fresh value observed",
                     what="too many stale predictions not observed (%d of %d)"
                     % (len(coincid), stale_pred))
    emodulus_table(run)
    uses_sensitivity(run)
    reqfunc_injectivity(run)
    finding_witnesses(run)
    plugin_reload_check(run)


# --------------------------------------------------------------------------
# emodulus scenario table
# --------------------------------------------------------------------------
EMOD_VARIANTS = [
    # medium id, temperature id, viscosity id, lut id, viscosity model id
    dict(name="typical", medv=1, tid=1, vid=3, lut=1, vmid=1),
    dict(name="water at 0.0 degC, viscosity 0.0", medv=3, tid=0, vid=0,
         lut=2, vmid=2),
    dict(name="alias spelling, tiny viscosity", medv=11, tid=7, vid=1,
         lut=3, vmid=1),
    dict(name="other", medv=4, tid=1, vid=3, lut=3, vmid=1),
    dict(name="Other, zero values", medv=20, tid=0, vid=0, lut=3, vmid=2),
]


def emod_rows():
    rows = []
    for var in EMOD_VARIANTS:
        for bits in range(64):
            lut, med, tmp, visc, vm, has_temp = [(bits >> s) & 1
                                                 for s in (5, 4, 3, 2, 1, 0)]
            rows.append((lut, med, tmp, visc, vm, has_temp, var))
    return rows


def emod_keys():
    return {n: kid(s, n) for s, n in [
        ("calculation", "emodulus lut"), ("calculation", "emodulus medium"),
        ("calculation", "emodulus temperature"),
        ("calculation", "emodulus viscosity"),
        ("calculation", "emodulus viscosity model"),
        ("imaging", "pixel size"), ("setup", "flow rate"),
        ("setup", "channel width"), ("setup", "chip region")]}


def emod_reference(scen, area_um, deform, cfg, temp_arr):
    """direct get_emodulus call with the inputs of scenario `scen`
    (1 A, 2 B, 3 C); cfg: key id -> value id"""
    from dclab.features.emodulus import get_emodulus
    K = emod_keys()
    kw = dict(area_um=area_um, deform=deform,
              channel_width=cfg_value(K["channel width"],
                                      cfg[K["channel width"]]),
              flow_rate=cfg_value(K["flow rate"], cfg[K["flow rate"]]),
              px_um=cfg_value(K["pixel size"], cfg[K["pixel size"]]),
              lut_data=LUTS[cfg[K["emodulus lut"]]])
    if scen == 2:
        return get_emodulus(
            medium=cfg_value(K["emodulus viscosity"],
                             cfg[K["emodulus viscosity"]]),
            temperature=None, visc_model=None, **kw)
    vmid = cfg.get(K["emodulus viscosity model"])
    vmodel = VMODELS[vmid] if vmid is not None else "herold-2017"
    medium = MEDIA[cfg[K["emodulus medium"]]]
    if scen == 3:
        return get_emodulus(
            medium=medium, visc_model=vmodel,
            temperature=cfg_value(K["emodulus temperature"],
                                  cfg[K["emodulus temperature"]]), **kw)
    return get_emodulus(medium=medium, visc_model=vmodel,
                        temperature=temp_arr, **kw)


def documented_scenario(cfg, has_temp):
    """scenario the documentation gives precedence to (C > B > A) for a
    configuration whose ingredients are all valid; None when the
    configuration mixes a viscosity with a known medium or names an
    unknown medium (known finding C06-emodulus-available-unreadable)"""
    K = emod_keys()
    if K["emodulus lut"] not in cfg:
        return 0
    med = cfg.get(K["emodulus medium"])
    visc = K["emodulus viscosity"] in cfg
    tmp = K["emodulus temperature"] in cfg
    known = med in KNOWN_MEDIUM_IDS
    other = med is None or med in OTHER_MEDIUM_IDS
    if not (known or other):
        return None
    if known and visc:
        return None
    if known and tmp:
        return 3
    if visc and other:
        return 2
    if known and has_temp:
        return 1
    if med is not None and (tmp or has_temp):
        return None       # "other" without a viscosity: rejected on read
    return 0


_REF_MEMO = {}


def _table_ref(key):
    """reference value: get_emodulus with the inputs of one scenario"""
    import numpy as np
    warnings.simplefilter("ignore")
    sc, vname, vm = key
    var = [v for v in EMOD_VARIANTS if v["name"] == vname][0]
    K = emod_keys()
    cfg = {K["pixel size"]: 1, K["flow rate"]: 1, K["channel width"]: 1,
           K["emodulus lut"]: var["lut"], K["emodulus medium"]: var["medv"],
           K["emodulus temperature"]: var["tid"],
           K["emodulus viscosity"]: var["vid"]}
    if vm:
        cfg[K["emodulus viscosity model"]] = var["vmid"]
    try:
        return key, np.array(emod_reference(
            sc, innate_data("area_um"), innate_data("deform"), cfg,
            innate_data("temp"))), None
    except Exception as e:
        return key, None, "emodulus reference %r failed: %r" % (key, e)


def _table_init(side, repo, memo):
    _pool_init(side, repo)
    _REF_MEMO.update(memo)


def _table_row(row):
    """one row of the emodulus table on the implementation; returns
    (impl codes, case, oracle failure or None, notes)"""
    import numpy as np
    import dclab
    from dclab.rtdc_dataset.feat_anc_core import AncillaryFeature
    warnings.simplefilter("ignore")
    (lut, med, tmp, visc, vm, has_temp, var) = row
    K = emod_keys()
    notes = []
    medv = var["medv"]
    data = {"area_um": innate_data("area_um"),
            "deform": innate_data("deform")}
    if has_temp:
        data["temp"] = innate_data("temp")
    cfg = {K["pixel size"]: 1, K["flow rate"]: 1, K["channel width"]: 1}
    if lut:
        cfg[K["emodulus lut"]] = var["lut"]
    if med:
        cfg[K["emodulus medium"]] = medv
    if tmp:
        cfg[K["emodulus temperature"]] = var["tid"]
    if visc:
        cfg[K["emodulus viscosity"]] = var["vid"]
    if vm:
        cfg[K["emodulus viscosity model"]] = var["vmid"]
    ds = dclab.new_dataset(data)
    for k, v in cfg.items():
        sec, key = ID_K[k]
        ds.config[sec][key] = cfg_value(k, v)
    listed = "emodulus" in ds
    rec = AncillaryFeature.available_features(ds).get("emodulus")
    scen_sel = {"case A": 1, "case B": 2, "case C": 3}.get(
        getattr(rec, "data", None), 0)
    code, val = try_read(ds, "emodulus")
    taken = 0
    if code == 0:
        cand = {}
        full = dict(cfg)
        full.setdefault(K["emodulus lut"], var["lut"])
        full.setdefault(K["emodulus viscosity"], var["vid"])
        full.setdefault(K["emodulus temperature"], var["tid"])
        scens = [2] if medv in OTHER_MEDIUM_IDS else [1, 2, 3]
        full.setdefault(K["emodulus medium"], medv)
        for sc in scens:
            memo = (sc, var["name"], bool(vm) if sc != 2 else None)
            if memo in _REF_MEMO and _REF_MEMO[memo] is not None:
                cand[sc] = _REF_MEMO[memo]
        match = [sc for sc, v in cand.items() if same_value(v, val)]
        taken = match[0] if len(match) == 1 else 7
    else:
        taken = 10 + code
    case = dict(kind="emodulus-table", variant=var["name"], lut=lut,
                medium=med, temperature=tmp, viscosity=visc, vmodel=vm,
                temp_feature=has_temp, medium_value=MEDIA[medv],
                temperature_value=cfg_value(K["emodulus temperature"],
                                            var["tid"]),
                viscosity_value=cfg_value(K["emodulus viscosity"],
                                          var["vid"]))
    fail = None
    if medv in KNOWN_MEDIUM_IDS:
        # documented precedence C > B > A
        spec = 3 if (lut and med and tmp) else 2 if (lut and visc) else \
            1 if (lut and med and has_temp) else 0
        ok = (listed == (spec != 0)) and \
            (taken == spec if spec else code != 0)
        if not ok:
            fid = None
            if listed and code == 3 and visc and med:
                fid = "C06-emodulus-available-unreadable"
            fail = ("emodulus table: documented scenario %d, listed=%s, "
                    "read code %d, inputs used %d" % (spec, listed, code,
                                                      taken), fid)
    elif medv in OTHER_MEDIUM_IDS:
        # medium "other": only a given viscosity makes sense (case B); a
        # configuration without one is either unavailable or rejected on
        # read (listed finding C06-emodulus-available-unreadable)
        spec = documented_scenario(cfg, bool(has_temp))
        if spec == 2 and not (listed and taken == 2):
            fail = ("emodulus table (medium 'other'): case B expected, "
                    "listed=%s, read code %d, inputs used %d" % (
                        listed, code, taken), None)
        elif spec == 0 and (listed or code == 0):
            fail = ("emodulus table (medium 'other'): nothing to compute "
                    "from, but listed=%s, read code %d" % (listed, code),
                    None)
        elif spec is None and code == 0:
            fail = ("emodulus table (medium 'other'): no viscosity given, "
                    "but a value was returned (inputs %d)" % taken, None)
    return [int(listed), scen_sel, taken], case, fail, notes


def emodulus_table(run):
    """all present/absent combinations of the emodulus ingredients on a
    fresh dataset, for typical and for falsy-but-legal values (0.0 degC,
    viscosity 0.0 / 2**-10, alias spellings, every LUT): availability,
    recipe chosen, inputs actually used"""
    import multiprocessing as mp
    rows = emod_rows()
    ctx = mp.get_context("fork")
    keys = []
    for var in EMOD_VARIANTS:
        if var["medv"] in OTHER_MEDIUM_IDS:
            keys.append((2, var["name"], None))
        else:
            keys += [(2, var["name"], None)] + [
                (sc, var["name"], vm) for sc in (1, 3) for vm in (False, True)]
    with ctx.Pool(min(common.NCPU, 12), initializer=_pool_init,
                  initargs=(SIDE, common.REPO)) as pool:
        memo = {}
        for key, val, note in pool.map(_table_ref, keys, chunksize=1):
            memo[key] = val
            if note:
                run.notes.append(note)
    with ctx.Pool(min(common.NCPU, 12), initializer=_table_init,
                  initargs=(SIDE, common.REPO, memo)) as pool:
        results = pool.map(_table_row, rows, chunksize=4)
    impl = []
    for codes, case, fail, notes in results:
        impl.append(codes)
        run.notes.extend(notes)
        run.record_case(case, True, sample=False)
        run.count("emodulus-table")
        if fail:
            desc, fid = fail
            run.count("oracle:" + (fid or "UNMATCHED:emodulus-table"))
            run.oracle_failure(case, desc, fid)
    rendered = ["(%s, %d)" % (", ".join(
        "true" if x else "false" for x in r[:6]), r[6]["medv"])
        for r in rows]
    model = common.coq_map(run.scratch, "c06emod", HEADER,
                           "emod_row registry", rendered, shard=200)
    for r, m, i in zip(rows, model, impl):
        run.corr_checked += 1
        m = m[:2] + [13 if m[2] == 15 else m[2]]
        if m != i:
            run.mismatch(dict(kind="emodulus-table", row=list(r[:6]),
                              variant=r[6]), m, i, what="emodulus table")


# --------------------------------------------------------------------------
# witnesses of the listed findings in the model (booleans, not theorems)
# --------------------------------------------------------------------------
WITNESSES = [
    ("w_registry_incomplete", ["C06-ctc-undeclared-crosstalk",
                               "C06-emodulus-stale-viscosity"]),
    ("w_emodulus_inputs", ["C06-emodulus-available-unreadable"]),
    ("w_available_unreadable", ["C06-emodulus-available-unreadable"]),
    ("w_cached_stays_listed", ["C06-cached-stays-listed"]),
    ("w_stale_read", ["C06-ctc-undeclared-crosstalk"]),
]


def finding_witnesses(run):
    """Evaluates the witnesses of Proofs/C06_registry.v on the regenerated
    table and records them next to the status of the findings. A witness
    that no longer holds while its finding is listed (or the reverse) is a
    note for the maintainer of known_findings.json, never an alarm."""
    src = (HEADER.replace("Gen.AncRegistry.", "Gen.AncRegistry "
                          "Proofs.C06_registry.")
           + "Eval vm_compute in finding_witnesses.\n")
    try:
        out = common.coq_eval(run.scratch, "c06_witnesses", src)
        vals = common.parse_coq_zlists(out)[0]
    except Exception as e:
        run.notes.append("finding witnesses not evaluated: %s" % str(e)[:200])
        return
    status = {e["id"]: e.get("status") for e in run.findings}
    rec = {}
    for (name, ids), v in zip(WITNESSES, vals):
        listed = any(status.get(i) == "finding" for i in ids)
        rec[name] = dict(holds=bool(v), findings=ids, listed=listed)
        if bool(v) != listed:
            run.notes.append(
                "witness %s %s in the model, but %s %s listed as finding" % (
                    name, "holds" if v else "no longer holds", ids,
                    "is" if listed else "is not"))
    run.extra["finding_witnesses"] = rec


# --------------------------------------------------------------------------
# tie of "the hashed req_func result stands for the data it was made of"
# --------------------------------------------------------------------------
def _reqfunc_row(idx):
    """The model treats the hashed (non-boolean) result of a req_func as the
    full value of every feature the tracer saw it read ([ItReq]). Black box
    on the real function: on a 1500-event dataset, changing ONE element of
    such a feature by one ulp -- first, second, middle, beyond index 1000,
    last -- must change obj2bytes(req_func(ds))."""
    import numpy as np
    import dclab
    from dclab.util import obj2bytes
    from dclab.rtdc_dataset.feat_anc_core import AncillaryFeature
    from .translators import anc_trace
    warnings.simplefilter("ignore")
    row = SIDE["rows"][idx]
    regs = list(AncillaryFeature.features)
    inst = regs[idx]
    anc = set(r.feature_name for r in regs)
    n = 1500
    feats = [x[1] for x in row["extra"] if x[0] == "data"]
    base = anc_trace.base_closure(row["req_feats"], anc, regs)
    base = [f for f in base if f not in ("image", "image_bg", "mask")] \
        or ["deform"]
    problems = []
    data = {f: innate_data(f, n) for f in base}
    ds = dclab.new_dataset(data)
    arrs = {f: temp_data(f, 1, n) for f in feats}
    for f, a in arrs.items():
        dclab.set_temporary_feature(ds, f, a)
    ret = inst.req_func(ds)
    if isinstance(ret, bool):
        return ["row %d (%s): req_func returns a bool although %s are "
                "present; nothing of them enters the cache key" % (
                    idx, row["name"], feats)]
    ref = obj2bytes(ret)
    for f, a in arrs.items():
        for pos in (0, 1, n // 2, 1200, n - 1):
            b = a.copy()
            b[pos] = np.nextafter(b[pos], np.inf) if np.isfinite(b[pos]) \
                else 0.5
            dclab.set_temporary_feature(ds, f, b)
            if obj2bytes(inst.req_func(ds)) == ref:
                problems.append(
                    "row %d (%s): the hashed req_func result does not change "
                    "when element %d of %r changes by one ulp" % (
                        idx, row["name"], pos, f))
        dclab.set_temporary_feature(ds, f, a)
    return problems


def reqfunc_injectivity(run):
    import multiprocessing as mp
    rows = [i for i, r in enumerate(SIDE["rows"]) if r["rf_kind"] in (2, 3)
            and any(x[0] == "data" for x in r["extra"])]
    if not rows:
        return
    ctx = mp.get_context("fork")
    with ctx.Pool(min(common.NCPU, len(rows)), initializer=_pool_init,
                  initargs=(SIDE, common.REPO)) as pool:
        res = pool.map(_reqfunc_row, rows, chunksize=1)
    for idx, problems in zip(rows, res):
        run.corr_checked += 1
        run.count("reqfunc-injectivity-rows")
        for pr in problems:
            run.mismatch(dict(kind="reqfunc-injectivity", row=idx),
                         "hashed result determines the data", pr,
                         what="req_func result vs data")


# --------------------------------------------------------------------------
# plugin feature removed and registered again with another method
# --------------------------------------------------------------------------
def plugin_reload_check(run):
    """A long-lived dataset read a plugin feature; the plugin is removed and
    a plugin with the same feature name but another method is registered:
    the next read must equal a fresh dataset's. (Plugin (un)loading is at the
    edge of the property's history alphabet; the defect was repaired, a
    recurrence is a violation.)"""
    import numpy as np
    import dclab
    from dclab.rtdc_dataset.feat_anc_plugin import plugin_feature as pf
    fid = "C06-plugin-reregistered-stale"    # repaired in /repo (a5aeb9d)

    def m1(ds):
        return {"verif_reload": ds["deform"] * 2}

    def m2(ds):
        return {"verif_reload": ds["deform"] * 0 + 7}

    def info(m):
        return {"method": m, "description": "verif", "long description": "",
                "feature names": ["verif_reload"],
                "feature labels": ["verif reload"],
                "features required": ["deform"], "config required": [],
                "method check required": lambda x: True,
                "scalar feature": [True], "version": "0.1.0"}
    data = {"deform": innate_data("deform")}
    ds = dclab.new_dataset(data)
    p1 = pf.PlugInFeature("verif_reload", info(m1))
    p2 = None
    case = dict(kind="plugin-reload", feature="verif_reload")
    try:
        first = np.array(ds["verif_reload"])
        pf.remove_plugin_feature(p1)
        p1 = None
        p2 = pf.PlugInFeature("verif_reload", info(m2))
        again = np.array(ds["verif_reload"])
        fresh = np.array(dclab.new_dataset(data)["verif_reload"])
        run.record_case(case, True, sample=False)
        run.count("plugin-reload")
        if not same_value(again, fresh):
            run.oracle_failure(
                case, "after removing a plugin feature and registering the "
                "same name with another method, ds[feat] still returns the "
                "old method's values %s (fresh dataset: %s)" % (
                    again[:3].tolist(), fresh[:3].tolist()), fid)
        del first
    finally:
        for p in (p1, p2):
            if p is not None:
                try:
                    pf.remove_plugin_feature(p)
                except Exception:
                    pass


# --------------------------------------------------------------------------
# tie of the traced `uses` column to the real entry point ds[feat]
# --------------------------------------------------------------------------
SENS_FEATS = ["bg_off", "temp", "fl1_max", "fl2_max", "fl3_max",
              "ml_score_abc", "ml_score_xyz"]


def _closure_uses(row, depth=0):
    """ingredients the traced table attributes to a row, including those of
    the recipes of its required (computed) features"""
    out = set()
    for x in row["uses"] + row["extra"]:
        out.add(("cfg", x[1], x[2]) if x[0] == "cfg" else ("feat", x[1]))
    for k in row["req_keys"]:
        out.add(("cfg", k[0], k[1]))
    for g in row["req_feats"]:
        out.add(("feat", g))
        if depth < 4:
            for r2 in SIDE["rows"]:
                if r2["name"] == g:
                    out |= _closure_uses(r2, depth + 1)
    return out


def _sens_row(idx):
    """Black-box sensitivity of one recipe on the real code: in an
    environment where exactly this instance is selected, change one
    configuration key / optional feature at a time on a FRESH dataset; if
    ds[feat] changes while the same instance stays selected, the ingredient
    must be in the traced `uses` (else the tracer missed a read and the
    completeness theorem talks about the wrong table). Returns a list of
    problems."""
    import dclab
    from dclab.rtdc_dataset.feat_anc_core import AncillaryFeature
    from .translators import anc_trace
    warnings.simplefilter("ignore")
    row = SIDE["rows"][idx]
    regs = list(AncillaryFeature.features)
    if idx >= len(regs) or regs[idx].feature_name != row["name"]:
        return ["row %d: registry order differs from the traced table" % idx]
    inst = regs[idx]
    anc = set(r.feature_name for r in regs)
    try:
        base_feats = anc_trace.base_closure(row["req_feats"], anc, regs)
    except Exception as e:
        return ["row %d: %r" % (idx, e)]
    cfg0 = {}
    for sec, key in row["req_keys"]:
        cfg0[K_ID[(sec, key)]] = 3 if key == "emodulus lut" else 1
    if row["name"] == "ml_class":
        temps0 = {F_ID["ml_score_abc"]: 1, F_ID["ml_score_xyz"]: 1}
    else:
        temps0 = {}
    feat = row["name"]

    def build(cfg, temps):
        data = {f: innate_data(f) for f in base_feats} or \
            {"deform": innate_data("deform")}
        ds = dclab.new_dataset(data)
        for k, v in cfg.items():
            sec, key = ID_K[k]
            ds.config[sec][key] = cfg_value(k, v)
        for f, v in temps.items():
            dclab.set_temporary_feature(ds, ID_F[f], temp_data(ID_F[f], v))
        sel = AncillaryFeature.available_features(ds).get(feat)
        return ds, sel

    ds, sel = build(cfg0, temps0)
    if sel is not inst:
        return []        # shadowed by another instance in its minimal env
    code0, val0 = try_read(ds, feat)
    known = _closure_uses(row)
    problems = []
    changes = []
    for (sec, key), k in K_ID.items():
        c2 = dict(cfg0)
        c2[k] = 2 if k in cfg0 else 1
        changes.append((("cfg", sec, key), c2, temps0))
    for f in SENS_FEATS:
        if f in base_feats or f not in F_ID:
            continue
        t2 = dict(temps0)
        t2[F_ID[f]] = temps0.get(F_ID[f], 0) + 3
        changes.append((("feat", f), cfg0, t2))
    for ing, cfg, temps in changes:
        try:
            ds2, sel2 = build(cfg, temps)
        except Exception as e:
            problems.append("row %d (%s): cannot build with %s: %r" % (
                idx, feat, ing, e))
            continue
        if sel2 is not inst:
            continue
        code, val = try_read(ds2, feat)
        differs = code != code0 or (code == 0 and not same_value(val, val0))
        if differs and ing not in known:
            problems.append(
                "row %d (%s): ds[%r] depends on %s, which the traced table "
                "does not list among the ingredients the method reads" % (
                    idx, feat, feat, ing))
    return problems


def uses_sensitivity(run):
    import multiprocessing as mp
    ctx = mp.get_context("fork")
    n = len(SIDE["rows"])
    with ctx.Pool(min(common.NCPU, 12), initializer=_pool_init,
                  initargs=(SIDE, common.REPO)) as pool:
        res = pool.map(_sens_row, range(n), chunksize=1)
    for idx, problems in enumerate(res):
        run.corr_checked += 1
        run.count("uses-sensitivity-rows")
        for pr in problems:
            run.mismatch(dict(kind="uses-sensitivity", row=idx), "traced uses",
                         pr, what="tracer vs ds[feat]")


# --------------------------------------------------------------------------
def shrink(run, failure):
    case = failure["case"]
    if "ops" not in case:
        return failure
    target = None

    def fails(c):
        try:
            _f, fl, _n = run_impl(c, run.scratch)
        except Exception:
            return None
        for f in fl:
            if classify(c, f) is None:
                return f
        return None
    base = {k: v for k, v in case.items() if k != "failing_op"}
    if fails(base) is None:
        return failure
    ops = list(base["ops"])
    changed = True
    while changed:
        changed = False
        for i in range(len(ops)):
            cand = dict(base, ops=ops[:i] + ops[i + 1:])
            if fails(cand) is not None:
                ops = cand["ops"]
                changed = True
                break
    small = dict(base, ops=ops)
    target = fails(small)
    return dict(case=small, desc=target["desc"] + " state %s" % ctx_text(
        target["ctx"]), finding=None)


def search(run, broken):
    """proof / correspondence broken and the oracle quiet: larger sweep of
    the oracle on the implementation"""
    n = 4000 if run.thorough else 1000
    cases = emod_sweep_cases() + ctc_sweep_cases() + [
        gen_case(run.rng, True) for _ in range(n)]
    results = run_cases(run, cases)
    for c, res in zip(cases, results):
        if res[0] == "crash":
            continue
        for f in res[1]:
            if classify(c, f) is None:
                return shrink(run, dict(case=c, desc=f["desc"]))
    return None


def describe(case):
    out = []
    for tag, a, b in case["ops"]:
        if tag == 0:
            out.append("config[%s][%s] = %r" % (ID_K[a] + (cfg_value(a, b),)))
        elif tag == 1:
            out.append("del config[%s][%s]" % ID_K[a])
        elif tag == 2:
            out.append("set_temporary_feature(%s, version %d)" % (ID_F[a], b))
        elif tag == 3:
            out.append("ds[%r]" % ID_F[a])
        elif tag == 4:
            out.append("%r in ds" % ID_F[a])
        else:
            out.append("ds.features")
    return out


def replay(payload):
    case = payload.get("case")
    if case and case.get("kind") == "plugin-reload":
        class _R:
            findings, notes, fails = [], [], []

            def record_case(self, *a, **k):
                pass

            def count(self, *a, **k):
                pass

            def oracle_failure(self, case, desc, fid=None):
                self.fails.append(desc)
        r = _R()
        plugin_reload_check(r)
        for d in r.fails:
            print("FAILS:", d)
        if not r.fails:
            print("passes on the current tree")
        return 1 if r.fails else 0
    if not case or "ops" not in case:
        print("replay: nothing executable in this file (kind=%s): %s" % (
            payload.get("kind"), json.dumps(payload.get("broken"))[:2000]))
        return 1
    from .translators import anc_trace
    hold_registry_lock()
    side = anc_trace.generate(common.REPO)
    load_side(side)
    anc_trace.load_plugin(common.REPO)
    scratch = os.environ.get("VERIF_SCRATCH", "/var/tmp")
    case = {k: v for k, v in case.items() if k != "failing_op"}
    flat, fails, _ = run_impl(case, scratch)
    print("dataset:", case["fmt"], case["events"], "cfg0", case["cfg0"],
          "temps0", case["temps0"])
    for ln in describe(case):
        print("  ", ln)
    print("implementation codes:", flat)
    bad = [f for f in fails if classify(case, f) is None]
    for f in fails:
        print("FAILS" if classify(case, f) is None else
              "known finding %s" % classify(case, f), ":", f["desc"])
    if bad:
        return 1
    print("passes on the current tree (apart from listed known findings)")
    return 0
