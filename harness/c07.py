"""C07 — basin-provided features equal the origin's data for the mapped events.

A case is a small *pipeline*: a measurement (the ground truth, N events,
scalar / image / mask / contour / trace features), a list of steps each
creating one .rtdc file (hand-written files with `RTDCWriter.store_basin`:
origin, "same" referrers, mapped referrers, internal basins; filtered exports
`ds.export.hdf5(basins=True, filtered=True)` from files and from hierarchy
children), optionally moving all files together into another directory, and a
list of queries `(file, feature, index)`.

Property oracle (model independent): the harness keeps for every file the
list `omap` of origin events its events stand for (plain list arithmetic) and
demands  file[feature][index] == truth[feature][omap][index]  with numpy's
indexing semantics as the reference, features stored in the file winning
over basins.

Correspondence: Model/C07.v replays the same pipeline over lists of event
fingerprints (store_basin's slot allocation, export's map composition, the
proxy's three access routes with its cache, lookup order) and must produce
the same answers for every query.
"""
import json
import multiprocessing
import os
import shutil
import zlib

from . import common

PROP = "C07"
RULE = ("random pipelines of 1..6 files over a measurement of 1..40 events "
        "(sometimes re-chunked so that maps cross HDF5 chunk boundaries): "
        "origin, 'same' referrers, mapped referrers (subset, permutation, "
        "superset with repeats, identity, explicit basinmap names), internal "
        "basins, filtered exports from files and from hierarchy children of "
        "depth 1..2 (chains up to depth 4, with/without stored features, "
        "default feature list), copies (dclab-compress, dclab-repack, "
        "rtdc_copy of scalar features) of referrer files, 22% focus cases "
        "(non-monotone maps: permutations, repeats+skips, read by slice / "
        "mask / [:] / iteration / np.array on image, mask, contour, trace), "
        "unfiltered exports and empty selections, origin in the same / a "
        "sub- / a sibling directory, NaN/inf and an integer-typed scalar, "
        "optional move of all files to another "
        "directory; queries by integer (also negative / out of range), "
        "slices with positive and negative steps, np.int64, boolean and "
        "integer arrays, [:], iteration, np.array, np.array(dtype=int) in orders "
        "that exercise the cached and uncached routes; a case is non-trivial "
        "when at least one query is answered through a mapped basin with "
        "non-identity map; distinct = different JSON of the case")
TRUSTED_BASE = [
    "oracle: HDF5/h5py return the stored arrays; a feature object of a basin "
    "dataset indexed by an in-range integer returns that event",
    "oracle: path resolution (absolute, then relative to the referrer) and "
    "run-identifier verification select the file that was written as basin "
    "target (exercised by the harness incl. moving the files, not modelled)",
    "numpy indexing semantics (negative indices, slices with step, boolean "
    "and integer arrays) are the reference for both the oracle and the model",
    "the pipeline theorem is stated per step (export maps a consistent store "
    "to a consistent store; copy keeps lookups); that hand-written referrer "
    "files are consistent is the hypothesis store_sound, checked by the "
    "oracle on every generated file",
    "hierarchy children are an oracle here: child[f] = root[f] at "
    "map_indices_child2root (C04 covers them)",
    "not modelled: remote basins, Windows paths, ancillary features, order "
    "of basins with identical priority key (HDF5 key order), caches of "
    "nested proxies (only the outermost proxy's cache is modelled)",
]
ASSUMPTIONS = [
    "all basin maps stored in one file have the file's event count as length "
    "(numpy broadcasting of `==` in store_basin's reuse test is not modelled)",
    "basin maps are in range of the basin's event count (theorems and "
    "generator; the model returns an error for out-of-range entries but "
    "that behaviour is not compared)",
    "basins are acyclic: every basin refers to a file created earlier (C14 "
    "covers cycles)",
]

SCALARS = ["g_force", "pc1", "nevents"]
SCALAR_DTYPE = {"g_force": "float64", "pc1": "float64", "nevents": "uint32"}
FEAT_ID = {"g_force": 1, "pc1": 2, "nevents": 3, "image": 4,
           "mask": 5, "contour": 6, "trace/fl1_raw": 7, "trace/fl1_median": 8}
TRACES = ["fl1_raw", "fl1_median"]
F_HIER = "C07-hierarchy-export-basinmap"
F_PROXY = "C07-proxy-shape-trace-contour"
F_RAGGED = "C07-proxy-ragged-array"


# --------------------------------------------------------------------------
# ground truth
# --------------------------------------------------------------------------
def units_of(kinds):
    """feature units as used in step feature lists ('trace' is one unit)"""
    u = list(SCALARS)
    for k in ("image", "mask", "contour", "trace"):
        if k in kinds:
            u.append(k)
    return u


def expand(units):
    out = []
    for u in units:
        if u == "trace":
            out += ["trace/" + t for t in TRACES]
        else:
            out.append(u)
    return out


def truth_of(case):
    """dict feature name -> list (per event) of numpy values"""
    import random
    import numpy as np
    from . import gen
    rng = random.Random(case["seed"])
    n = case["n"]
    kinds = [k for k in case["kinds"] if k != "scalar"]
    raw = gen.random_features(rng, n, kinds=tuple(kinds))
    t = {}
    t[SCALARS[0]] = [np.float64(i * 0.5 + (case["seed"] % 8) / 8)
                     for i in range(n)]
    t[SCALARS[1]] = [np.float64(rng.randint(-40, 400) / 8) for _ in range(n)]
    t[SCALARS[2]] = [np.uint32(rng.randint(0, 3)) for _ in range(n)]
    if case.get("special"):
        # NaN / +-inf in a float feature (own random stream)
        rs = random.Random(case["seed"] + 1)
        for i in range(n):
            r = rs.random()
            if r < 0.2:
                t[SCALARS[1]][i] = np.float64("nan")
            elif r < 0.3:
                t[SCALARS[1]][i] = np.float64(
                    "inf" if rs.random() < .5 else "-inf")
    for k in ("image", "mask"):
        if k in raw:
            t[k] = [raw[k][i] for i in range(n)]
    if "contour" in raw:
        t["contour"] = list(raw["contour"])
    if "trace" in raw:
        for tr in TRACES:
            t["trace/" + tr] = [raw["trace"][tr][i] for i in range(n)]
    return t


def fp(feat, val, decoy=0):
    """fingerprint of one event's value: an integer"""
    import numpy as np
    if feat in SCALARS:
        v = float(val)
        if v != v:
            return 7000001
        if v == float("inf"):
            return 7000002
        if v == float("-inf"):
            return 7000003
        k = v * 8
        if k != int(k):
            raise ValueError("non-dyadic scalar %r" % (val,))
        return int(k)
    a = np.ascontiguousarray(np.asarray(val).astype(np.int64))
    return zlib.crc32(a.tobytes() + repr(a.shape).encode()) % 1000003


def decoy_value(feat, val):
    """a value different from the truth (for innate-precedence tests)"""
    import numpy as np
    if feat == "nevents":
        return np.uint32(int(val) + 1000)
    if feat in SCALARS:
        return np.float64(val + 1000)
    if feat == "mask":
        return ~np.asarray(val)
    if feat == "image":
        return np.asarray(255 - np.asarray(val), dtype=np.uint8)
    return np.asarray(val) + 1


# --------------------------------------------------------------------------
# building the files
# --------------------------------------------------------------------------
def _feature_data(unit, rows):
    """rows: dict name -> list of per-event values (already selected)"""
    import numpy as np
    if unit == "trace":
        return {tr: np.array(rows["trace/" + tr], dtype=np.int16).reshape(
            len(rows["trace/" + tr]), -1) for tr in TRACES}
    if unit == "contour":
        return list(rows[unit])
    if unit in SCALARS:
        return np.array(rows[unit], dtype=SCALAR_DTYPE[unit])
    return np.array(rows[unit])


def _rows(truth, unit, omap, decoy):
    names = expand([unit])
    rows = {}
    for nm in names:
        vals = [truth[nm][j] for j in omap]
        if decoy:
            vals = [decoy_value(nm, v) for v in vals]
        rows[nm] = vals
    return rows


def rechunk(path, c):
    """rewrite the datasets of a file with chunks of `c` events so that
    maps cross chunk boundaries"""
    import h5py
    import numpy as np
    with h5py.File(path, "a") as h5:
        ev = h5["events"]
        for name in list(ev.keys()):
            obj = ev[name]
            if isinstance(obj, h5py.Dataset) and obj.shape[0] > c:
                data = obj[:]
                attrs = dict(obj.attrs)
                del ev[name]
                ds = ev.create_dataset(name, data=data,
                                       chunks=(c,) + data.shape[1:])
                for k, v in attrs.items():
                    ds.attrs[k] = v
            elif name == "trace":
                for tr in list(obj.keys()):
                    if obj[tr].shape[0] > c:
                        data = np.array(obj[tr][:])
                        del obj[tr]
                        obj.create_dataset(tr, data=data,
                                           chunks=(c,) + data.shape[1:])


def build_files(case, d, truth):
    """Execute the steps with the real code. Returns list of file infos:
    dict(path, omap, innate (dict name->decoy flag), avail (set of names),
    err). The ground truth bookkeeping (omap, avail) is plain list
    arithmetic, independent of dclab and of the Coq model."""
    import numpy as np
    import dclab
    from dclab.rtdc_dataset.writer import RTDCWriter
    from . import gen
    files = []
    rid0 = "rid-%d" % case["seed"]
    with_fl = "trace" in case["kinds"]
    layout = case.get("layout")
    for k, st in enumerate(case["steps"]):
        op = st["op"]
        # directory of the file: exports and copies are written next to
        # their source; the origin may live in a sub- or sibling directory
        if op in ("export", "copy"):
            sub = files[st["src"]]["sub"]
        elif k == 0 and layout == "sub":
            sub = "sub"
        elif k == 0 and layout == "sibling":
            sub = "a"
        elif layout == "sibling":
            sub = "b"
        else:
            sub = ""
        os.makedirs(os.path.join(d, sub), exist_ok=True)
        path = os.path.join(d, sub, "f%d.rtdc" % k)
        info = dict(path=path, err=None, mapped=False, proxy=False,
                    cascade=False, sub=sub)
        try:
            srcs = [st["src"]] if op in ("export", "copy") else [
                b["src"] for b in st["basins"]]
            if any(files[j]["err"] for j in srcs):
                info["cascade"] = True
                raise ValueError("a source file could not be created")
            if any(files[j]["proxy"] for j in srcs):
                info["proxy"] = True
            if op == "export" or (op == "write" and any(
                    b.get("map") is not None for b in st["basins"])):
                info["proxy"] = True
            if op == "write":
                # hand-written file: innate features + store_basin calls
                if st["basins"]:
                    b0 = st["basins"][0]
                    if b0["kind"] == "internal":
                        src = files[b0["src"]]
                        base = [src["omap"][r] for r in b0["rows"]]
                        omap = [base[j] for j in b0["map"]]
                        rid = src["rid"] + "-i%d" % k
                    elif b0["map"] is None:
                        src = files[b0["src"]]
                        omap = list(src["omap"])
                        rid = src["rid"]
                    else:
                        src = files[b0["src"]]
                        omap = [src["omap"][j] for j in b0["map"]]
                        rid = src["rid"] + "-r%d" % k
                else:
                    omap = list(range(case["n"]))
                    rid = rid0
                meta = gen.base_meta(with_fl=with_fl, run_id=rid)
                innate = {}
                avail = set()
                via_file = set()
                via_int = set()
                with RTDCWriter(path, mode="append") as hw:
                    hw.store_metadata(meta)
                    for unit in st["feats"]:
                        dec = unit in st.get("decoy", [])
                        rows = _rows(truth, unit, omap, dec)
                        hw.store_feature(unit, _feature_data(unit, rows))
                        for nm in expand([unit]):
                            innate[nm] = dec
                            avail.add(nm)
                    for bi, b in enumerate(st["basins"]):
                        src = files[b["src"]]
                        if b["kind"] == "internal":
                            base = [src["omap"][r] for r in b["rows"]]
                            idata = {}
                            for unit in b["feats"]:
                                rows = _rows(truth, unit, base,
                                             bool(b.get("decoy")))
                                idata[unit] = _feature_data(unit, rows)
                            if b.get("decoy"):
                                info["decoyfeat"] = set(expand(b["feats"]))
                            hw.store_basin(
                                basin_name="int%d" % bi,
                                basin_type="internal",
                                basin_format="h5dataset",
                                basin_locs=["basin_events"],
                                basin_feats=list(b["feats"]),
                                basin_map=np.array(b["map"], dtype=np.uint64),
                                internal_data=idata)
                            avail |= set(expand(b["feats"]))
                            via_int |= set(expand(b["feats"]))
                            info["mapped"] = True
                            continue
                        bmap = None
                        if b["map"] is not None:
                            bmap = np.array(b["map"], dtype=np.uint64)
                            if b.get("name") is not None:
                                bmap = ("basinmap%d" % b["name"], bmap)
                            if b["map"] != list(range(len(src["omap"]))):
                                info["mapped"] = True
                        rel = os.path.relpath(src["path"],
                                              os.path.dirname(path))
                        locs = [src["path"], rel]
                        verify = bool(b.get("verify")) and ".." not in rel
                        if verify:
                            locs = [src["path"]]
                        hw.store_basin(
                            basin_name="b%d" % bi, basin_type="file",
                            basin_format="hdf5", basin_locs=locs,
                            basin_feats=(None if b["feats"] is None
                                         else list(b["feats"])),
                            basin_map=bmap, verify=verify)
                        if b["feats"] is None:
                            got = set(src["avail"])
                        else:
                            got = set(expand(b["feats"])) & src["avail"]
                        avail |= got
                        via_file |= got
                if st.get("rechunk"):
                    rechunk(path, st["rechunk"])
                info.update(omap=omap, innate=innate, avail=avail, rid=rid,
                            via_file=via_file, via_int=via_int)
            elif op == "export":
                src = files[st["src"]]
                idx = list(range(len(src["omap"])))
                with dclab.new_dataset(src["path"]) as ds0:
                    ds = ds0
                    for pf in st["pfilts"]:
                        ds.filter.manual[:] = np.array(pf, dtype=bool)
                        ds.apply_filter()
                        idx = [i for i, keep in zip(idx, pf) if keep]
                        ds = dclab.new_dataset(ds)
                    filtered = st.get("filtered", True)
                    if filtered:
                        filt = expand_filt(st["filt"])
                        ds.filter.manual[:] = np.array(filt, dtype=bool)
                        ds.apply_filter()
                        idx = [i for i, keep in zip(idx, filt) if keep]
                    feats = st["feats"]
                    ds.export.hdf5(path, features=feats, basins=True,
                                   filtered=filtered)
                omap = [src["omap"][i] for i in idx]
                innate = {}
                if not omap:
                    stored = []      # nothing is written for no events
                elif feats is None:
                    stored = [f for f in src["innate"]]
                else:
                    stored = expand(feats)
                for nm in stored:
                    innate[nm] = src["innate"].get(nm, False)
                import h5py
                with h5py.File(path, "r") as h5:
                    rid = h5.attrs["experiment:run identifier"]
                    if isinstance(rid, bytes):
                        rid = rid.decode("utf-8")
                got = set(src["avail"]) if omap else set()
                info.update(omap=omap, innate=innate,
                            via_file=got, via_int=set(),
                            avail=got | set(innate),
                            rid=rid, mapped=(
                                info["mapped"] or src["mapped"]
                                or idx != list(range(len(src["omap"])))))
                info["hier"] = bool(st["pfilts"])
            elif op == "copy":
                # compress / repack / rtdc_copy of a (referrer) file
                src = files[st["src"]]
                how = st["how"]
                if how == "compress":
                    from dclab.cli import compress
                    compress(path_in=src["path"], path_out=path)
                elif how == "repack":
                    from dclab.cli import repack
                    repack(path_in=src["path"], path_out=path)
                else:
                    import h5py
                    from dclab.rtdc_dataset import rtdc_copy
                    with h5py.File(src["path"]) as h5, \
                            h5py.File(path, "w") as hc:
                        rtdc_copy(src_h5file=h5, dst_h5file=hc,
                                  features="scalar")
                if how == "scalar":
                    keep = set(SCALARS)
                    innate = {k: v for k, v in src["innate"].items()
                              if k in keep}
                    avail = set(innate) | (src["via_int"] & keep) \
                        | src["via_file"]
                    via_int = src["via_int"] & keep
                else:
                    innate = dict(src["innate"])
                    avail = set(src["avail"])
                    via_int = set(src["via_int"])
                info.update(omap=list(src["omap"]), innate=innate,
                            avail=avail, rid=src["rid"],
                            mapped=src["mapped"], via_int=via_int,
                            via_file=set(src["via_file"]))
            else:
                raise ValueError("unknown op %r" % op)
        except BaseException as e:  # the step itself failed
            info["err"] = "%s: %s" % (type(e).__name__, str(e)[:200])
            info.setdefault("omap", [])
            info.setdefault("innate", {})
            info.setdefault("avail", set())
            info.setdefault("rid", "?")
            info.setdefault("via_file", set())
            info.setdefault("via_int", set())
        if not info["err"]:
            try:
                info["struct"] = check_basin_defs(path, info, files)
            except BaseException:
                # another file layout: no judgement from this check, but
                # the run counts it (and fails if it happens often)
                info["struct"] = None
                info["struct_skipped"] = True
            try:
                info["chain"] = chain_observation(case, k, path, files)
            except BaseException:
                info["chain"] = None
                info["struct_skipped"] = True
        files.append(info)
    return files


def chain_of(case, k):
    """filters of a chain of plain filtered file exports origin -> ... -> k
    (None if file k is not the end of such a chain)"""
    filts = []
    while True:
        st = case["steps"][k]
        if st["op"] != "export" or st["pfilts"] or \
                not st.get("filtered", True) or isinstance(st["filt"], dict):
            return None
        filts.insert(0, st["filt"])
        k = st["src"]
        if k == 0:
            return filts


def chain_observation(case, k, path, files):
    """(filters, raw map of the basin definition that points to the origin,
    origin events of the file) for ends of plain export chains"""
    import h5py
    filts = chain_of(case, k)
    if filts is None or not all(any(f) for f in filts):
        return None
    with h5py.File(path, "r") as h5:
        for key in h5["basins"]:
            lines = [ln.decode("utf-8") if isinstance(ln, bytes) else ln
                     for ln in h5["basins"][key][:]]
            bd = json.loads(" ".join(lines))
            if os.path.basename(bd["paths"][0]) == "f0.rtdc":
                m = [int(x) for x in h5["events"][bd["mapping"]][:]]
                return [filts, m]
    return None


def expand_filt(filt):
    """filters of big cases are stored compressed: {"len": n, "drop": [..]}"""
    if isinstance(filt, dict):
        out = [True] * filt["len"]
        for i in filt["drop"]:
            out[i] = False
        return out
    return filt


def check_basin_defs(path, info, files):
    """Raw h5py: every file-type basin definition of the file just written
    must refer to a map feature M with omap[target][M] == omap[file] (for
    "same": equal omaps). Independent of lookup order. Returns None or a
    description."""
    import h5py
    import numpy as np
    omap = np.array(info["omap"], dtype=np.int64)
    with h5py.File(path, "r") as h5:
        if "basins" not in h5:
            return None
        for key in h5["basins"]:
            lines = [ln.decode("utf-8") if isinstance(ln, bytes) else ln
                     for ln in h5["basins"][key][:]]
            bd = json.loads(" ".join(lines))
            if bd.get("type") != "file":
                continue
            name = os.path.basename(bd["paths"][0])
            if not (name.startswith("f") and name.endswith(".rtdc")):
                continue
            tgt = files[int(name[1:-5])]
            tomap = np.array(tgt["omap"], dtype=np.int64)
            mapping = bd.get("mapping", "same")
            if mapping == "same":
                ok = tomap.shape == omap.shape and bool(np.all(tomap == omap))
                got = "same"
            else:
                m = np.array(h5["events"][mapping][:], dtype=np.int64)
                got = "%s=%s..." % (mapping, m[:6].tolist())
                ok = (m.shape == omap.shape and
                      (m.size == 0 or (m.min() >= 0 and m.max() < tomap.size
                                       and bool(np.all(tomap[m] == omap)))))
            if not ok:
                return ("basin definition '%s' -> %s uses mapping %s which "
                        "does not lead to the origin events of the file "
                        "(%s...)" % (bd.get("name"), name, got,
                                     omap[:6].tolist()))
    return None


# --------------------------------------------------------------------------
# queries
# --------------------------------------------------------------------------
def py_index(ix):
    import numpy as np
    t = ix[0]
    if t == "int":
        return ix[1]
    if t == "npint":
        return np.int64(ix[1])
    if t == "slice":
        return slice(ix[1], ix[2], ix[3])
    if t == "bool":
        return np.array(ix[1], dtype=bool)
    if t == "arr":
        return np.array(ix[1], dtype=np.int64)
    if t in ("all", "iter", "array", "cast", "max", "min", "mean"):
        return slice(None)
    raise ValueError(ix)


def expected(truth, info, feat, ix):
    """(status, fingerprints): 0 single event, 1 list of events,
    2 IndexError, 3 KeyError (feature not available)"""
    import numpy as np
    if feat not in info["avail"]:
        return 3, []
    omap = info["omap"]
    try:
        pos = np.arange(len(omap))[py_index(ix)]
    except (IndexError, ValueError):
        return 2, []
    dec = info["innate"].get(feat, False) or (
        feat not in info["innate"] and feat in info.get("decoyfeat", ()))

    def val(j):
        v = truth[feat][j]
        return fp(feat, decoy_value(feat, v) if dec else v)
    if ix[0] == "npint":
        pos = np.asarray(pos)
    if np.ndim(pos) == 0:
        return 0, [val(omap[int(pos)])]
    if ix[0] in ("max", "min", "mean"):
        vals = [val(omap[int(p)]) for p in pos]
        if not vals:
            return 2, []
        if ix[0] == "mean":
            return 1, []
        return 0, [max(vals) if ix[0] == "max" else min(vals)]
    if ix[0] == "cast" and feat in SCALARS:
        # np.array(obj, dtype=int): truncation towards zero
        import math
        return 1, [math.trunc(val(omap[int(p)]) / 8) * 8 for p in pos]
    return 1, [val(omap[int(p)]) for p in pos]


def observe(ds, feat, ix):
    import numpy as np
    try:
        if feat.startswith("trace/"):
            obj = ds["trace"][feat.split("/")[1]]
        else:
            obj = ds[feat]
    except BaseException as e:
        # the property does not fix the exception class
        return 3, [], "%s: %s" % (type(e).__name__, str(e)[:160])
    try:
        if ix[0] == "iter":
            # iteration over the feature object
            res = [v for v in obj]
        elif ix[0] in ("max", "min"):
            # summaries of the (mapped) feature
            return 0, [fp(feat, getattr(obj, ix[0])())], None
        elif ix[0] == "mean":
            return 1, [], "mean=%r" % float(obj.mean())
        elif ix[0] == "cast" and feat not in SCALARS:
            # a requested dtype must be honoured, the values stay
            res = np.array(obj, dtype=np.float32)
            if res.dtype != np.float32:
                return 2, [], "np.array(dtype=float32) returned %s" % res.dtype
        elif ix[0] == "cast":
            # conversion with a lossy dtype; later reads must not see it
            res = np.array(obj, dtype=np.int64)
        elif ix[0] == "array":
            # conversion with numpy (ragged features: array of objects)
            if feat == "contour":
                res = np.array(obj, dtype=object)
            else:
                res = np.asarray(obj)
            if len(res.shape) < 1 or res.shape[0] != len(obj):
                raise ValueError("np.array returned shape %r" % (res.shape,))
        else:
            res = obj[py_index(ix)]
    except BaseException as e:
        # any exception: the property does not fix the class
        return 2, [], "%s: %s" % (type(e).__name__, str(e)[:160])
    try:
        if ix[0] in ("int", "npint"):
            return 0, [fp(feat, res)], "dtype=" + np.asarray(res).dtype.name
        dt = np.asarray(res[0]).dtype.name if len(res) else None
        if hasattr(res, "dtype") and res.dtype != object:
            dt = res.dtype.name
        if (ix[0] == "array" and feat == "contour") or ix[0] == "cast":
            dt = None        # array of objects / requested dtype
        return 1, [fp(feat, res[i]) for i in range(len(res))], \
            ("dtype=" + dt if dt else None)
    except BaseException as e:
        return 2, [], "result unusable: %s: %s" % (type(e).__name__,
                                                  str(e)[:160])


def write_foreign(path, case, truth):
    """a dataset of another measurement (other run identifier, other data)
    with the features of the origin"""
    from dclab.rtdc_dataset.writer import RTDCWriter
    from . import gen
    meta = gen.base_meta(with_fl="trace" in case["kinds"],
                         run_id="foreign-%d" % case["seed"])
    with RTDCWriter(path, mode="append") as hw:
        hw.store_metadata(meta)
        for unit in case["steps"][0]["feats"]:
            rows = _rows(truth, unit, list(range(case["n"])), True)
            hw.store_feature(unit, _feature_data(unit, rows))


def ref_dtype(ds0, feat, cache):
    """dtype name of one event of the origin's feature"""
    import numpy as np
    if feat not in cache:
        try:
            if feat.startswith("trace/"):
                obj = ds0["trace"][feat.split("/")[1]]
            else:
                obj = ds0[feat]
            cache[feat] = np.asarray(obj[0]).dtype.name
        except BaseException:
            cache[feat] = None
    return cache[feat]


def run_case(args):
    """Worker: returns dict(flat=[...], fails=[(desc, finding)], nontrivial,
    stats)"""
    case, scratch = args
    import warnings
    warnings.simplefilter("ignore")
    if case.get("kind") == "bigmap":
        return run_bigmap(case, scratch)
    import dclab
    d = os.path.join(scratch, "case")
    shutil.rmtree(d, ignore_errors=True)
    os.makedirs(d)
    fails = []
    flat = []
    nontrivial = False
    stats = {}
    try:
        truth = truth_of(case)
        files = build_files(case, d, truth)
        for k, info in enumerate(files):
            if info["err"] and not info["cascade"]:
                fails.append(("step %d (%s) failed: %s" % (
                    k, case["steps"][k]["op"], info["err"]),
                    classify_step(case, k, info["err"])))
            if info.get("struct"):
                stp = case["steps"][k]
                fid = F_HIER if (stp["op"] == "export" and stp["pfilts"]
                                 and _upstream_has_basins(case, stp["src"])
                                 ) else None
                fails.append(("file %d: %s" % (k, info["struct"]), fid))
        if case.get("move"):
            d2 = d + "-moved"
            shutil.rmtree(d2, ignore_errors=True)
            os.rename(d, d2)
            old0 = files[0]["path"]
            for info in files:
                info["path"] = os.path.join(d2, info["sub"],
                                            os.path.basename(info["path"]))
            if case["move"] == "stale" and not files[0]["err"]:
                # a stale copy of the origin stays at the old absolute path
                os.makedirs(os.path.dirname(old0), exist_ok=True)
                shutil.copy(files[0]["path"], old0)
            elif case["move"] == "foreign" and not files[0]["err"]:
                # another measurement now lives at the old absolute path
                os.makedirs(os.path.dirname(old0), exist_ok=True)
                write_foreign(old0, case, truth)
            d = d2
        opened = {}
        refdt = {}
        found = []
        try:
            for q in case["queries"]:
                fid, feat, ix = q
                info = files[fid]
                if info["err"]:
                    flat.append([5])
                    continue
                if fid not in opened:
                    opened[fid] = dclab.new_dataset(info["path"])
                ds = opened[fid]
                st, vals, msg = observe(ds, feat, ix)
                est, evals = expected(truth, info, feat, ix)
                flat.append([st] + vals)
                if st == 1 and msg and msg.startswith("mean=") and \
                        est == 1:
                    import numpy as np
                    want = float(np.nanmean([
                        (float(decoy_value(feat, truth[feat][j]))
                         if (info["innate"].get(feat) or (
                             feat not in info["innate"] and
                             feat in info.get("decoyfeat", ())))
                         else float(truth[feat][j])) for j in info["omap"]]))
                    got = float(msg[5:])
                    if not abs(got - want) <= 1e-9 * max(1.0, abs(want)):
                        fails.append((
                            "file %d feature %s: mean() = %r, the origin "
                            "events %s have mean %r" % (
                                fid, feat, got, info["omap"][:8], want),
                            None))
                    msg = None
                if st in (0, 1) and msg and msg.startswith("dtype=") and \
                        feat in SCALARS:
                    msg = None       # value equality is all the text asks
                if st in (0, 1) and msg and msg.startswith("dtype="):
                    # dtype of what is handed out = dtype of the origin's
                    # feature (the fingerprints compare values only)
                    if fid != 0 and (0 not in opened):
                        opened[0] = dclab.new_dataset(files[0]["path"])
                    want = ref_dtype(opened.get(0, ds), feat, refdt)
                    if want and msg[6:] != want:
                        fails.append((
                            "file %d feature %s index %s: dtype %s, the "
                            "origin's feature has dtype %s" % (
                                fid, feat, json.dumps(ix), msg[6:], want),
                            None))
                    msg = None
                if (st, vals) != (est, evals):
                    desc = ("file %d feature %s index %s: got status %d %s%s, "
                            "the origin events %s give status %d %s" % (
                                fid, feat, json.dumps(ix), st, vals[:6],
                                (" (" + msg + ")") if msg else "",
                                info["omap"][:8], est, evals[:6]))
                    fails.append((desc, classify_query(case, files, q, st,
                                                       msg)))
                elif st in (0, 1) and info["mapped"] and \
                        feat not in info["innate"]:
                    nontrivial = True
            # which stored location the basins were found at (0: the absolute
            # path, 1: the path relative to the referrer)
            import pathlib
            for fid, ds in list(opened.items()):
                try:
                    used = set(str(bn.location) for bn in ds.basins
                               if bn.basin_type == "file")
                    for bd in ds.basins_get_dicts():
                        if bd.get("type") != "file" or \
                                len(bd.get("paths", [])) != 2:
                            continue
                        pabs = bd["paths"][0]
                        prel = str(pathlib.Path(ds.path).parent
                                   / pathlib.Path(bd["paths"][1]))
                        if not os.path.exists(pabs):
                            sabs = 0
                        elif case.get("move") == "foreign" and \
                                os.path.basename(pabs) == "f0.rtdc":
                            sabs = 1
                        else:
                            sabs = 2
                        srel = 2 if os.path.exists(prel) else 0
                        obs = 0 if pabs in used else (1 if prel in used
                                                      else -1)
                        found.append([sabs, srel, obs])
                except BaseException:
                    stats["found_err"] = stats.get("found_err", 0) + 1
        finally:
            for ds in opened.values():
                try:
                    ds.close()
                except BaseException:
                    pass
        stats["files"] = len(files)
        stats["found"] = sorted(set(tuple(x) for x in found))
        stats["struct_skipped"] = sum(1 for i in files
                                      if i.get("struct_skipped"))
        stats["chains"] = [[k] + info["chain"] + [info["omap"]]
                           for k, info in enumerate(files)
                           if info.get("chain")]
    except BaseException as e:
        import traceback
        fails.append(("harness error: %s" % traceback.format_exc()[-600:],
                      None))
    finally:
        shutil.rmtree(d, ignore_errors=True)
    return dict(flat=flat, fails=fails, nontrivial=nontrivial, stats=stats)


# --------------------------------------------------------------------------
# large-index family: store_basin's reuse test on maps with large entries
# --------------------------------------------------------------------------
def bigmap_arrays(case):
    import numpy as np
    base = np.arange(case["L"], dtype=np.int64) + case["off"]
    maps = []
    for diffs, _name in case["maps"]:
        m = base.copy()
        for pos, delta in diffs:
            m[pos] += delta
        maps.append(m.astype(np.uint64))
    return maps


def checksum(m):
    acc = 0
    for x in m:
        acc = (acc * 31 + int(x)) % 1000003
    return acc


def run_bigmap(case, scratch):
    """store_basin with maps that are equal except for small differences at
    large entries. Observation (raw h5py): the basinmap feature every basin
    definition refers to, and the content of every basinmap feature."""
    import h5py
    import numpy as np
    from dclab.rtdc_dataset.writer import RTDCWriter
    from . import gen
    d = os.path.join(scratch, "big")
    shutil.rmtree(d, ignore_errors=True)
    os.makedirs(d)
    path = os.path.join(d, "ref.rtdc")
    fails = []
    flat = []
    try:
        maps = bigmap_arrays(case)
        failed = False
        with RTDCWriter(path, mode="append") as hw:
            hw.store_metadata(gen.base_meta(run_id="rid-big-x"))
            try:
                for j, (m, (_d, name)) in enumerate(zip(maps, case["maps"])):
                    bm = m if name is None else ("basinmap%d" % name, m)
                    hw.store_basin(basin_name="b%d" % j, basin_type="file",
                                   basin_format="hdf5",
                                   basin_locs=["/nonexistent/origin.rtdc"],
                                   basin_map=bm, verify=False)
            except ValueError:
                failed = True
        if failed:
            flat = [-1]
        else:
            with h5py.File(path, "r") as h5:
                slot_of = {}
                for key in h5["basins"]:
                    lines = [ln.decode("utf-8") if isinstance(ln, bytes)
                             else ln for ln in h5["basins"][key][:]]
                    bd = json.loads(" ".join(lines))
                    slot_of[int(bd["name"][1:])] = bd["mapping"]
                for j, m in enumerate(maps):
                    mp = slot_of.get(j)
                    if mp is None or not mp.startswith("basinmap"):
                        flat.append(-2)
                        fails.append(("basin b%d has mapping %r" % (j, mp),
                                      None))
                        continue
                    stored = h5["events"][mp][:]
                    flat += [int(stored.size), checksum(stored)]
                    if stored.shape != m.shape or \
                            not bool(np.all(stored == m)):
                        bad = np.nonzero(stored != m)[0][:3] \
                            if stored.shape == m.shape else []
                        fails.append((
                            "basin b%d was given a map that differs from "
                            "the other maps only at %s; store_basin bound "
                            "it to %s which holds a different map (first "
                            "differences at %s: stored %s, requested %s)"
                            % (j, case["maps"][j][0][:3], mp,
                               [int(b) for b in bad],
                               [int(stored[b]) for b in bad],
                               [int(m[b]) for b in bad]), None))
    except BaseException:
        import traceback
        fails.append(("harness error: %s" % traceback.format_exc()[-600:],
                      None))
    finally:
        shutil.rmtree(d, ignore_errors=True)
    return dict(flat=flat, fails=fails, nontrivial=len(case["maps"]) > 1,
                stats={})


def gen_bigmap(rng, huge=False):
    """maps of equal length whose entries are large (index >= 1e5) and that
    are equal except for differences of 1..3 at a few positions; identical
    maps exercise the reuse"""
    if huge:
        # 131072 = events per chunk of a stored uint64 map
        L = rng.choice([100000 + rng.randint(1, 50), 131071, 131072, 131073,
                        131073] + ([262145] if huge == "thorough" else []))
        off = rng.choice([0, 0, 200000])
    else:
        L = rng.randint(3, 60)
        off = rng.choice([100000, 150000, 250000, 400000, 1000000])
    nmaps = rng.choice([2, 3, 3, 4, 5])
    if rng.random() < 0.06:
        nmaps = 11             # exhausts basinmap0..9
    variants = [[]]
    maps = []
    for _ in range(nmaps):
        r = rng.random()
        if r < 0.3 and nmaps < 11:
            diffs = rng.choice(variants)          # identical to an earlier one
        else:
            npos = rng.randint(1, 3)
            lo = L - 40 if huge else 0            # values >= 1e5 there
            diffs = sorted(
                [rng.randrange(max(0, lo), L), rng.choice([1, 1, 2, 3, -1])]
                for _ in range(npos))
            diffs = [d for i, d in enumerate(diffs)
                     if i == 0 or diffs[i - 1][0] != d[0]]
            if huge and off == 0 and rng.random() < 0.3:
                diffs = [[rng.randrange(0, 50000), 1]]   # small index
            variants.append(diffs)
        name = rng.randint(0, 9) if rng.random() < 0.08 else None
        maps.append([diffs, name])
    return dict(kind="bigmap", L=L, off=off, maps=maps)


def gen_bigchain(rng):
    """depth-2 filtered export chain over ~1.2e5..1.5e5 events in which the
    filters only drop high-index events (oracle only, too big for the
    model)"""
    n = rng.choice([120000, 150000])
    d1 = sorted(rng.sample(range(100001, n), rng.randint(1, 2)))
    n1 = n - len(d1)
    d2 = sorted(rng.sample(range(100001, n1), rng.randint(0, 1)))
    n2 = n1 - len(d2)
    steps = [dict(op="write", feats=list(SCALARS), basins=[], rechunk=None),
             dict(op="export", src=0, pfilts=[],
                  filt=dict(len=n, drop=d1), feats=[]),
             dict(op="export", src=1, pfilts=[],
                  filt=dict(len=n1, drop=d2), feats=[])]
    qs = []
    for fid, m in ((1, n1), (2, n2)):
        qs += [[fid, "g_force", ["int", -1]],
               [fid, "pc1", ["int", d1[0]]],
               [fid, "g_force", ["slice", d1[0] - 2, d1[0] + 3, None]],
               [fid, "pc2", ["int", m - 1]]]
    return dict(seed=rng.randrange(10 ** 6), n=n, kinds=["scalar"],
                steps=steps, move=False, queries=qs, nomodel=True)


def render_big(case):
    ms = []
    for diffs, name in case["maps"]:
        ms.append("(%s, %s)" % (
            common.clist(["(%d, %s)" % (p, common.zlit(d))
                          for p, d in diffs]),
            "(@None Z)" if name is None else "(Some %s)" % common.zlit(name)))
    return "(%d, %d, %s)" % (case["L"], case["off"], common.clist(ms))


# --------------------------------------------------------------------------
# matchers of the known defect classes (so that anything else is reported)
# --------------------------------------------------------------------------
def _upstream_has_basins(case, fid):
    st = case["steps"][fid]
    if st["op"] == "write":
        return any(b["kind"] == "file" for b in st["basins"])
    if st["op"] == "copy":
        return _upstream_has_basins(case, st["src"])
    return True     # an exported file always has at least one basin


def classify_step(case, k, err):
    st = case["steps"][k]
    if st["op"] != "export":
        return None
    if st["pfilts"] and _upstream_has_basins(case, st["src"]) and \
            err.startswith("IndexError: boolean index did not match"):
        # root-indexed map masked with the child's filter
        return F_HIER
    if ("trace" in case["kinds"] or "contour" in case["kinds"]) and \
            st["feats"] != []:
        # storing trace/contour that come through a mapped basin
        for pat in ("BasinProxyFeature", "H5TraceEvent",
                    "'float' object cannot be interpreted",
                    "valid indices", "Accessing a group is done with",
                    "Can't broadcast"):
            if pat in err:
                return F_PROXY
    return None


def classify_query(case, files, q, st, msg):
    """Recognise exactly the two defect classes found for C07."""
    fid, feat, ix = q
    info = files[fid]
    if feat in info["innate"]:
        # (c) a non-scalar feature that the source only had through a mapped
        # basin, stored by an export whose filter keeps every event (fast
        # path): the proxy reported the basin's length as its shape
        stp = case["steps"][fid]
        if stp["op"] == "export" and stp.get("filtered", True) and \
                all(expand_filt(stp["filt"])) and \
                feat not in SCALARS and files[stp["src"]]["proxy"] and \
                feat not in files[stp["src"]]["innate"]:
            return F_PROXY
        return None
    # (a) trace / sliced contour through a *mapped* basin raises
    other = st in (2, 3) and msg and not msg.startswith("IndexError") \
        and not msg.startswith("KeyError")
    if other and info["proxy"] and feat == "contour" and ix[0] == "array":
        return F_RAGGED
    if other and info["proxy"]:
        if feat.startswith("trace/"):
            return F_PROXY
        if feat == "contour" and ix[0] != "int":
            return F_PROXY
    # (b) wrong events in a file exported from a hierarchy child whose root
    # has basins of its own (directly or further up the chain)
    k = fid
    while True:
        stp = case["steps"][k]
        if stp["op"] == "copy":
            k = stp["src"]
            continue
        if stp["op"] != "export":
            return None
        if stp["pfilts"] and _upstream_has_basins(case, stp["src"]) \
                and st in (0, 1, 2) and not other:
            return F_HIER
        k = stp["src"]


# --------------------------------------------------------------------------
# generator
# --------------------------------------------------------------------------
def gen_filter(rng, n):
    r = rng.random()
    if n == 0:
        return []
    if r < 0.12:
        return [True] * n
    if r < 0.18:
        f = [False] * n
        f[rng.randrange(n)] = True
        return f
    p = rng.choice([0.3, 0.5, 0.8])
    f = [rng.random() < p for _ in range(n)]
    if not any(f):
        f[rng.randrange(n)] = True
    return f


def gen_map(rng, n, rechunk=None):
    """mapping array into a basin with n events"""
    r = rng.random()
    if n == 0:
        return []
    if r < 0.12:
        return list(range(n))                                   # identity
    if r < 0.3:
        return sorted(rng.sample(range(n), rng.randint(1, n)))  # subset
    if r < 0.45:
        m = list(range(n))                                      # permutation
        rng.shuffle(m)
        return m
    if r < 0.65:                                   # superset with repeats
        return sorted(rng.randrange(n) for _ in range(n + rng.randint(1, 6)))
    if r < 0.75 and rechunk and n > rechunk:       # around chunk boundaries
        m = []
        for c in range(rechunk, n, rechunk):
            m += [c - 1, c, c, min(n - 1, c + 1), c - 1]
        rng.shuffle(m)
        return m
    return [rng.randrange(n) for _ in range(rng.randint(1, n + 4))]


def gen_index(rng, n, free=True):
    """free=False: the index reaches an h5py dataset directly (feature stored
    in the file or unmapped basin); h5py only accepts increasing index lists
    and boolean masks of the right length, so only those are generated."""
    r = rng.random()
    if r < 0.25:
        if n and (not free or rng.random() < 0.85):
            return [rng.choice(["int", "int", "npint"]), rng.randrange(-n, n)]
        if not free:
            return ["all"]
        return ["int", rng.choice([n, -n - 1, n + 3])]
    if r < 0.36:
        return ["all"]
    if r < 0.40:
        return ["iter"]
    if r < 0.44:
        return ["array"]
    if r < 0.62:
        def end():
            return rng.choice([None, rng.randint(-n - 2, n + 2)])
        steps = [None, 1, 1, 2, 3] + ([-1, -1, -2, -3] if free else [])
        return ["slice", end(), end(), rng.choice(steps)]
    if r < 0.8:
        if free and rng.random() < 0.07:
            return ["bool", [rng.random() < .5 for _ in range(n + 1)]]
        return ["bool", [rng.random() < .5 for _ in range(n)]]
    if n == 0:
        return ["arr", []]
    if not free:
        return ["arr", sorted(rng.sample(range(n), rng.randint(0, n)))]
    return ["arr", [rng.randrange(-n, n) for _ in range(rng.randint(0, n + 2))]]


def sub(rng, xs, pmin=0):
    xs = list(xs)
    k = rng.randint(pmin, len(xs))
    return sorted(rng.sample(xs, k), key=xs.index)


def gen_nonmonotone(rng, n):
    """permutation, or repeats + skips in non-monotone order; the set of
    indices is often contiguous"""
    r = rng.random()
    if r < 0.35 and n >= 4:
        # first and last entry span exactly len(m) events, the interior is
        # shuffled or has repeats (looks like a contiguous block from its
        # length and end points)
        lo = rng.randrange(0, n - 3)
        hi = rng.randrange(lo + 3, n)
        inner = list(range(lo + 1, hi))
        if rng.random() < 0.5:
            while len(inner) > 1 and inner == sorted(inner):
                rng.shuffle(inner)
        else:
            inner = [rng.randint(lo, hi) for _ in inner]
        m = [lo] + inner + [hi]
        if m == sorted(set(m)):
            m[1], m[-2] = m[-2], m[1]
        return m
    if r < 0.6:
        m = list(range(n))
        while n > 1 and m == sorted(m):
            rng.shuffle(m)
        return m
    if r < 0.75:
        lo = rng.randrange(n)
        hi = rng.randrange(lo, n)
        m = list(range(lo, hi + 1))
        m += [rng.randint(lo, hi) for _ in range(rng.randint(0, 3))]
        rng.shuffle(m)
        if len(m) > 1 and m == sorted(m):
            m.reverse()
        return m
    m = [rng.randrange(n) for _ in range(rng.randint(2, n + 3))]
    if m == sorted(m):
        m.reverse()
    return m


def gen_focus_case(rng):
    """A mapped referrer with a non-monotone map (optionally exported once
    more, from the file or a hierarchy child) whose image / mask / trace /
    contour are read by slices, masks, arrays, [:], iteration, np.array."""
    seed = rng.randrange(10 ** 6)
    n = rng.choice([3, 4, 5, 8, 13])
    kinds = ["scalar"] + sub(rng, ["image", "mask", "contour", "trace"], 2)
    units = units_of(kinds)
    rc = rng.choice([None, 2, 3]) if n > 3 else None
    steps = [dict(op="write", feats=list(units), basins=[], rechunk=rc)]
    m = gen_nonmonotone(rng, n)
    steps.append(dict(op="write", feats=[], basins=[dict(
        kind="file", src=0, map=m, feats=None, name=None, verify=False)],
        decoy=[]))
    sizes = [n, len(m)]
    r = rng.random()
    if r < 0.3:
        filt = gen_filter(rng, len(m))
        steps.append(dict(op="export", src=1, pfilts=[], filt=filt, feats=[]))
        sizes.append(sum(filt))
    elif r < 0.5:
        pf = gen_filter(rng, len(m))
        filt = gen_filter(rng, sum(pf))
        steps.append(dict(op="export", src=1, pfilts=[pf], filt=filt,
                          feats=[]))
        sizes.append(sum(filt))
    elif r < 0.6:
        steps.append(dict(op="copy", src=1, how=rng.choice(
            ["compress", "repack"])))
        sizes.append(len(m))
    names = [nm for nm in expand(units) if nm not in SCALARS]
    queries = []
    for fid in range(1, len(steps)):
        ns = sizes[fid]
        for _ in range(rng.randint(4, 7)):
            feat = rng.choice(names)
            r = rng.random()
            if r < 0.3:
                ix = ["all"]
            elif r < 0.55:
                ix = ["slice", rng.choice([None, 0, 1]),
                      rng.choice([None, ns, ns - 1, -1]),
                      rng.choice([None, 1, 2])]
            elif r < 0.75:
                ix = ["bool", [rng.random() < .7 for _ in range(ns)]]
            elif r < 0.85:
                ix = ["arr", [rng.randrange(-ns, ns) for _ in range(
                    rng.randint(1, ns + 1))]] if ns else ["all"]
            elif r < 0.93:
                ix = ["iter"]
            else:
                ix = ["array"]
            queries.append([fid, feat, ix])
    return dict(seed=seed, n=n, kinds=kinds, steps=steps,
                move=rng.choice([False, False, False, True, "foreign"]),
                queries=queries)


def _some_queries(rng, fid, names, ns, k):
    qs = []
    for _ in range(k):
        feat = rng.choice(names)
        for ix in [gen_index(rng, ns, True)
                   for _ in range(rng.randint(1, 2))]:
            qs.append([fid, feat, ix])
    return qs


def gen_missing_case(rng):
    """A referrer whose first basin (in lookup order) lists features that its
    file does not have; the second basin, the origin itself, has them."""
    seed = rng.randrange(10 ** 6)
    n = rng.choice([2, 3, 5, 8])
    kinds = ["scalar"] + sub(rng, ["image", "mask", "trace"], 1)
    units = units_of(kinds)
    has = sub(rng, units[1:], 0)[:2]          # what file 1 can really read
    steps = [dict(op="write", feats=list(units), basins=[], rechunk=None),
             dict(op="write", feats=[SCALARS[0]], basins=[dict(
                 kind="file", src=0, map=None, feats=list(has) or [SCALARS[0]],
                 verify=False)])]
    m = gen_map(rng, n)
    steps.append(dict(op="write", feats=[], decoy=[], basins=[
        dict(kind="file", src=1, map=m, feats=list(units), name=2,
             verify=False),
        dict(kind="file", src=0, map=m, feats=None, name=5, verify=False)]))
    lacking = [nm for nm in expand(units)
               if nm not in expand(has) and nm != SCALARS[0]]
    names = lacking or expand(units)
    return dict(seed=seed, n=n, kinds=kinds, steps=steps,
                move=rng.choice([False, False, True]),
                queries=_some_queries(rng, 2, names, len(m), 5)
                + _some_queries(rng, 2, expand(units), len(m), 2))


def gen_disagree_case(rng):
    """An internal basin and a file basin offer the same features with
    different data: internal basins come first in the lookup order."""
    seed = rng.randrange(10 ** 6)
    n = rng.choice([2, 3, 5, 8])
    kinds = ["scalar"] + sub(rng, ["image"], 0)
    units = units_of(kinds)
    rows = [rng.randrange(n) for _ in range(rng.randint(1, n))]
    m = [rng.randrange(len(rows)) for _ in range(rng.randint(1, n + 2))]
    ifeats = sub(rng, [u for u in units if u in SCALARS + ["image"]], 1)
    steps = [dict(op="write", feats=list(units), basins=[], rechunk=None),
             dict(op="write", feats=[], basins=[
                 dict(kind="internal", src=0, rows=rows, map=m, feats=ifeats,
                      decoy=True),
                 dict(kind="file", src=0, map=[rows[j] for j in m],
                      feats=None, name=None, verify=False)])]
    return dict(seed=seed, n=n, kinds=kinds, steps=steps, move=False,
                queries=_some_queries(rng, 1, expand(ifeats), len(m), 4)
                + _some_queries(rng, 1, expand(units), len(m), 3))


def gen_case(rng, thorough=False):
    r0 = rng.random()
    if r0 < 0.28:
        return gen_focus_case(rng)
    if r0 < 0.33:
        return gen_missing_case(rng)
    if r0 < 0.38:
        return gen_disagree_case(rng)
    seed = rng.randrange(10 ** 6)
    big = rng.random() < (0.15 if thorough else 0.08)
    n = rng.choice([1, 2, 3, 5, 8, 13, 21]) if not big else rng.choice(
        [33, 40])
    r = rng.random()
    if r < 0.35:
        kinds = ["scalar"]
    elif r < 0.7:
        kinds = ["scalar"] + sub(rng, ["image", "mask", "contour", "trace"], 1)
    else:
        kinds = ["scalar", "image", "mask", "contour", "trace"]
    units = units_of(kinds)
    steps = []
    sizes = []          # events per file
    leaf = []           # files that must not be used as a source (decoys)
    avail = []          # units readable from the file
    innate = []         # units stored in the file
    free = []           # True: features not stored go through a mapped proxy
    vfile = []          # units readable through file basins
    vint = []           # units readable through internal basins
    ident = []          # the file's events are exactly the origin's
    rc = rng.choice([None, None, 2, 3, 7]) if n > 3 else None
    steps.append(dict(op="write", feats=list(units), basins=[], rechunk=rc))
    sizes.append(n)
    leaf.append(False)
    avail.append(list(units))
    innate.append(list(units))
    free.append(False)
    vfile.append([])
    vint.append([])
    ident.append(True)
    nsteps = rng.randint(1, 6 if thorough else 5)
    for _ in range(nsteps):
        # events of file i identical to the origin's?
        while len(ident) < len(steps):
            stp = steps[len(ident)]
            if stp["op"] == "copy":
                ident.append(ident[stp["src"]])
            elif stp["op"] == "export":
                ident.append(ident[stp["src"]] and not stp["pfilts"] and (
                    not stp.get("filtered", True) or all(stp["filt"])))
            else:
                b0 = stp["basins"][0] if stp["basins"] else None
                ident.append(b0 is not None and b0["kind"] == "file" and
                             b0["map"] is None and ident[b0["src"]])
        k = len(steps)
        cands = [i for i in range(k) if not leaf[i]]
        src = cands[-1] if rng.random() < 0.65 else rng.choice(cands)
        ns = sizes[src]
        av = avail[src]
        r = rng.random()
        if r < 0.09 and src > 0 and (innate[src] or free[src]):
            # (a file without any stored feature has no "events" group and
            # its copy cannot be read: outside C07, see C08)
            how = rng.choice(["compress", "repack", "scalar"])
            if how == "scalar" and not free[src] and not any(
                    u in SCALARS for u in innate[src]):
                how = "repack"
            steps.append(dict(op="copy", src=src, how=how))
            sizes.append(ns)
            leaf.append(leaf[src])
            if how == "scalar":
                inn = [u for u in innate[src] if u in SCALARS]
                vi = [u for u in vint[src] if u in SCALARS]
                avail.append([u for u in units
                              if u in inn or u in vi or u in vfile[src]])
                innate.append(inn)
                vint.append(vi)
            else:
                avail.append(list(av))
                innate.append(list(innate[src]))
                vint.append(list(vint[src]))
            vfile.append(list(vfile[src]))
            free.append(free[src])
        elif r < 0.45:
            pf = []
            cur = ns
            if rng.random() < 0.45:
                depth = rng.choice([1, 1, 2, 3, 3])
                for _d in range(depth):
                    f = gen_filter(rng, cur)
                    if depth >= 2 and cur >= 3 and sum(f[1:]) >= 1:
                        # every upper level drops an early event, so that
                        # the indices shift at each level of the hierarchy
                        f[0] = False
                    pf.append(f)
                    cur = sum(f)
            filt = gen_filter(rng, cur)
            rr = rng.random()
            if rr < 0.45:
                feats = []
            elif rr < 0.6:
                feats = None
            else:
                feats = sub(rng, av)
            mode = rng.random()
            if mode < 0.12:
                # filtering disabled: basins are copied
                steps.append(dict(op="export", src=src, pfilts=pf, filt=None,
                                  filtered=False, feats=feats))
                sizes.append(cur)
                free.append(bool(pf))
                empty = False
            elif mode < 0.17 and cur > 0:
                # empty selection
                filt = [False] * cur
                steps.append(dict(op="export", src=src, pfilts=pf, filt=filt,
                                  feats=feats))
                sizes.append(0)
                free.append(True)
                empty = True
            else:
                steps.append(dict(op="export", src=src, pfilts=pf, filt=filt,
                                  feats=feats))
                sizes.append(sum(filt))
                free.append(True)
                empty = False
            leaf.append(empty)
            if empty:
                avail.append([])
                innate.append([])
                vfile.append([])
            else:
                avail.append(list(av))
                innate.append(list(innate[src]) if feats is None
                              else list(feats))
                vfile.append(list(av))
            vint.append([])
        elif r < 0.58:
            # "same" referrer: a part of the features lives in the basin
            sc = [u for u in av if u in SCALARS]
            feats = sub(rng, sc, 1) if sc else []
            if not feats:
                continue
            bfe = None if rng.random() < 0.6 else sub(rng, av, 1)
            steps.append(dict(op="write", feats=feats, basins=[dict(
                kind="file", src=src, map=None, feats=bfe,
                verify=rng.random() < 0.3)]))
            sizes.append(ns)
            leaf.append(False)
            avail.append([u for u in units if u in feats
                          or u in (av if bfe is None else bfe)])
            innate.append(list(feats))
            free.append(False)
            vfile.append(list(av if bfe is None else bfe))
            vint.append([])
        elif r < 0.9:
            m = gen_map(rng, ns, steps[src].get("rechunk"))
            if ns == 0:
                continue
            feats = sub(rng, units) if rng.random() < 0.5 else []
            decoy = []
            isleaf = False
            if feats and rng.random() < 0.3:
                decoy = sub(rng, feats, 1)
                isleaf = True
            bfe = None if rng.random() < 0.6 else sub(rng, av, 1)
            basins = [dict(kind="file", src=src, map=m, feats=bfe,
                           name=(rng.randint(0, 9) if rng.random() < 0.15
                                 else None),
                           verify=rng.random() < 0.3)]
            got = list(av if bfe is None else bfe)
            if src != 0 and ident[src] and set(av) != set(units) and \
                    rng.random() < 0.6:
                # the first basin (sorted first: basinmap2 < basinmap5)
                # lists features its file does not have; the second basin
                # (the origin, same events) has them
                basins = [dict(kind="file", src=src, map=m,
                               feats=list(units), name=2, verify=False),
                          dict(kind="file", src=0, map=m, feats=None,
                               name=5, verify=False)]
                got = list(units)
            elif rng.random() < 0.2:
                # a second basin: same target and map, other features
                bfe2 = sub(rng, av, 1)
                basins.append(dict(kind="file", src=src, map=m,
                                   feats=bfe2, name=None, verify=False))
                got += bfe2
            steps.append(dict(op="write", feats=feats, basins=basins,
                              decoy=decoy))
            sizes.append(len(m))
            leaf.append(isleaf)
            avail.append([u for u in units if u in feats or u in got])
            innate.append(list(feats))
            free.append(True)
            vfile.append(list(got))
            vint.append([])
        else:
            # internal basin: a table of `rows` of the source, mapped
            if ns == 0:
                continue
            rows = [rng.randrange(ns) for _ in range(rng.randint(1, ns))]
            m = [rng.randrange(len(rows)) for _ in range(
                rng.randint(1, len(rows) + 3))]
            ifeats = sub(rng, [u for u in units if u in SCALARS + ["image"]],
                         1)
            rest = [u for u in SCALARS if u not in ifeats]
            feats = sub(rng, rest)
            basins = [dict(kind="internal", src=src, rows=rows, map=m,
                           feats=ifeats)]
            got = list(ifeats)
            gfile = []
            idecoy = False
            if rng.random() < 0.5:
                basins.append(dict(kind="file", src=src,
                                   map=[rows[j] for j in m], feats=None,
                                   name=None, verify=False))
                got += av
                gfile = list(av)
                if rng.random() < 0.4:
                    # the internal basin disagrees with the file basin:
                    # internal basins have priority
                    idecoy = True
                    basins[0]["decoy"] = True
            steps.append(dict(op="write", feats=feats, basins=basins))
            sizes.append(len(m))
            leaf.append(idecoy)
            avail.append([u for u in units if u in feats or u in got])
            innate.append(list(feats))
            free.append(True)
            vfile.append(gfile)
            vint.append(list(ifeats))
    # queries: every file gets some, later files more
    queries = []
    allnames = expand(units)
    nfiles = len(steps)
    for fid in range(nfiles):
        nq = rng.randint(1, 3) if fid < nfiles - 2 else rng.randint(3, 7)
        inn = set(expand(innate[fid]))
        for _ in range(nq):
            if rng.random() < 0.9 and avail[fid]:
                feat = rng.choice(expand(avail[fid]))
            else:
                # possibly not available: only scalars that can never be
                # computed as ancillary features
                feat = rng.choice(SCALARS)
            # indices that reach h5py directly must be h5py-compatible
            fr = (free[fid] and feat not in inn) or feat in SCALARS
            pat = [gen_index(rng, sizes[fid], fr)
                   for _ in range(rng.randint(1, 3))]
            if feat == SCALARS[0] and rng.random() < 0.25:
                # a conversion with a lossy dtype between ordinary reads
                pat.insert(rng.randint(0, len(pat) - 1), ["cast"])
                pat.append(rng.choice([["all"], ["slice", None, None, 2]]))
            if feat in (SCALARS[0], SCALARS[2]) and rng.random() < 0.3:
                # summaries of the feature
                pat.insert(rng.randint(0, len(pat)),
                           [rng.choice(["max", "min", "mean"])])
            if feat == "image" or feat.startswith("trace/"):
                if rng.random() < 0.15:
                    pat.insert(rng.randint(0, len(pat)), ["cast"])
            for ix in pat:
                queries.append([fid, feat, ix])
    return dict(seed=seed, n=n, kinds=kinds, steps=steps,
                move=rng.choice([False, False, False, False, True, True,
                                 "foreign", "stale"]),
                queries=queries,
                layout=rng.choice([None, None, None, "sub", "sibling"]),
                special=rng.random() < 0.3)


# --------------------------------------------------------------------------
# model side
# --------------------------------------------------------------------------
HEADER = ("From Coq Require Import ZArith List Bool.\nImport ListNotations.\n"
          "From Verif Require Import Model.C07.\n")


def r_opt(x, f):
    return "None" if x is None else "(Some %s)" % f(x)


def r_feats(units):
    return common.zlist([FEAT_ID[nm] for nm in expand(units)])


def r_index(ix):
    t = ix[0]
    if t in ("int", "npint"):
        return "(IInt %s)" % common.zlit(ix[1])
    if t == "all":
        return "(ISlice None None None)"
    if t == "iter":
        return "AIter"
    if t == "array":
        return "AArray"
    if t == "cast":
        return "ACast"
    if t in ("max", "min", "mean"):
        return {"max": "AMax", "min": "AMin", "mean": "AMean"}[t]
    if t == "slice":
        return "(ISlice %s %s %s)" % tuple(r_opt(x, common.zlit)
                                           for x in ix[1:4])
    if t == "bool":
        return "(IBool %s)" % common.blist(ix[1])
    return "(IArr %s)" % common.zlist(ix[1])


def render(case):
    """The hand-written files are given to the model with their innate
    data (fingerprints); exports are computed by the model."""
    truth = truth_of(case)
    omaps = []
    steps = []
    for st in case["steps"]:
        if st["op"] == "write":
            bs = st["basins"]
            if not bs:
                omap = list(range(case["n"]))
            elif bs[0]["kind"] == "internal":
                base = [omaps[bs[0]["src"]][r] for r in bs[0]["rows"]]
                omap = [base[j] for j in bs[0]["map"]]
            elif bs[0]["map"] is None:
                omap = list(omaps[bs[0]["src"]])
            else:
                omap = [omaps[bs[0]["src"]][j] for j in bs[0]["map"]]
            innate = []
            for unit in st["feats"]:
                dec = unit in st.get("decoy", [])
                for nm in expand([unit]):
                    vals = [fp(nm, decoy_value(nm, truth[nm][j]) if dec
                               else truth[nm][j]) for j in omap]
                    innate.append("(%d, %s)" % (FEAT_ID[nm],
                                                common.zlist(vals)))
            rb = []
            for b in bs:
                if b["kind"] == "internal":
                    base = [omaps[b["src"]][r] for r in b["rows"]]
                    idata = []
                    for nm in expand(b["feats"]):
                        idata.append("(%d, %s)" % (FEAT_ID[nm], common.zlist(
                            [fp(nm, decoy_value(nm, truth[nm][j])
                                if b.get("decoy") else truth[nm][j])
                             for j in base])))
                    rb.append("(SBInternal %s %s)" % (
                        common.clist(idata), common.zlist(b["map"])))
                else:
                    rb.append("(SBFile %d %s %s %s)" % (
                        b["src"], r_opt(b["map"], common.zlist),
                        r_opt(b.get("name"), common.zlit),
                        r_opt(b["feats"], r_feats)))
            steps.append("(SWrite %d %s %s)" % (len(omap),
                                                common.clist(innate),
                                                common.clist(rb)))
            omaps.append(omap)
        elif st["op"] == "copy":
            omaps.append(list(omaps[st["src"]]))
            keep = [1, 2, 3] if st["how"] == "scalar" else list(range(1, 9))
            steps.append("(SCopy %d %s)" % (st["src"], common.zlist(keep)))
        else:
            idx = list(range(len(omaps[st["src"]])))
            for pf in st["pfilts"] + ([st["filt"]] if st.get(
                    "filtered", True) else []):
                idx = [i for i, keep in zip(idx, pf) if keep]
            omaps.append([omaps[st["src"]][i] for i in idx])
            steps.append("(SExport %d %s %s %s)" % (
                st["src"], common.clist([common.blist(pf)
                                         for pf in st["pfilts"]]),
                ("(Some %s)" % common.blist(st["filt"]))
                if st.get("filtered", True) else "None",
                r_opt(st["feats"], r_feats)))
    def r_access(ix):
        r = r_index(ix)
        return r if r in ("AIter", "AArray", "ACast", "AMax", "AMin",
                          "AMean") else \
            "(AIndex %s)" % r
    qs = ["(%d, %d, %s)" % (q[0], FEAT_ID[q[1]], r_access(q[2]))
          for q in case["queries"]]
    return "(%s, %s)" % (common.clist(steps), common.clist(qs))


# --------------------------------------------------------------------------
def load_corpus():
    d = os.path.join(common.VERIF, "corpus", PROP)
    cases = []
    if os.path.isdir(d):
        for fn in sorted(os.listdir(d)):
            if fn.endswith(".json"):
                cases.append(json.load(open(os.path.join(d, fn)))["case"])
    return cases


def run_cases(cases, scratch):
    jobs = []
    for i, c in enumerate(cases):
        jobs.append((c, os.path.join(scratch, "w%d" % i)))
    ctx = multiprocessing.get_context("fork")
    with ctx.Pool(min(common.NCPU, max(1, len(jobs)))) as pool:
        return pool.map(run_case, jobs, chunksize=1)


def run(run):
    ncases = 1200 if run.thorough else 100
    if os.environ.get("VERIF_C07_CASES"):        # development aid
        ncases = int(os.environ["VERIF_C07_CASES"])
    cases = load_corpus()
    run.count("corpus", len(cases))
    while len(cases) < ncases:
        cases.append(gen_case(run.rng, run.thorough))
    # large-index family (store_basin reuse test) and one big export chain
    nbig = 40 if run.thorough else 6
    for k in range(nbig):
        cases.append(gen_bigmap(run.rng, huge=(
            False if k % 6 else ("thorough" if run.thorough else True))))
    for k in range(3 if run.thorough else 1):
        cases.append(gen_bigchain(run.rng))
    # the slow ones first
    cases.sort(key=lambda c: 0 if (c.get("nomodel") or c.get("L", 0) > 1000)
               else 1)
    results = run_cases(cases, run.scratch)
    for c, res in zip(cases, results):
        run.record_case(c, res["nontrivial"])
        seen = set()
        for desc, fid in res["fails"]:
            if (fid, desc[:40]) in seen:
                continue
            seen.add((fid, desc[:40]))
            run.oracle_failure(c, desc, fid)
        if c.get("kind") == "bigmap":
            run.count("bigmap:L>1e5" if c["L"] > 1000 else "bigmap:small")
            continue
        if c.get("nomodel"):
            run.count("bigchain")
        run.count("n=%d" % c["n"])
        run.count("move:%s" % (c.get("move") or "no"))
        run.count("layout:%s" % (c.get("layout") or "same-dir"))
        if c.get("special"):
            run.count("special values (nan/inf)")
        for st in c["steps"]:
            if st["op"] == "export":
                run.count("export:child%d" % len(st["pfilts"]))
                if not st.get("filtered", True):
                    run.count("export:unfiltered")
                elif not any(expand_filt(st["filt"])):
                    run.count("export:empty selection")
            elif st["op"] == "copy":
                run.count("copy:" + st["how"])
            else:
                if any(b.get("decoy") for b in st["basins"]):
                    run.count("write:internal basin disagrees with file")
                if [b.get("name") for b in st["basins"]] == [2, 5]:
                    run.count("write:basin lists features its file lacks")
                kinds = [b["kind"] + ("" if b.get("map") is not None
                                      else "-same") for b in st["basins"]]
                run.count("write:" + ("+".join(kinds) or "origin"))
        for q in c["queries"]:
            run.count("ix:" + q[2][0])
            run.count("feat:" + q[1].split("/")[0])
    reg = [(c, r) for c, r in zip(cases, results)
           if c.get("kind") != "bigmap" and not c.get("nomodel")]
    big = [(c, r) for c, r in zip(cases, results)
           if c.get("kind") == "bigmap"]
    model = common.coq_map(run.scratch, "c07", HEADER, "run_flat",
                           [render(c) for c, _ in reg], shard=12)
    modelb = common.coq_map(run.scratch, "c07big", HEADER, "run_big",
                            [render_big(c) for c, _ in big], shard=8)
    for (c, res), m in list(zip(reg, model)) + list(zip(big, modelb)):
        run.corr_checked += 1
        if m != res["flat"]:
            run.mismatch(c, m, res["flat"])
    # chain_map / chain_data / chain_ok (the functions of C07_chain_feature)
    # against the map stored by real chains of filtered exports
    chains = []
    for c, res in reg:
        for k, filts, rawmap, omap in res["stats"].get("chains", []):
            chains.append((c, k, filts, rawmap, omap))
    modelc = common.coq_map(
        run.scratch, "c07chain", HEADER, "run_chain",
        ["(%d, %s)" % (c["n"], common.clist([common.blist(f) for f in fl]))
         for c, _k, fl, _m, _o in chains], shard=40)
    for (c, k, filts, rawmap, omap), m in zip(chains, modelc):
        run.corr_checked += 1
        impl = rawmap + [-7] + omap + [-7, 1]
        if m != impl:
            run.mismatch(dict(c, chain_end=k), m, impl, what="chain_map")
    run.count("chain_map ties", len(chains))
    # find_basin (C07_moved_together*): which stored location is used,
    # given what lives at the absolute and at the relative location.  Only
    # forced outcomes are compared (when the basin is at both places the
    # property does not say which one to open).
    obs = {}
    for c, res in reg:
        for sabs, srel, o in res["stats"].get("found", []):
            obs.setdefault((sabs, srel), set()).add(o)
    keys = sorted(obs)
    modelf = common.coq_map(run.scratch, "c07find", HEADER, "run_find",
                            ["(%d, %d)" % k for k in keys], shard=20)
    nfound = 0
    for k, m in zip(keys, modelf):
        run.count("find_basin abs=%d rel=%d" % k, 1)
        if k[0] == 2:
            continue
        nfound += 1
        run.corr_checked += 1
        if sorted(obs[k]) != m:
            run.mismatch(dict(kind="find_basin", abs_state=k[0],
                              rel_state=k[1]), m, sorted(obs[k]),
                         what="find_basin")
    skipped = sum(res["stats"].get("struct_skipped", 0) +
                  res["stats"].get("found_err", 0) for _c, res in reg)
    run.count("structural checks skipped", skipped)
    if len(chains) == 0 or nfound == 0 or skipped > len(reg) // 5:
        run.broken.append(("tie-floor(C07)",
                           "chain_map ties %d, find_basin ties %d, "
                           "structural checks skipped %d" % (
                               len(chains), nfound, skipped)))
    run.extra["chain_depths"] = chain_depth_hist([c for c, _ in reg])


def chain_depth_hist(cases):
    hist = {}
    for c in cases:
        depth = []
        for st in c["steps"]:
            if st["op"] == "export":
                depth.append(depth[st["src"]] + 1)
            elif st["op"] == "copy":
                depth.append(depth[st["src"]])
            else:
                depth.append(0)
        k = "depth%d" % max(depth)
        hist[k] = hist.get(k, 0) + 1
    return hist


# --------------------------------------------------------------------------
def _eval_one(case):
    import tempfile
    base = os.environ.get("VERIF_SCRATCH", "/var/tmp")
    d = tempfile.mkdtemp(prefix="verif-C07-r-", dir=base)
    try:
        return run_case((case, os.path.join(d, "w")))
    finally:
        shutil.rmtree(d, ignore_errors=True)


def _unknown_fails(case):
    res = _eval_one(case)
    return [f for f in res["fails"] if f[1] is None]


def shrink(run, failure):
    case = failure["case"]
    if case.get("kind") == "bigmap":
        # drop maps that are not needed for the failure
        def bad(c):
            try:
                fs = _eval_one(c)["fails"]
            except BaseException:
                return None
            return fs[0][0] if fs else None
        maps = list(case["maps"])
        desc = failure["desc"]
        i = 0
        while i < len(maps) and len(maps) > 2:
            cand = dict(case, maps=maps[:i] + maps[i + 1:])
            dsc = bad(cand)
            if dsc:
                maps, desc = cand["maps"], dsc
            else:
                i += 1
        return dict(case=dict(case, maps=maps), desc=desc,
                    finding=failure.get("finding"))
    if "steps" not in case or case.get("nomodel"):
        return failure
    want = failure.get("finding")

    def fails(c):
        try:
            fs = _eval_one(c)["fails"]
        except BaseException:
            return None
        for desc, fid in fs:
            if fid == want:
                return desc
        return None
    best = case
    desc = failure["desc"]
    # 1. one query only
    for q in case["queries"]:
        cand = dict(best, queries=[q])
        dsc = fails(cand)
        if dsc:
            best, desc = cand, dsc
            break
    # 2. drop trailing steps that the remaining queries do not need
    used = max([q[0] for q in best["queries"]] + [0])
    cand = dict(best, steps=best["steps"][:used + 1])
    dsc = fails(cand)
    if dsc:
        best, desc = cand, dsc
    # 3. do not move
    if best.get("move"):
        cand = dict(best, move=False)
        dsc = fails(cand)
        if dsc:
            best, desc = cand, dsc
    return dict(case=best, desc=desc, finding=want)


def search(run, broken):
    import random
    rng = random.Random(run.rng.random())
    total = 4000 if run.thorough else 640
    for k in range(0, total, 64):
        cases = [gen_case(rng, True) for _ in range(56)] + \
            [gen_bigmap(rng, huge=(i == 0)) for i in range(8)]
        results = run_cases(cases, os.path.join(run.scratch, "s%d" % k))
        for c, res in zip(cases, results):
            for desc, fid in res["fails"]:
                if fid is None or fid not in run.finding_ids():
                    return shrink(run, dict(case=c, desc=desc, finding=fid))
    return None


def replay(payload):
    case = payload.get("case")
    if not case or ("steps" not in case and case.get("kind") != "bigmap"):
        print("replay: nothing executable in this file (kind=%s): %s" % (
            payload.get("kind"), json.dumps(payload.get("broken"))[:2000]))
        return 1
    res = _eval_one(case)
    print("case:", json.dumps(case)[:3000])
    print("implementation:", res["flat"])
    if res["fails"]:
        for desc, fid in res["fails"][:10]:
            print("FAILS:", desc, "[%s]" % fid)
        return 1
    print("passes on the current tree")
    return 0
