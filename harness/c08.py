"""C08 — compress, repack, condense and tdms2rtdc preserve dataset content.

Correspondence: the real task functions (dclab.cli.compress / repack /
condense, dclab.rtdc_dataset.rtdc_copy) are run in-process on generated .rtdc
files whose datasets were re-written with raw h5py in many storage layouts;
the output file is observed with raw h5py (every dataset: shape, chunks,
dtype kind, string width, zstd parameters, attributes, elements) and compared
with Model/C08.v (rtdc_copy, h5ds_copy, basin_definition_copy, the task
wrappers) evaluated by vm_compute on the abstract input file.  h5py's
iter_chunks is compared with the model's chunk enumeration on random
(shape, chunks).

Property oracle (model independent): input and output are opened with dclab
and with raw h5py and compared structurally and by value (features, logs,
tables incl. attributes, metadata, basin definitions, basin features),
sha256 of the input before/after, the task applied to its own output;
condense: every scalar feature dclab offers for the input equals the data in
the output; tdms2rtdc: output vs. the tdms reader on the test fixtures.
"""
import glob
import hashlib
import json
import os
import random
import re
import struct
import traceback
import zipfile

from . import common

PROP = "C08"
RULE = ("recipes of .rtdc files: n in {0,1,2,..,13}, 1-5 features of kinds "
        "scalar/uint/image/mask/trace/contour each re-written with raw h5py in "
        "a layout from {writer(zstd5), contiguous, chunked c<n, c=n, chunks "
        "larger than data, gzip, lzf, zstd1, zstd9, zstd without parameters, "
        "fletcher32, multi-dim chunks}, unknown extra features, logs "
        "(fixed/vlen/empty, lines longer than 100 bytes, UTF-8), compound "
        "tables with attributes, file/mapped/internal basins, software-version "
        "scenarios triggering defective-feature markers, previous command "
        "logs; inputs without stored scalar features, float32/int scalars, "
        "attributes on logs and basin definitions, empty tables and empty "
        "image/trace datasets, a feature in events and in basin_events, "
        "defect scenarios from DEFECT_TABLE (wide ROI, float32 time + frame, "
        "dclab_issue_141); tasks repack(strip_basins, strip_logs), compress, "
        "condense(ancillary, basin features), rtdc_copy(all/scalar/none/list);"
        " each task is also applied to its own output. Non-trivial: at least "
        "one dataset takes the re-compression path; distinct = different "
        "recipe")
TRUSTED_BASE = [
    "HDF5 filter pipeline and h5py.h5o.copy preserve bytes (a verbatim copy "
    "returns the same abstract dataset); h5py dataset creation/IO",
    "h5py ChunkIterator modelled by [boxes] (cartesian product of the "
    "per-dimension intervals); compared with iter_chunks on every run and "
    "with the odometer model on a swept finite domain in Coq",
    "oracle functions of the model: feature_exists/scalar_feature_exists, the "
    "basinmap regular expression, md5 name of a rewritten basin, "
    "ds.features_loaded/basin/ancillary and ds[feat] for condense; the "
    "defective-feature markers are modelled (defective_code over the facts "
    "the harness parses from the file itself) and judged by a hand-written "
    "reference + literal table, not by feat_defect.py; not modelled there: "
    "the 'shapein-acquisition' log branch",
    "C08_second_copy_changes_no_data: hypothesis 'no feature of the first "
    "output is marked defective' (counted per repack case as "
    "second-copy-hypothesis-violated when false)",
    "'the input is never modified' is judged by sha256 only (no theorem)",
    "RTDCWriter.store_feature/store_log/write_text store what they are given "
    "(C01); completed min/max/mean attributes are opaque in the model and "
    "recomputed with numpy by the oracle",
    "the tdms reader incl. imageio (tdms2rtdc is compared with it; its event "
    "selection and export are modelled: tdms_kept/tdms_export)",
    "md5 names of rewritten internal basins (hypotheses rekey_inj, "
    "rekey_fresh of C08_copy_preserves_basin_definitions): injective and "
    "never the name of a basin definition of the source",
]
ASSUMPTIONS = [
    "names inside one HDF5 group are unique; the input has an 'events' group",
    "all dimensions of a non-empty dataset are positive; chunk sizes positive",
    "strings contain no NUL bytes (HDF5 strings are NUL terminated)",
    "meta_prefix is '' in all four tasks; rtdc_copy(meta_prefix=p) renames "
    "logs but not tables (the docstring says both): names are compared "
    "modulo the prefix, content must be preserved either way (not a C08 "
    "defect: no task passes a prefix)",
    "not content in the sense of the property, and dropped by the copy "
    "(checked: the model has no place for them): unknown top-level groups, "
    "attributes of HDF5 groups; unknown metadata keys ARE copied; groups "
    "nested inside a feature group are copied leaf by leaf at any depth "
    "(flattened to path names in the model)",
    "a file without any recognised non-defective feature (its copy has no "
    "events group and dclab cannot open it) is compared with raw h5py only",
    "an empty log carries no content is NOT assumed: with the proposed repair "
    "empty datasets are copied verbatim",
]

def cmd_logs(task):
    """names of the logs a task adds -> reserved numbers of the model"""
    if task in ("compress", "condense"):
        return {"dclab-%s" % task: 900, "dclab-%s-warnings" % task: 901}
    return {}


# --------------------------------------------------------------------------
# recipe generation
# --------------------------------------------------------------------------
LAYOUTS = ["writer", "contig", "chunk_small", "chunk_eq", "chunk_big", "gzip",
           "lzf", "zstd1", "zstd9", "zstd_noparam", "fletcher", "chunk_nd",
           "zstd5_raw"]
SCALARS = ["deform", "area_um", "pos_x", "pos_y", "bright_avg", "aspect",
           "size_x", "size_y", "userdef1", "userdef2", "time"]
SOFTS = ["verifgen 1.0", "ShapeIn 2.0.6", "ShapeIn 2.0.7",
         "ShapeIn 2.0.5 | dclab 0.30.0", "ShapeIn 2.1.0 | dclab 0.48.0"]


DEFECT_NAMES = ("aspect", "inert_ratio_cvx", "inert_ratio_prnc",
                "inert_ratio_raw", "tilt", "time", "volume")


def ref_version(text):
    """leading numeric components of a version string as a 3-tuple"""
    m = re.match(r"^\s*(\d+)(?:\.(\d+))?(?:\.(\d+))?", text)
    if not m:
        return None
    return tuple(int(x) if x else 0 for x in m.groups())


def ref_pep440(text):
    """a packaging.version.Version, or None if the text is no version"""
    from packaging.version import Version, InvalidVersion
    try:
        return Version(text.strip())
    except InvalidVersion:
        return None


def ref_defective(h5):
    """Hand-written reference (from the documented rules, NOT calling
    dclab.rtdc_dataset.fmt_hdf5.feat_defect; versions are compared with the
    `packaging` library) of the stored features a reader must ignore."""
    from packaging.version import Version
    sv = h5.attrs.get("setup:software version", "")
    if isinstance(sv, bytes):
        sv = sv.decode("utf-8")
    sv = str(sv)
    ev = h5.get("events", {})
    logs = h5.get("logs", {})
    pipeline = [x.strip() for x in sv.split("|")]
    last_dclab = None
    if sv and pipeline[-1].startswith("dclab"):
        # "dclab <version>": the second blank-separated word
        words = pipeline[-1].split()
        last_dclab = ref_pep440(words[1]) if len(words) > 1 else None

    def older(v):
        return last_dclab is not None and last_dclab < Version(v)
    out = set()
    # aspect: wrong cast in exactly these two Shape-In versions
    if sv in ("ShapeIn 2.0.6", "ShapeIn 2.0.7"):
        out.add("aspect")
    # time: can be recomputed from frame and frame rate; float32 is useless,
    # Shape-In data last written by dclab < 0.47.6 is float32 in disguise
    rate = h5.attrs.get("imaging:frame rate", 0)
    if "frame" in ev and rate != 0 and "time" in ev:
        if ev["time"].dtype.kind == "f" and ev["time"].dtype.itemsize == 4:
            out.add("time")
        elif "ShapeIn" in sv and older("0.47.6"):
            out.add("time")
    # volume: wrong until dclab 0.36.1 unless the scripted repair was logged
    if "dclab_issue_141" not in logs and older("0.37.0"):
        out.add("volume")
    # inertia ratios / tilt: integer overflow for wide ROIs until 0.48.2;
    # the raw/cvx values computed by Shape-In >= 2.0.5 itself are fine
    if h5.attrs.get("imaging:roi size x", 0) > 500 and older("0.48.3"):
        out.update(["inert_ratio_prnc", "tilt"])
        first = pipeline[0]
        si = None
        known = False
        if first.startswith("ShapeIn"):
            words = first.split()
            si = ref_pep440(words[1]) if len(words) > 1 else None
            known = True
        elif "shapein-acquisition" in logs:
            # newer Shape-In writes the bare version
            si = ref_pep440(first)
            known = True
        if not known or si is None or si < Version("2.0.5"):
            out.update(["inert_ratio_raw", "inert_ratio_cvx"])
    return set(x for x in out if x in ev)


DEFECT_CODES = {"aspect": 1, "inert_ratio_cvx": 2, "inert_ratio_prnc": 3,
                "inert_ratio_raw": 4, "tilt": 5, "time": 6, "volume": 7}


def model_version(text):
    """(major, minor, micro, phase) as Model/C08.v [ver] wants it: phase < 0
    for dev/a/b/rc, 0 for a release, > 0 for post releases or more than three
    release components; None if the text does not start like a version"""
    m = re.match(r"^\s*v?(\d+)(?:\.(\d+))?(?:\.(\d+))?((?:\.\d+)*)"
                 r"\s*[-_.]?\s*(dev|a|alpha|b|beta|c|rc|pre|preview|post|rev|r)?",
                 text, re.I)
    if not m:
        return None
    rel = tuple(int(x) if x else 0 for x in m.groups()[:3])
    extra = [int(x) for x in m.group(4).split(".") if x]
    tag = (m.group(5) or "").lower()
    if tag in ("dev", "a", "alpha", "b", "beta", "c", "rc", "pre", "preview"):
        phase = -1
    elif tag in ("post", "rev", "r") or any(extra):
        phase = 1
    else:
        phase = 0
    return rel + (phase,)


def defect_facts(h5):
    """the facts Model/C08.v [dfacts] abstracts a file to (own parsing of the
    software version string), rendered as a Coq term"""
    sv = h5.attrs.get("setup:software version", "")
    if isinstance(sv, bytes):
        sv = sv.decode("utf-8")
    sv = str(sv)
    pipeline = [x.strip() for x in sv.split("|")]
    last = None
    if sv and pipeline[-1].startswith("dclab"):
        w = pipeline[-1].split()
        last = model_version(w[1]) if len(w) > 1 else None
    first = None
    if pipeline[0].startswith("ShapeIn"):
        w = pipeline[0].split()
        first = model_version(w[1]) if len(w) > 1 else None
    bare = model_version(pipeline[0]) if re.match(r"^\d", pipeline[0]) \
        else None
    ev = h5.get("events", {})

    def opt(v):
        return "None" if v is None else "(Some (%d, %d, %d, %s))" % (
            v[0], v[1], v[2], common.zlit(v[3]))
    return "(mkFacts %s %s %s %s %s %s %s %s %s %s %s)" % (
        common.blit(sv in ("ShapeIn 2.0.6", "ShapeIn 2.0.7")),
        common.blit("ShapeIn" in sv), opt(last), opt(first),
        common.blit("shapein-acquisition" in h5.get("logs", {})), opt(bare),
        common.blit("dclab_issue_141" in h5.get("logs", {})),
        common.blit("frame" in ev),
        common.blit(h5.attrs.get("imaging:frame rate", 0) != 0),
        common.blit("time" in ev and ev["time"].dtype.kind == "f"
                    and ev["time"].dtype.itemsize == 4),
        common.blit(h5.attrs.get("imaging:roi size x", 0) > 500))


#: the table the reference must reproduce (software string, extra facts) ->
#: defective features among aspect/time/volume/inertia (checked at start-up)
DEFECT_TABLE = [
    ("verifgen 1.0", {}, set()),
    ("ShapeIn 2.0.6", {}, {"aspect"}),
    ("ShapeIn 2.0.7", {}, {"aspect"}),
    ("ShapeIn 2.0.6 | dclab 0.50.0", {}, set()),
    ("ShapeIn 2.0.8", {}, set()),
    ("ShapeIn 2.0.5 | dclab 0.30.0", {}, {"volume", "time"}),
    ("ShapeIn 2.0.5 | dclab 0.30.0", {"issue141": True}, {"time"}),
    ("ShapeIn 2.0.5 | dclab 0.30.0", {"noframe": True}, {"volume"}),
    ("ShapeIn 2.0.5 | dclab 0.47.0", {}, {"time"}),
    ("ShapeIn 2.0.5 | dclab 0.47.6", {}, set()),
    ("verifgen 1.0", {"time32": True}, {"time"}),
    ("verifgen 1.0", {"time32": True, "noframe": True}, set()),
    ("ShapeIn 2.1.0 | dclab 0.48.0", {"roi": 600},
     {"inert_ratio_prnc", "tilt"}),
    ("ShapeIn 2.0.4 | dclab 0.48.2", {"roi": 600},
     {"inert_ratio_prnc", "tilt", "inert_ratio_raw", "inert_ratio_cvx"}),
    ("ShapeIn 2.0.4 | dclab 0.48.3", {"roi": 600}, set()),
    ("ShapeIn 2.0.4 | dclab 0.48.2", {"roi": 400}, set()),
    ("verifgen 1.0 | dclab 0.48.0", {"roi": 600},
     {"inert_ratio_prnc", "tilt", "inert_ratio_raw", "inert_ratio_cvx"}),
    # three-stage pipelines: only the first and the last entry count
    ("ShapeIn 2.0.5 | dclab 0.30.0 | dclab 0.50.0", {"roi": 600}, set()),
    ("ShapeIn 2.0.4 | dclab 0.50.0 | dclab 0.30.0", {"roi": 600},
     {"volume", "time", "inert_ratio_prnc", "tilt", "inert_ratio_raw",
      "inert_ratio_cvx"}),
    ("ShapeIn 2.0.6 | ShapeOut 2.1 | dclab 0.36.1", {}, {"volume", "time"}),
    # pre/post/dev releases (PEP 440 order)
    ("ShapeIn 2.0.5 | dclab 0.47.6rc1", {}, {"time"}),
    ("ShapeIn 2.0.5 | dclab 0.47.6.post1", {}, set()),
    ("ShapeIn 2.0.5 | dclab 0.36.1.post2", {}, {"volume", "time"}),
    ("ShapeIn 2.0.5 | dclab 0.37.0.dev3", {}, {"volume", "time"}),
    ("ShapeIn 2.0.5 | dclab 0.48.3.dev1", {"roi": 600},
     {"inert_ratio_prnc", "tilt"}),
    ("ShapeIn 2.0.5rc2 | dclab 0.48.2", {"roi": 600},
     {"inert_ratio_prnc", "tilt", "inert_ratio_raw", "inert_ratio_cvx"}),
    # newer Shape-In: bare version + acquisition log
    ("2.1.6 | dclab 0.48.0", {"roi": 600, "acq": True},
     {"inert_ratio_prnc", "tilt"}),
    ("2.1.6 | dclab 0.48.0", {"roi": 600},
     {"inert_ratio_prnc", "tilt", "inert_ratio_raw", "inert_ratio_cvx"}),
    ("2.0.4 | dclab 0.48.0", {"roi": 600, "acq": True},
     {"inert_ratio_prnc", "tilt", "inert_ratio_raw", "inert_ratio_cvx"}),
    # exact match only
    ("ShapeIn 2.0.6 ", {}, set()),
    ("ShapeIn 2.0.60", {}, set()),
]


class _FakeDs:
    def __init__(self, f4):
        import numpy as np
        self.dtype = np.dtype("f4" if f4 else "f8")


class _FakeH5(dict):
    pass


def ref_selftest():
    """the reference reproduces the literal table"""
    for soft, facts, want in DEFECT_TABLE:
        h5 = _FakeH5()
        h5.attrs = {"setup:software version": soft, "imaging:frame rate": 2000.,
                    "imaging:roi size x": facts.get("roi", 9)}
        ev = {k: _FakeDs(False) for k in DEFECT_NAMES}
        ev["time"] = _FakeDs(facts.get("time32", False))
        if not facts.get("noframe"):
            ev["frame"] = _FakeDs(False)
        h5["events"] = ev
        h5["logs"] = {"dclab_issue_141": 1} if facts.get("issue141") else {}
        if facts.get("acq"):
            h5["logs"]["shapein-acquisition"] = 1
        got = ref_defective(h5)
        if got != want:
            raise AssertionError("defect reference: %r %r -> %r, table says %r"
                                 % (soft, facts, sorted(got), sorted(want)))


def gen_case(rng, thorough=False, force=None):
    force = force or {}
    n = rng.choice([0, 1, 1, 2, 3, 4, 5, 7, 8, 9, 13])
    if rng.random() < 0.5 and n == 0:
        n = rng.choice([1, 3, 6])
    feats = []
    names = list(SCALARS)
    rng.shuffle(names)
    for name in sorted(names[:rng.randint(1, 4)]):
        feats.append(dict(name=name, kind="scalar",
                          layout=rng.choice(LAYOUTS)))
    if rng.random() < 0.35:
        feats.append(dict(name="fl1_max", kind="uint",
                          layout=rng.choice(LAYOUTS)))
    if rng.random() < 0.3:
        feats.append(dict(name="frame", kind="uint",
                          layout=rng.choice(LAYOUTS)))
    if n > 0:
        r = rng.random()
        if r < 0.3:
            feats.append(dict(name="image", kind="image",
                              layout=rng.choice(LAYOUTS)))
        if r < 0.15:
            feats.append(dict(name="mask", kind="mask",
                              layout=rng.choice(LAYOUTS)))
        if rng.random() < 0.15:
            feats.append(dict(name="trace", kind="trace",
                              layout=rng.choice(LAYOUTS)))
        if rng.random() < 0.1:
            feats.append(dict(name="contour", kind="contour",
                              layout="writer"))
    drop_stats = rng.random() < 0.4
    junk = rng.random() < 0.3
    extra = []
    if rng.random() < 0.25:
        extra.append(dict(name=rng.choice(["unknown_feat", "zz_custom",
                                           "basinmap12"]),
                          layout=rng.choice(LAYOUTS)))
    logs = []
    for k in range(rng.choice([0, 1, 1, 2, 3])):
        kind = rng.choice(["fixed", "fixed", "vlen", "vlen", "empty_vlen",
                           "empty_fixed"])
        logs.append(dict(name="log-%d" % k, kind=kind,
                         nattrs=rng.choice([0, 0, 1, 2]),
                         lines=rng.randint(1, 6),
                         longest=rng.choice([3, 20, 99, 100, 101, 150]),
                         utf8=rng.random() < 0.3,
                         layout=rng.choice(["contig", "chunk_small",
                                            "chunk_eq", "chunk_big", "gzip",
                                            "zstd5_raw", "zstd1"])))
    if rng.random() < 0.2:
        logs.append(dict(name=rng.choice(["dclab-compress",
                                          "dclab-condense",
                                          "dclab-compress-warnings",
                                          "dclab_issue_141"]),
                         kind="fixed", lines=3, longest=40, utf8=False,
                         layout="zstd5_raw"))
    tables = []
    for k in range(rng.choice([0, 0, 1, 1, 2])):
        tables.append(dict(name="tab-%d" % k, rows=rng.choice([0, 1, 2, 5]),
                           nattrs=rng.choice([0, 1, 2]),
                           plain=rng.random() < 0.2,
                           fields=rng.choice(["mixed", "wide"]),
                           layout=rng.choice(["contig", "chunk_eq", "gzip",
                                              "zstd5_raw"])))
    basins = []
    if n > 0 and rng.random() < 0.45:
        for k in range(rng.choice([1, 1, 2, 3])):
            btype = rng.choice(["file", "mapped", "internal", "internal"])
            basins.append(dict(
                type=btype, nfeat=rng.choice([1, 2]),
                nonscalar=rng.random() < 0.3,
                nattrs=rng.choice([0, 0, 1]),
                layout=rng.choice(["writer", "contig", "vlen", "gzip"])))
    soft = SOFTS[0]
    scen = None
    if rng.random() < 0.35:
        # defective-feature scenarios: (software string, facts) as in
        # DEFECT_TABLE, with the features the rules talk about present
        soft, facts, _ = rng.choice(DEFECT_TABLE[1:])
        scen = dict(facts)
        have = set(f["name"] for f in feats)
        want = ["aspect"]
        if rng.random() < 0.6:
            want += ["time", "volume"]
        if facts.get("roi"):
            want += ["inert_ratio_prnc", "tilt", "inert_ratio_raw",
                     "inert_ratio_cvx"][:rng.randint(1, 4)]
            # the ROI width is a metadata fact here: no images
            feats = [f for f in feats if f["kind"] not in ("image", "mask")]
        for w in want:
            if w not in have:
                feats.append(dict(name=w, kind="scalar",
                                  layout=rng.choice(["contig", "gzip",
                                                     "writer"])))
        feats = [f for f in feats if f["name"] != "frame"]
        if not facts.get("noframe"):
            feats.append(dict(name="frame", kind="uint", layout="contig"))
        if facts.get("time32"):
            for f in feats:
                if f["name"] == "time":
                    f["dtype"] = "f4"
        if facts.get("acq"):
            logs.append(dict(name="shapein-acquisition", kind="fixed",
                             lines=2, longest=30, utf8=False,
                             layout="contig"))
        if facts.get("issue141"):
            logs = [lg for lg in logs if lg["name"] != "dclab_issue_141"]
            logs.append(dict(name="dclab_issue_141", kind="fixed", lines=2,
                             longest=30, utf8=False, layout="contig"))
        else:
            logs = [lg for lg in logs if lg["name"] != "dclab_issue_141"]
    else:
        # (no accidental marker)
        logs = [lg for lg in logs if lg["name"] != "dclab_issue_141"]
        if rng.random() < 0.3:
            for f in feats:
                if f["kind"] == "scalar" and f["name"] != "time" \
                        and rng.random() < 0.5:
                    f["dtype"] = rng.choice(["f4", "i4", "u2"])
    task = rng.choice(["repack", "repack", "compress", "compress", "condense",
                       "copy"])
    if task == "repack":
        opts = dict(strip_basins=rng.random() < 0.3,
                    strip_logs=rng.random() < 0.3)
    elif task == "compress":
        opts = {}
    elif task == "condense":
        opts = dict(store_ancillary_features=rng.random() < 0.6,
                    store_basin_features=rng.random() < 0.7)
    else:
        opts = dict(features=rng.choice(["all", "scalar", "none", "list"]),
                    include_basins=rng.random() < 0.7,
                    include_logs=rng.random() < 0.7,
                    include_tables=rng.random() < 0.7,
                    meta_prefix=rng.choice(["", "", "src-#1_"]),
                    list_pick=rng.randint(0, 10 ** 6))
    if task == "copy" and n > 0 and rng.random() < 0.4 and \
            not any(f["kind"] == "trace" for f in feats):
        feats.append(dict(name="trace", kind="trace",
                          layout=rng.choice(LAYOUTS)))
    if task == "condense" and n > 0 and rng.random() < 0.6 and \
            not any(b["type"] in ("file", "mapped") for b in basins):
        basins.append(dict(type=rng.choice(["mapped", "mapped", "file"]),
                           nfeat=rng.choice([1, 2]),
                           nonscalar=rng.random() < 0.3, layout="writer"))
    if task == "copy" and rng.random() < 0.7:
        # groups inside a feature group, two levels deep (only where the
        # comparison is raw: dclab itself cannot read such a trace group)
        for f in feats:
            if f["kind"] == "trace":
                f["nested"] = True
    if n > 0 and scen is None and rng.random() < (0.3 if task == "condense"
                                                  else 0.06):
        # no stored scalar feature at all
        feats = [f for f in feats if f["kind"] not in ("scalar", "uint")]
        if not feats:
            feats = [dict(name=rng.choice(["image", "trace"]), kind="x",
                          layout=rng.choice(LAYOUTS))]
            feats[0]["kind"] = feats[0]["name"]
    featureless = False
    if n > 0 and scen is None and rng.random() < 0.08:
        # no stored feature at all: everything comes from a file basin
        # (what ds.export.hdf5(features=[], basins=True) writes)
        featureless = True
        feats = []
        extra = []
        basins = [dict(type="file", nfeat=rng.choice([1, 2, 3]),
                       nonscalar=rng.random() < 0.4, nattrs=0,
                       layout=rng.choice(["writer", "contig", "vlen"]),
                       nomap=True)]
    dup = n > 0 and rng.random() < 0.15 and any(
        b["type"] == "internal" for b in basins)
    case = dict(seed=rng.randint(0, 10 ** 9), n=n, feats=feats, junk=junk,
                scen=scen, dup_basin_feat=dup, featureless=featureless,
                empty_nonscalar=(n == 0 and rng.random() < 0.7),
                drop_stats=drop_stats, extra=extra, logs=logs, tables=tables,
                basins=basins, soft=soft, task=task, opts=opts)
    case.update(force)
    return case


# --------------------------------------------------------------------------
# building the input file
# --------------------------------------------------------------------------
def layout_kwargs(layout, shape, vlen=False):
    """h5py create_dataset keyword arguments of a layout"""
    import hdf5plugin
    n = shape[0]
    rest = tuple(shape[1:])
    if n == 0:
        # an empty dataset: contiguous or chunked (resizable)
        if layout in ("contig", "writer", "zstd5_raw"):
            return {}
        return dict(chunks=(3,) + rest if all(rest) else None,
                    maxshape=(None,) + rest)
    small = (max(1, n // 2 if n > 1 else 1),) + rest
    if layout == "contig":
        return {}
    if layout == "chunk_small":
        return dict(chunks=small)
    if layout == "chunk_eq":
        return dict(chunks=(n,) + rest)
    if layout == "chunk_big":
        return dict(chunks=(n + 3,) + rest, maxshape=(None,) + rest)
    if layout == "chunk_nd":
        return dict(chunks=(max(1, (n + 1) // 2),)
                    + tuple(max(1, (r + 1) // 2) for r in rest))
    if vlen:
        # filters other than gzip make little sense on vlen data
        if layout == "gzip":
            return dict(chunks=small, compression="gzip")
        return dict(chunks=small)
    if layout == "gzip":
        return dict(chunks=small, compression="gzip", shuffle=True)
    if layout == "lzf":
        return dict(chunks=small, compression="lzf")
    if layout == "zstd1":
        return dict(chunks=small, **hdf5plugin.Zstd(clevel=1))
    if layout == "zstd9":
        return dict(chunks=small, **hdf5plugin.Zstd(clevel=9))
    if layout == "zstd_noparam":
        return dict(chunks=small, compression=32015)
    if layout == "fletcher":
        return dict(chunks=small, fletcher32=True)
    # "writer", "zstd5_raw"
    return dict(chunks=small, fletcher32=True, **hdf5plugin.Zstd(clevel=5))


def relayout(group, name, layout, dtype=None):
    """re-create group[name] (dataset, or every dataset of a group) with the
    given layout (and numeric dtype), keeping data and attributes"""
    import h5py
    import numpy as np
    obj = group[name]
    if isinstance(obj, h5py.Group):
        for k in list(obj.keys()):
            relayout(obj, k, layout)
        return
    data = obj[()]
    attrs = dict(obj.attrs)
    if dtype is not None:
        if dtype[0] in "iu":
            data = np.nan_to_num(data, nan=0, posinf=9, neginf=-9)
            if dtype[0] == "u":
                data = np.abs(data)
        data = np.asarray(data).astype(dtype)
    dtype = data.dtype if dtype is not None else obj.dtype
    shape = obj.shape
    del group[name]
    kw = layout_kwargs(layout, shape, vlen=(dtype.kind == "O"))
    if shape[0] == 0:
        d = group.create_dataset(name, shape=shape, dtype=dtype, **kw)
    else:
        d = group.create_dataset(name, data=data, dtype=dtype, **kw)
    for k, v in attrs.items():
        d.attrs[k] = v


def make_lines(rng, spec):
    lines = []
    for i in range(spec["lines"]):
        ln = rng.randint(1, 30)
        if i == 0:
            ln = spec["longest"]
        s = "".join(rng.choice("abcdefghij {}:\",.") for _ in range(ln))
        if spec.get("utf8") and ln >= 4:
            s = "µä" + s[4:]      # two 2-byte characters
        lines.append(s.strip() or "x")
    return lines


def build_input(case, d, tag="in"):
    """Returns the path of the input file built from the recipe"""
    import h5py
    import numpy as np
    from . import gen
    from dclab.rtdc_dataset.writer import RTDCWriter
    rng = random.Random(case["seed"])
    n = case["n"]
    path = os.path.join(d, "%s.rtdc" % tag)
    if os.path.exists(path):
        os.unlink(path)
    nn = max(n, 1)
    feats = {}
    for f in case["feats"]:
        k = f["kind"]
        if k == "scalar":
            arr = gen.dyadic(rng, nn)
            if f["name"] in ("area_um", "size_x", "size_y", "aspect",
                             "volume"):
                arr = np.abs(arr) + 1
            if f["name"] == "time":
                arr = np.cumsum(np.abs(gen.dyadic(rng, nn, 1, 9)))
            if rng.random() < 0.3 and f["name"] != "time":
                arr = gen.inject_special(rng, arr)
            feats[f["name"]] = arr
        elif k == "uint":
            if f["name"] == "frame":
                feats["frame"] = np.cumsum(
                    [rng.randint(1, 4) for _ in range(nn)]).astype(np.uint64)
            else:
                feats[f["name"]] = np.array(
                    [rng.randint(0, 3000) for _ in range(nn)],
                    dtype=np.uint32)
        else:
            feats.update(gen.random_features(rng, nn, kinds=(k,)))
    with_fl = any(x.startswith("fl") or x == "trace" for x in feats)
    meta = gen.base_meta(with_fl=with_fl, run_id="verif-c08-%d" % case["seed"])
    # origin file of the file-based basins
    origin = os.path.join(d, "%s-origin.rtdc" % tag)
    m = nn + 4
    bfeat_pool = ["userdef3", "userdef4", "userdef5", "userdef6", "userdef7",
                  "userdef8", "userdef9", "userdef0"]
    rng.shuffle(bfeat_pool)
    if any(b["type"] in ("file", "mapped") for b in case["basins"]):
        ofeats = {x: gen.dyadic(rng, m) for x in bfeat_pool}
        ofeats["image_bg"] = np.array(
            [[[rng.randint(0, 255) for _ in range(gen.IMG_SHAPE[1])]
              for _ in range(gen.IMG_SHAPE[0])] for _ in range(m)],
            dtype=np.uint8)
        if os.path.exists(origin):
            os.unlink(origin)
        gen.write_spec(origin, dict(n=m, features=ofeats, meta=meta))
    with RTDCWriter(path, mode="reset") as hw:
        hw.store_metadata(meta)
        if n > 0:
            for name, data in feats.items():
                hw.store_feature(name, data)
            used = 0
            for bi, b in enumerate(case["basins"]):
                bf = bfeat_pool[used:used + b["nfeat"]]
                used += b["nfeat"]
                if b["type"] == "internal":
                    kk = rng.randint(1, 3)
                    idata = {x: gen.dyadic(rng, kk) for x in bf}
                    if b["nonscalar"] and not any(
                            "image_bg" in (bb.get("_f") or [])
                            for bb in case["basins"]):
                        idata["image_bg"] = np.array(
                            rng.choices(range(256), k=kk * 54),
                            dtype=np.uint8).reshape(kk, 6, 9)
                    b["_f"] = sorted(idata)
                    hw.store_basin(
                        basin_name="int-%d" % bi, basin_type="internal",
                        basin_format="h5dataset", basin_locs=["basin_events"],
                        basin_descr="internal basin",
                        internal_data=idata,
                        basin_map=np.array([rng.randrange(kk)
                                            for _ in range(n)]),
                        basin_feats=sorted(idata))
                else:
                    if b["nonscalar"]:
                        bf = bf + ["image_bg"]
                    if b["type"] == "mapped":
                        bmap = np.array(sorted(rng.sample(range(m), n)),
                                        dtype=np.uint64)
                    elif b.get("nomap"):
                        bmap = None      # same events as the origin
                    else:
                        bmap = np.arange(n, dtype=np.uint64)
                    hw.store_basin(
                        basin_name="file-%d" % bi, basin_type="file",
                        basin_format="hdf5", basin_locs=[origin],
                        basin_descr="file basin", basin_feats=bf,
                        basin_map=bmap, verify=False)
    for b in case["basins"]:
        b.pop("_f", None)
    with h5py.File(path, "a") as h5:
        ev = h5.require_group("events")
        if n == 0:
            for f in case["feats"]:
                if f["kind"] in ("scalar", "uint"):
                    kw = layout_kwargs(f["layout"], (0,))
                    ev.create_dataset(f["name"], shape=(0,), dtype=float, **kw)
            if case.get("empty_nonscalar", rng.random() < 0.5):
                # empty non-scalar features
                ev.create_dataset("image", shape=(0, 6, 9), dtype="u1",
                                  **layout_kwargs(rng.choice(
                                      ["contig", "chunk_small"]), (0, 6, 9)))
                tr = ev.create_group("trace")
                tr.create_dataset("fl1_raw", shape=(0, 12), dtype="i2")
                # (consistent metadata: the writer rectifies this key from
                # the trace data whenever it touches a file)
                h5.attrs["fluorescence:samples per event"] = 12
        else:
            for f in case["feats"]:
                if f["name"] in ev and (f["layout"] != "writer"
                                        or f.get("dtype")):
                    relayout(ev, f["name"], f["layout"], f.get("dtype"))
            if case["drop_stats"]:
                for f in case["feats"]:
                    if f["kind"] in ("scalar", "uint") and f["name"] in ev:
                        for a in ("min", "max", "mean")[:rng.randint(1, 3)]:
                            ev[f["name"]].attrs.pop(a, None)
                        ev[f["name"]].attrs["custom"] = "hello %d" % rng.randint(0, 9)
        for f in case["feats"]:
            if f.get("nested") and f["name"] in ev:
                g1 = ev[f["name"]].create_group("deep")
                g1.create_dataset("fl9_raw", data=np.arange(nn * 4).reshape(
                    nn, 4), **layout_kwargs(f["layout"], (nn, 4)))
                g2 = g1.create_group("deeper")
                d2 = g2.create_dataset("fl8_raw", data=gen.dyadic(rng, nn))
                d2.attrs["depth"] = 3
                g1.create_group("void")
        if case.get("junk"):
            # things rtdc_copy knows nothing about: an unknown top-level
            # group, attributes of groups, a user-defined metadata key
            ug = h5.create_group("user_stuff")
            ug.create_dataset("numbers", data=np.arange(5))
            ug.attrs["what"] = "unknown group"
            ev.attrs["group attribute"] = "on events"
            h5.attrs["user:verif note"] = "hello %d" % rng.randint(0, 99)
        if case.get("dup_basin_feat") and "basin_events" in h5:
            # a feature stored in "events" AND provided by an internal basin
            for k in list(h5["basin_events"].keys()):
                if h5["basin_events"][k].ndim == 1 and k not in ev:
                    ev.create_dataset(k, data=gen.dyadic(rng, nn))
                    break
        for x in case["extra"]:
            kw = layout_kwargs(x["layout"], (nn,))
            d_ = ev.create_dataset(x["name"], data=gen.dyadic(rng, nn), **kw)
            d_.attrs["note"] = "extra"
        if case["logs"]:
            lg = h5.require_group("logs")
            for spec in case["logs"]:
                if spec["name"] in lg:
                    continue
                if spec["kind"].startswith("empty"):
                    dt = h5py.string_dtype() if spec["kind"] == "empty_vlen" \
                        else "S100"
                    kw = layout_kwargs(spec["layout"], (0,), vlen=True)
                    lg.create_dataset(spec["name"], shape=(0,), dtype=dt, **kw)
                    for a in range(spec.get("nattrs", 0)):
                        lg[spec["name"]].attrs["lattr%d" % a] = "empty %d" % a
                    continue
                lines = make_lines(rng, spec)
                raw = [s.encode("utf-8") for s in lines]
                if spec["kind"] == "vlen":
                    lg.create_dataset(
                        spec["name"], data=np.array(lines, dtype=object),
                        dtype=h5py.string_dtype(),
                        **layout_kwargs(spec["layout"], (len(lines),),
                                        vlen=True))
                else:
                    w = max([100] + [len(r) for r in raw])
                    lg.create_dataset(
                        spec["name"], data=np.array(raw, dtype="S%d" % w),
                        **layout_kwargs(spec["layout"], (len(lines),)))
                for a in range(spec.get("nattrs", 0)):
                    lg[spec["name"]].attrs["lattr%d" % a] = \
                        ["text", 2.5, 3][rng.randrange(3)]
        if case["tables"]:
            tg = h5.require_group("tables")
            for spec in case["tables"]:
                rows = spec["rows"]
                if spec["plain"]:
                    data = np.array([[rng.randint(-9, 9) / 4 for _ in range(3)]
                                     for _ in range(rows)]).reshape(rows, 3)
                else:
                    if spec.get("fields") == "wide":
                        dt = np.dtype([("idx", "u1"), ("label", "S6"),
                                       ("value", "<i2"), ("weight", "f8"),
                                       ("big", "<u8")])
                        data = np.zeros(rows, dtype=dt)
                        data["idx"] = [rng.randint(0, 255) for _ in range(rows)]
                        data["label"] = [rng.choice([b"", b"ab", b"abcdef"])
                                         for _ in range(rows)]
                        data["value"] = [rng.randint(-300, 300)
                                         for _ in range(rows)]
                        data["weight"] = [rng.choice([0.5, np.nan, np.inf])
                                          for _ in range(rows)]
                        data["big"] = [rng.choice([0, 2 ** 40, 2 ** 63])
                                       for _ in range(rows)]
                    else:
                        dt = np.dtype([("alpha", "f8"), ("beta", "i8"),
                                       ("gamma", "f4")])
                        data = np.zeros(rows, dtype=dt)
                        data["alpha"] = [rng.randint(-50, 50) / 4
                                         for _ in range(rows)]
                        data["beta"] = [rng.randint(0, 1000)
                                        for _ in range(rows)]
                        data["gamma"] = [rng.randint(0, 64) / 8
                                         for _ in range(rows)]
                t = tg.create_dataset(spec["name"], data=data,
                                      **layout_kwargs(spec["layout"],
                                                      data.shape))
                for a in range(spec["nattrs"]):
                    t.attrs["tattr%d" % a] = ["some text", 1.5, 7][
                        rng.randrange(3)]
        for bi, b in enumerate(case["basins"]):
            keys = sorted(h5.get("basins", {}).keys())
            if bi < len(keys) and b["layout"] != "writer":
                if b["layout"] == "vlen":
                    lines = [x.decode("utf-8") if isinstance(x, bytes) else x
                             for x in h5["basins"][keys[bi]][:]]
                    del h5["basins"][keys[bi]]
                    h5["basins"].create_dataset(
                        keys[bi], data=np.array(lines, dtype=object),
                        dtype=h5py.string_dtype())
                else:
                    relayout(h5["basins"], keys[bi], b["layout"])
            if bi < len(keys):
                for a in range(b.get("nattrs", 0)):
                    h5["basins"][keys[bi]].attrs["battr%d" % a] = "note %d" % a
            if b["type"] == "internal" and "basin_events" in h5 \
                    and b["layout"] != "writer":
                for k in list(h5["basin_events"].keys()):
                    if rng.random() < 0.5:
                        relayout(h5["basin_events"], k,
                                 rng.choice(["contig", "chunk_eq", "gzip"]))
        h5.attrs["setup:software version"] = case["soft"]
        if (case.get("scen") or {}).get("roi"):
            h5.attrs["imaging:roi size x"] = case["scen"]["roi"]
        if n == 0:
            h5.attrs["experiment:event count"] = 0
        if case.get("featureless"):
            h5.attrs["experiment:event count"] = nn + 4
    return path


# --------------------------------------------------------------------------
# observation of a file with raw h5py -> abstract file (Python mirror of the
# Coq records), using a per-case name/value table
# --------------------------------------------------------------------------
class Names:
    def __init__(self):
        self.tabs = {}

    def get(self, kind, name, create=True):
        t = self.tabs.setdefault(kind, {})
        if name not in t:
            if not create:
                return 999
            base = {"attr": 10, "val": 0, "feat": 10, "child": 0, "log": 10,
                    "table": 10, "basin": 10, "rest": 0, "dtype": 0,
                    "seg": 10}[kind]
            t[name] = base + len(t)
        return t[name]


def num_code(v):
    """canonical integer of a number: integral finite values map to 2*v,
    everything else to 2*bits+1"""
    import numpy as np
    if isinstance(v, (bool, np.bool_)):
        return 2 * int(v)
    if isinstance(v, (int, np.integer)):
        return 2 * int(v)
    f = float(v)
    if f == f and abs(f) < 2 ** 53 and f == int(f):
        return 2 * int(f)
    return 2 * struct.unpack(">Q", struct.pack(">d", f))[0] + 1


def elems_of(arr):
    """row-major elements of an ndarray as lists of ints"""
    import numpy as np
    a = np.asarray(arr)
    if a.dtype.kind == "O" or a.dtype.kind == "S":
        out = []
        for x in a.ravel():
            if isinstance(x, str):
                x = x.encode("utf-8")
            out.append(list(bytes(x)))
        return out
    if a.dtype.kind == "V":
        out = []
        for x in a.ravel():
            e = []
            for k in a.dtype.names:
                v = x[k]
                if isinstance(v, (bytes, np.bytes_, str)):
                    b = v.encode("utf-8") if isinstance(v, str) else bytes(v)
                    e += [len(b)] + list(b)
                else:
                    e.append(num_code(v))
            out.append(e)
        return out
    if a.dtype.kind == "f":
        flat = a.ravel().astype(np.float64)
        ok = np.isfinite(flat) & (np.abs(flat) < 2 ** 53) & \
            (flat == np.floor(flat))
        bits = flat.view(np.uint64)
        return [[2 * int(flat[i])] if ok[i] else [2 * int(bits[i]) + 1]
                for i in range(flat.size)]
    return [[2 * int(x)] for x in a.ravel().tolist()]


def attr_value_key(v):
    import numpy as np
    a = np.asarray(v)
    return "%s|%r" % (a.dtype.kind, a.tolist())


def obs_dset(ds, names, ref=None, auto_chunks=False, is_output=False):
    """dict mirror of the Coq record dset; `ref`: the input dataset at the
    same place (or None): statistics attributes it lacks are opaque"""
    shape = [int(s) for s in ds.shape]
    chunks = None if ds.chunks is None else [int(c) for c in ds.chunks]
    if auto_chunks or (is_output and ref is not None and ref.chunks is None
                       and chunks is not None):
        # h5py chose the chunk shape itself (contiguous source)
        chunks = [-1]
    k = ds.dtype.kind
    kind = {"O": 1, "S": 2, "V": 3}.get(k, 0)
    if kind == 3:
        # compound: field names and field dtypes belong to the content
        kind = 300 + names.get("dtype", repr(ds.dtype.descr))
    if kind == 0 and ds.dtype.str != "<f8" and not auto_chunks:
        # (datasets written by RTDCWriter, `auto_chunks`: dtype is C01's)
        kind = 100 + names.get("dtype", ds.dtype.str)
    width = int(ds.dtype.itemsize) if k == "S" else 0
    fa = ds.id.get_create_plist().get_filter_by_id(32015)
    zstd = None if fa is None else [int(x) for x in fa[1]]
    attrs = []
    for key in ds.attrs:
        kid = {"min": 1, "max": 2, "mean": 3}.get(key) or \
            names.get("attr", key)
        if is_output and kid in (1, 2, 3) and (ref is None
                                               or key not in ref.attrs):
            vid = -1
        else:
            vid = names.get("val", attr_value_key(ds.attrs[key]))
        attrs.append([kid, vid])
    data = elems_of(ds[()]) if all(shape) else []
    return dict(shape=shape, chunks=chunks, kind=kind, width=width, zstd=zstd,
                attrs=attrs, data=data)


def enc_opt(o):
    return [-1] if o is None else [len(o)] + list(o)


def enc_dset(d):
    out = [len(d["shape"])] + d["shape"] + enc_opt(d["chunks"]) + \
        [d["kind"], d["width"]] + enc_opt(d["zstd"])
    out += [len(d["attrs"])]
    for k, v in sorted(d["attrs"]):
        out += [k, v]
    out += [len(d["data"])]
    for e in d["data"]:
        out += [len(e)] + e
    return out


CMD_DSET = dict(shape=[], chunks=None, kind=2, width=100, zstd=[5], attrs=[],
                data=[])
REWRITTEN_DSET = dict(shape=[], chunks=None, kind=2, width=0, zstd=[5],
                      attrs=[], data=[])


def basin_dict(ds):
    lines = list(ds[()])
    lines = [x.decode("utf-8") if isinstance(x, bytes) else x for x in lines]
    return json.loads(" ".join(lines))


def soft_chain(value):
    """segments of a software version chain 'a | b | c'"""
    if isinstance(value, bytes):
        value = value.decode("utf-8")
    return [x.strip() for x in str(value).split("|") if x.strip()]


def soft_expected(value, task):
    """The software version string a task must write (stated rule, not read
    from the code): compress and condense open their output with RTDCWriter,
    which appends ' | dclab <version>' unless the chain ends with it (and
    re-joins the segments with ' | '); repack/rtdc_copy copy verbatim."""
    import dclab
    if isinstance(value, bytes):
        value = value.decode("utf-8")
    if task not in ("compress", "condense"):
        return value
    chain = soft_chain(value)
    cur = "dclab %s" % dclab.__version__
    if not chain or chain[-1] != cur:
        chain.append(cur)
    return " | ".join(chain)


def soft_ids(value, names):
    import dclab
    cur = "dclab %s" % dclab.__version__
    return [1 if x == cur else names.get("seg", x) for x in soft_chain(value)]


def unprefix(name, prefix):
    """rtdc_copy(meta_prefix=...) renames the logs (the docstring also says
    the tables, the code does not): names are compared modulo the prefix"""
    if prefix and name.startswith(prefix):
        return name[len(prefix):]
    return name


def observe(path, names, ref_path=None, is_output=False, in_md5=None,
            stored=(), task=None, prefix=""):
    """Abstract view of an .rtdc file (dict mirror of the Coq h5file)."""
    import h5py
    import dclab
    out = dict(attrs=[], events=[], bevents=[], logs=[], tables=[],
               basins=[], other=[], soft=[])
    ref = h5py.File(ref_path, "r") if ref_path else None

    def refget(p):
        if ref is None:
            return None
        try:
            return ref[p]
        except KeyError:
            return None
    try:
        with h5py.File(path, "r") as h5:
            for key in h5.attrs:
                v = h5.attrs[key]
                if key == "setup:software version":
                    # modelled as a chain of segments (f_soft), no stripping
                    out["soft"] = soft_ids(v, names)
                    continue
                out["attrs"].append([names.get("attr", key),
                                     names.get("val", attr_value_key(v))])
            for name in h5.get("events", {}):
                obj = h5["events"][name]
                fid = names.get("feat", name)
                if isinstance(obj, h5py.Group):
                    # nested groups are flattened: a member is named by its
                    # path below the feature group (h5ds_copy recurses and
                    # copies the leaves; empty sub-groups leave no trace)
                    ch = []
                    leaves = []
                    obj.visititems(lambda p_, o_: leaves.append(p_)
                                   if isinstance(o_, h5py.Dataset) else None)
                    for c in sorted(leaves):
                        ch.append([names.get("child", c),
                                   obs_dset(obj[c], names,
                                            refget("events/%s/%s" % (name, c)),
                                            is_output=is_output)])
                    out["events"].append([fid, "grp", ch])
                else:
                    st = name in stored
                    out["events"].append(
                        [fid, "ds", obs_dset(obj, names,
                                             None if st else
                                             refget("events/" + name),
                                             auto_chunks=st, is_output=is_output)])
            for name in h5.get("basin_events", {}):
                out["bevents"].append(
                    [names.get("feat", name),
                     obs_dset(h5["basin_events"][name], names,
                              refget("basin_events/" + name), is_output=is_output)])
            for name in h5.get("logs", {}):
                lid = None
                cmd = cmd_logs(task)
                fullname = name
                if is_output:
                    name = unprefix(name, prefix)
                refname = name
                if is_output:
                    if name in cmd:
                        out["logs"].append([cmd[name], dict(CMD_DSET)])
                        continue
                    m = re.match(r"^(dclab-%s(-warnings)?)_([0-9a-f]{32})$"
                                 % task, name)
                    if m and refget("logs/" + name) is None and \
                            refget("logs/" + m.group(1)) is not None:
                        lid = 903 if m.group(2) else 902
                        refname = m.group(1)
                elif name in cmd:
                    lid = cmd[name]
                if lid is None:
                    lid = names.get("log", name)
                out["logs"].append([lid, obs_dset(h5["logs"][fullname], names,
                                                  refget("logs/" + refname), is_output=is_output)])
            for fullname in h5.get("tables", {}):
                name = unprefix(fullname, prefix) if is_output else fullname
                out["tables"].append(
                    [names.get("table", name),
                     obs_dset(h5["tables"][fullname], names,
                              refget("tables/" + name),
                              auto_chunks=is_output, is_output=is_output)])
            if is_output:
                # what the copy must not carry over (the model has no place
                # for it): unknown top-level groups, attributes of groups
                for name in h5:
                    if name not in ("events", "basin_events", "logs", "tables",
                                    "basins"):
                        out["other"].append([7, names.get("attr", name)])
                groups = []
                h5.visititems(lambda p_, o_: groups.append(p_)
                              if isinstance(o_, h5py.Group) else None)
                for g in groups:
                    for a in h5[g].attrs:
                        out["other"].append([8, names.get("attr", g + "@" + a)])
            for key in h5.get("basins", {}):
                bd = basin_dict(h5["basins"][key])
                old = bd.pop("key", None)
                feats = bd.pop("features", None) or []
                rest = names.get("rest", json.dumps(bd, sort_keys=True))
                internal = bd.get("type") == "internal"
                if is_output and refget("basins/" + key) is None \
                        and old is not None:
                    kid = -(1000 + names.get("basin", old))
                    dd = dict(REWRITTEN_DSET)
                else:
                    kid = names.get("basin", key)
                    dd = obs_dset(h5["basins"][key], names,
                                  refget("basins/" + key), is_output=is_output)
                out["basins"].append(
                    [kid, internal, [names.get("feat", f) for f in feats],
                     rest, dd])
    finally:
        if ref is not None:
            ref.close()
    return out


def rows_of(f):
    rows = [[0] + [x for kv in sorted(f["attrs"]) for x in kv]]
    for fid, tag, obj in f["events"]:
        if tag == "grp":
            rows.append([1, fid, -2])
            for cid, d in obj:
                rows.append([1, fid, cid] + enc_dset(d))
        else:
            rows.append([1, fid, -1] + enc_dset(obj))
    for sec, key in ((2, "bevents"), (3, "logs"), (4, "tables")):
        for nid, d in f[key]:
            rows.append([sec, nid, -1] + enc_dset(d))
    for kid, internal, feats, rest, d in f["basins"]:
        rows.append([5, kid, 1 if internal else 0, rest, len(feats)] + feats
                    + enc_dset(d))
    rows += f.get("other", [])
    rows.append([6] + list(f.get("soft", [])))
    return sorted(rows)


def canon_model_rows(rows, content_only=False):
    """sort attributes inside every model row the way enc_dset (Python) does;
    the model keeps insertion order.  content_only: blank the layout fields
    (chunk shape, string width, filter parameters) and drop the rows about
    unknown groups / group attributes: the property is about content, the
    layout the copy chooses is reported but is not a disagreement"""
    out = []
    for r in rows:
        r = list(r)
        if r[0] in (7, 8) and content_only:
            continue
        if r[0] in (6, 7, 8, 9):
            out.append(r)
            continue
        if r[0] == 0:
            pairs = sorted(zip(r[1::2], r[2::2]))
            out.append([0] + [x for kv in pairs for x in kv])
            continue
        if r[0] == 5:
            off = 5 + r[4]
        else:
            if r[2] == -2:
                out.append(r)
                continue
            off = 3
        head, d = r[:off], r[off:]
        i = 0
        rank = d[i]
        i += 1 + rank
        i += 1 if d[i] == -1 else 1 + d[i]
        i0k = i
        i += 2
        i += 1 if d[i] == -1 else 1 + d[i]
        na = d[i]
        pairs = sorted(zip(d[i + 1:i + 1 + 2 * na:2], d[i + 2:i + 2 + 2 * na:2]))
        d = d[:i + 1] + [x for kv in pairs for x in kv] + d[i + 1 + 2 * na:]
        if content_only:
            kind = d[i0k]
            d = d[:1 + rank] + [-9, kind, -9] + d[i:]
        out.append(head + d)
    return sorted(out)


# ---- rendering of the abstract file as a Coq term --------------------------
def coq_pairs(pairs):
    return "[" + "; ".join("(%s, %s)" % (common.zlit(a), common.zlit(b))
                           for a, b in pairs) + "]"


def coq_opt_list(o):
    return "None" if o is None else "(Some %s)" % common.zlist(o)


def coq_dset(d):
    return "(mkD %s %s %d %d %s %s %s)" % (
        common.zlist(d["shape"]), coq_opt_list(d["chunks"]), d["kind"],
        d["width"], coq_opt_list(d["zstd"]),
        "[" + "; ".join(common.zlist(e) for e in d["data"]) + "]",
        coq_pairs(d["attrs"]))


def coq_named(items, render):
    return "[" + "; ".join("(%s, %s)" % (common.zlit(k), render(v))
                           for k, v in items) + "]"


def coq_file(f):
    ev = []
    for fid, tag, obj in f["events"]:
        if tag == "grp":
            ev.append((fid, "(NGrp %s)" % coq_named(obj, coq_dset)))
        else:
            ev.append((fid, "(NDs %s)" % coq_dset(obj)))
    basins = [(kid, "(mkB %s %s %s %s)" % (coq_dset(d), common.blit(internal),
                                           common.zlist(feats),
                                           common.zlit(rest)))
              for kid, internal, feats, rest, d in f["basins"]]
    return "(mkF %s %s %s %s %s %s %s)" % (
        coq_pairs(f["attrs"]), coq_named(ev, lambda s: s),
        coq_named(f["bevents"], coq_dset), coq_named(f["logs"], coq_dset),
        coq_named(f["tables"], coq_dset), coq_named(basins, lambda s: s),
        common.zlist(f.get("soft", [])))


HEADER = ("From Coq Require Import ZArith List Bool.\nImport ListNotations.\n"
          "From Verif Require Import Model.C08.\n")


# --------------------------------------------------------------------------
# running a task and judging it
# --------------------------------------------------------------------------
def sha256(path):
    return hashlib.sha256(open(path, "rb").read()).hexdigest()


def run_task(case, path_in, path_out):
    """in-process call of the task function"""
    import h5py
    from dclab import cli
    from dclab.rtdc_dataset import rtdc_copy
    task, opts = case["task"], case["opts"]
    if os.path.exists(path_out):
        os.unlink(path_out)
    if task == "repack":
        cli.repack(path_in=path_in, path_out=path_out, **opts)
    elif task == "compress":
        cli.compress(path_in=path_in, path_out=path_out)
    elif task == "condense":
        import contextlib
        import io
        with contextlib.redirect_stdout(io.StringIO()):
            cli.condense(path_in=path_in, path_out=path_out, **opts)
    else:
        feats = opts["features"]
        with h5py.File(path_in, "r") as src, h5py.File(path_out, "w") as dst:
            if feats == "list":
                feats = copy_list(case, src)
            rtdc_copy(src_h5file=src, dst_h5file=dst, features=feats,
                      include_basins=opts["include_basins"],
                      include_logs=opts["include_logs"],
                      include_tables=opts["include_tables"],
                      meta_prefix=opts.get("meta_prefix", ""))


def copy_list(case, src):
    cand = sorted(set(list(src.get("events", {}).keys())
                      + list(src.get("basin_events", {}).keys())))
    r = random.Random(case["opts"].get("list_pick", 0))
    return [c for c in cand if r.random() < 0.6]




def compare_content(case, path_in, path_out, second=False):
    """Model independent judgement: returns a description of the first
    difference between input and output that the task was not asked to make,
    or None."""
    import h5py
    import numpy as np
    import dclab
    from dclab.definitions import feature_exists
    from . import gen
    task, opts = case["task"], case["opts"]
    strip_basins = (task == "repack" and opts.get("strip_basins")) or \
        (task == "copy" and not opts.get("include_basins"))
    strip_logs = (task == "repack" and opts.get("strip_logs")) or \
        (task == "copy" and not opts.get("include_logs"))
    strip_tables = task == "copy" and not opts.get("include_tables")
    in_md5 = file_md5(path_in)
    bm = re.compile("^basinmap[0-9]*$")
    with h5py.File(path_in, "r") as hi, h5py.File(path_out, "r") as ho:
        # ---- metadata
        for k in hi.attrs:
            if k not in ho.attrs:
                return "metadata %s lost" % k
            a, b = hi.attrs[k], ho.attrs[k]
            if k == "setup:software version":
                b = b.decode() if isinstance(b, bytes) else b
                rewritten = set(ho.get("basins", {})) - set(hi.get("basins", {}))
                if rewritten and b == soft_expected(a, "compress"):
                    # a rewritten internal basin definition goes through
                    # RTDCWriter, which brands the destination
                    a = b
                else:
                    a = soft_expected(a, task)
            if attr_value_key(a) != attr_value_key(b):
                return "metadata %s: %r -> %r" % (k, a, b)
        for k in ho.attrs:
            if k not in hi.attrs:
                return "metadata %s appeared" % k
        # ---- which features are expected in the output
        if task == "copy":
            sel = opts["features"]
        else:
            sel = "scalar" if task == "condense" else "all"
        ev_in = hi.get("events", {})
        expected = []
        hidden = ref_defective(hi)
        for name in ev_in:
            if not feature_exists(name):
                continue
            if name in hidden:
                continue
            if bm.match(name):
                if not strip_basins:
                    expected.append(name)
                continue
            if sel == "all" or \
                    (sel == "scalar" and feature_exists(name, scalar_only=True)) \
                    or (sel == "list" and name in copy_list(case, hi)):
                expected.append(name)
        ev_out = ho.get("events", {})
        for name in expected:
            if name not in ev_out:
                return "feature %s missing in the output" % name
            d = raw_equal(ev_in[name], ev_out[name], "events/" + name)
            if d:
                return d
        if task != "condense":
            for name in ev_out:
                if name not in expected:
                    if name not in ev_in:
                        return "feature %s appeared in the output" % name
                    d = raw_equal(ev_in[name], ev_out[name], "events/" + name)
                    if d:
                        return d
        # ---- logs
        li = {} if strip_logs else dict(hi.get("logs", {}).items())
        prefix = opts.get("meta_prefix", "") if task == "copy" else ""
        lo = {unprefix(k, prefix): v for k, v in ho.get("logs", {}).items()}
        if prefix and li and not all(k.startswith(prefix)
                                     for k in ho.get("logs", {})):
            return "meta_prefix not applied to the logs"
        if task in ("compress", "condense"):
            added = cmd_logs(task)
            for k in list(lo):
                if k in added:
                    del lo[k]
            ren = {}
            for k in li:
                if k in added:
                    if task == "compress":
                        ren[k] = "%s_%s" % (k, in_md5)
                    else:
                        cands = [x for x in lo if x.startswith(k + "_")
                                 and x not in li]
                        if len(cands) == 1:
                            ren[k] = cands[0]
            li = {ren.get(k, k): v for k, v in li.items()}
        if sorted(li) != sorted(lo):
            return "logs %s -> %s" % (sorted(li), sorted(lo))
        for k in li:
            a = [x if isinstance(x, bytes) else str(x).encode()
                 for x in li[k][()]] if li[k].shape[0] else []
            b = [x if isinstance(x, bytes) else str(x).encode()
                 for x in lo[k][()]] if lo[k].shape[0] else []
            if a != b:
                return "log %s differs" % k
            if attr_diff(li[k], lo[k]):
                return "log %s: %s" % (k, attr_diff(li[k], lo[k]))
        # ---- tables
        ti = {} if strip_tables else dict(hi.get("tables", {}).items())
        to = {unprefix(k, prefix): v for k, v in ho.get("tables", {}).items()}
        if sorted(ti) != sorted(to):
            return "tables %s -> %s" % (sorted(ti), sorted(to))
        for k in ti:
            d = raw_equal(ti[k], to[k], "tables/" + k)
            if d:
                return d
        # ---- basin definitions
        bi = {} if strip_basins else dict(hi.get("basins", {}).items())
        bo = dict(ho.get("basins", {}).items())
        di = {k: basin_dict(v) for k, v in bi.items()}
        do = {k: basin_dict(v) for k, v in bo.items()}
        bev_in = hi.get("basin_events", {})
        bev_out = ho.get("basin_events", {})
        if sel == "all":
            if di != do:
                return "basin definitions differ: %s -> %s" % (
                    sorted(di), sorted(do))
            if not strip_basins:
                for name in bev_in:
                    if not feature_exists(name):
                        continue
                    if name not in bev_out:
                        return "internal basin feature %s lost" % name
                    d = raw_equal(bev_in[name], bev_out[name],
                                  "basin_events/" + name)
                    if d:
                        return d
        else:
            # non-internal basins unchanged; internal ones restricted to the
            # features that were kept
            for k, v in di.items():
                if v.get("type") != "internal":
                    if do.get(k) != v:
                        return "basin %s changed or lost" % k
            for k, v in do.items():
                if v.get("type") == "internal":
                    for f in v.get("features", []):
                        if f not in bev_out:
                            return ("internal basin %s announces feature %s "
                                    "which is not in basin_events" % (k, f))
                elif k not in di:
                    return "basin %s appeared" % k
        for k, v in do.items():
            if v.get("type") == "internal":
                for f in v.get("features", []):
                    if f not in bev_out and f not in ev_out:
                        return ("internal basin %s announces feature %s which "
                                "is nowhere in the output" % (k, f))
        nothing_to_read = False
    # ---- through dclab (a file without any recognised, non-defective feature
    # has no events group after the copy and dclab cannot open it: there is
    # nothing to compare beyond the raw comparison above)
    if task in ("repack", "compress") and not nothing_to_read:
        eb = not strip_basins
        try:
            with dclab.new_dataset(path_out, enable_basins=eb) as dx:
                dx.features_innate, len(dx)
        except Exception as e:
            return "dclab cannot open the output: %r" % (e,)
        with dclab.new_dataset(path_in, enable_basins=eb) as da, \
                dclab.new_dataset(path_out, enable_basins=eb) as db:
            fa = [f for f in da.features_innate
                  if not (strip_basins and bm.match(f))
                  and f not in DEFECT_NAMES]
            fb = [f for f in db.features_innate if f not in DEFECT_NAMES]
            if sorted(fa) != sorted(fb):
                return "dclab: innate features %s -> %s" % (sorted(fa),
                                                           sorted(fb))
            if len(da) != len(db):
                return "dclab: len %d -> %d" % (len(da), len(db))
            for f in fa:
                d = gen.feature_equal(da[f], db[f])
                if d:
                    return "dclab: feature %s: %s" % (f, d)
            ba, bb = sorted(da.features_basin), sorted(db.features_basin)
            if ba != bb:
                return "dclab: basin features %s -> %s" % (ba, bb)
            for f in ba:
                d = gen.feature_equal(da[f], db[f])
                if d:
                    return "dclab: basin feature %s: %s" % (f, d)
            for f, v in (basin_truth(path_in) if eb else {}).items():
                if f not in db or not np.array_equal(
                        np.asarray(db[f][:], dtype=float),
                        np.asarray(v, dtype=float), equal_nan=True):
                    return ("dclab: basin feature %s of the output differs "
                            "from origin[basinmap]" % f)
            if not strip_logs:
                for k in da.logs.keys():
                    k2 = k
                    if k in cmd_logs(task):
                        k2 = "%s_%s" % (k, in_md5)
                    if k2 not in db.logs or \
                            list(da.logs[k]) != list(db.logs[k2]):
                        return "dclab: log %s differs" % k
            d = gen.compare_datasets(da, db, features=[], check_meta=False,
                                     check_logs=False, check_tables=True)
            if d:
                return "dclab: " + d
    return None


def raw_equal(a, b, where):
    """two h5py objects hold the same values, dtype class and attributes"""
    import h5py
    import numpy as np
    if isinstance(a, h5py.Group) or isinstance(b, h5py.Group):
        if not (isinstance(a, h5py.Group) and isinstance(b, h5py.Group)):
            return "%s: group vs dataset" % where
        if sorted(a.keys()) != sorted(b.keys()):
            return "%s: members %s -> %s" % (where, sorted(a), sorted(b))
        for k in a:
            d = raw_equal(a[k], b[k], where + "/" + k)
            if d:
                return d
        return None
    if a.shape != b.shape:
        return "%s: shape %s -> %s" % (where, a.shape, b.shape)
    if a.dtype != b.dtype and not (a.dtype.kind == "O" and b.dtype.kind == "S"):
        return "%s: dtype %s -> %s" % (where, a.dtype, b.dtype)
    if all(a.shape):
        if elems_of(a[()]) != elems_of(b[()]):
            return "%s: values differ" % where
    d = attr_diff(a, b)
    if d:
        return "%s: %s" % (where, d)
    return None


def attr_diff(a, b):
    for k in a.attrs:
        if k not in b.attrs:
            return "attribute %s lost" % k
        if attr_value_key(a.attrs[k]) != attr_value_key(b.attrs[k]):
            return "attribute %s changed" % k
    import numpy as np
    for k in b.attrs:
        if k not in a.attrs and k in ("min", "max", "mean") \
                and b.dtype.kind in "fiu" and b.ndim == 1 and b.shape[0]:
            data = np.asarray(b[()], dtype=float)
            with np.errstate(all="ignore"):
                want = {"min": np.nanmin, "max": np.nanmax,
                        "mean": np.nanmean}[k](data) \
                    if np.any(~np.isnan(data)) else np.nan
            got = float(b.attrs[k])
            # (numpy reduces float32 data in float32)
            rtol = 1e-5 if (b.dtype.kind == "f" and b.dtype.itemsize < 8) \
                else 1e-12
            if not (np.isclose(got, want, rtol=rtol, atol=0, equal_nan=True)
                    or got == want):
                return "completed attribute %s = %r, data say %r" % (k, got,
                                                                     want)
    return None


def file_md5(path):
    from dclab import util
    return util.hashfile(path, count=80)


def basin_truth(path_in):
    """{feature: values} a file-based basin must provide, computed with raw
    h5py from the origin file and the mapping stored in the input (model and
    dclab independent): origin[feat][basinmap]"""
    import h5py
    import numpy as np
    truth = {}
    with h5py.File(path_in, "r") as h5:
        for key in h5.get("basins", {}):
            bd = basin_dict(h5["basins"][key])
            if bd.get("type") != "file" or bd.get("format") != "hdf5":
                continue
            paths = [p_ for p_ in bd.get("paths", []) if os.path.exists(p_)]
            if not paths:
                continue
            mapping = bd.get("mapping", "same")
            with h5py.File(paths[0], "r") as ho:
                for feat in bd.get("features") or []:
                    if feat not in ho["events"] or feat in h5["events"] \
                            or ho["events"][feat].ndim != 1:
                        continue
                    data = ho["events"][feat][()]
                    if mapping == "same":
                        truth[feat] = data
                    else:
                        idx = np.asarray(h5["events"][mapping][()],
                                         dtype=np.int64)
                        truth[feat] = data[idx]
    return truth


def condense_inputs(case, path_in):
    """what condense_dataset reads from the dclab dataset (oracles of the
    model) and the expected scalar features with their values"""
    import numpy as np
    import dclab
    sb = case["opts"]["store_basin_features"]
    sa = case["opts"]["store_ancillary_features"]
    with dclab.new_dataset(path_in, enable_basins=sb) as ds:
        sc = list(ds.features_scalar)
        loaded = list(ds.features_loaded)
        basin = list(ds.features_basin)
        anc = list(ds.features_ancillary)
        innate = list(ds.features_innate)
        want = [f for f in sc if f in loaded or f in innate
                or (sb and f in basin) or (sa and f in anc)]
        vals = {}
        for f in want:
            vals[f] = np.array(ds[f][:])
    truth = basin_truth(path_in) if sb else {}
    for f, v in truth.items():
        if f not in want:
            raise AssertionError("basin feature %s not offered by dclab" % f)
        if not np.array_equal(np.asarray(v, dtype=float),
                              np.asarray(vals[f], dtype=float),
                              equal_nan=True):
            raise AssertionError("dclab reads basin feature %s differently "
                                 "from origin[basinmap] (C07)" % f)
    return dict(sc=sc, loaded=loaded, basin=basin, anc=anc, vals=vals,
                want=want, truth=truth)


def condense_oracle(ci, path_out):
    import h5py
    import numpy as np
    import dclab
    with h5py.File(path_out, "r") as ho, \
            dclab.new_dataset(path_out) as db:
        for f, v in ci.get("truth", {}).items():
            # basin-provided scalar features must be *stored* in the output
            # with the values of the origin at the mapped events
            if f not in ho.get("events", {}):
                return ("condense: basin feature %s is not stored in the "
                        "output" % f)
            if not np.array_equal(np.asarray(ho["events"][f][()], dtype=float),
                                  np.asarray(v, dtype=float), equal_nan=True):
                return ("condense: basin feature %s differs from "
                        "origin[basinmap]" % f)
        for f in ci["want"]:
            if f in ho.get("events", {}):
                got = ho["events"][f][()]
            elif f in db:
                got = db[f][:]
            else:
                return "condense: scalar feature %s is not in the output" % f
            if not np.array_equal(np.asarray(got, dtype=float),
                                  np.asarray(ci["vals"][f], dtype=float),
                                  equal_nan=True):
                return "condense: scalar feature %s differs" % f
    return None


def classify(case, desc):
    """matchers of the known findings (none is open: all defects found have a
    proposed repair, see fixes_proposed/C08-*.diff)"""
    if case.get("task") == "condense" and case.get("n") == 0 and \
            "Empty data object" in desc:
        return "C08-condense-empty"
    if case.get("kind") == "tdms2rtdc" and \
            "negative values stored as 0: uint32 feature" in desc:
        return "C08-tdms-negative-flmax"
    return None


def eval_case(args):
    """worker: build, run, observe, judge.  Returns a dict."""
    case, scratch, idx = args
    import warnings
    warnings.simplefilter("ignore")
    import numpy as np
    np.seterr(all="ignore")
    d = os.path.join(scratch, "c%05d" % idx)
    os.makedirs(d, exist_ok=True)
    res = dict(case=case, fail=None, rendered=None, impl=None, nontrivial=False,
               counts=[])
    try:
        path_in = build_input(case, d)
    except Exception as e:
        res["builderror"] = "%r" % (e,)
        return res
    try:
        res.update(judge(case, d, path_in))
    except Exception as e:
        res["fail"] = "harness exception %r\n%s" % (e, traceback.format_exc()[-800:])
    finally:
        for f in glob.glob(os.path.join(d, "*")):
            try:
                os.unlink(f)
            except OSError:
                pass
    return res


def table_bits(case, path_in, names, ci):
    """feature class table of the case (bits, see Model/C08.v)"""
    import h5py
    from dclab.definitions import feature_exists, scalar_feature_exists
    bm = re.compile("^basinmap[0-9]*$")
    tbl = []
    with h5py.File(path_in, "r") as h5:
        hidden = ref_defective(h5)
        for name, fid in sorted(names.tabs.get("feat", {}).items(),
                                key=lambda kv: kv[1]):
            b = 0
            if feature_exists(name):
                b |= 1
            if scalar_feature_exists(name):
                b |= 2
            if feature_exists(name, scalar_only=True) != \
                    scalar_feature_exists(name):
                raise AssertionError("scalar oracle inconsistent: " + name)
            if bm.match(name):
                b |= 4
            if name in hidden:
                b |= 8
            if ci is not None and name in ci["sc"]:
                b |= 16
            tbl.append((fid, b))
    return tbl


def judge(case, d, path_in):
    import h5py
    res = dict(counts=[])
    task, opts = case["task"], case["opts"]
    path_out = os.path.join(d, "out.rtdc")
    path_out2 = os.path.join(d, "out2.rtdc")
    sha0 = sha256(path_in)
    origin = os.path.join(d, "in-origin.rtdc")
    sha_origin = sha256(origin) if os.path.exists(origin) else None
    in_md5 = file_md5(path_in)
    ci = condense_inputs(case, path_in) if task == "condense" else None
    fail = None
    try:
        run_task(case, path_in, path_out)
    except Exception as e:
        fail = "%s raised %r" % (task, e)
    if sha256(path_in) != sha0:
        fail = "the input file was modified by %s (%s)" % (task, fail)
    if sha_origin is not None and sha256(origin) != sha_origin:
        fail = "the basin origin file was modified by %s (%s)" % (task, fail)
    if fail is None:
        fail = compare_content(case, path_in, path_out)
    if fail is None and ci is not None:
        fail = condense_oracle(ci, path_out)
    # the task applied to its own output changes no data
    if fail is None and task in ("repack", "compress", "copy"):
        try:
            run_task(case, path_out, path_out2)
            d2 = compare_content(case, path_out, path_out2, second=True)
            if d2:
                fail = "second application: " + d2
        except Exception as e:
            fail = "second application of %s raised %r" % (task, e)
    res["fail"] = fail
    crash_only = False
    if not os.path.exists(path_out):
        if task == "condense" and fail and "Empty data object" in fail:
            crash_only = True
        else:
            return res
    # ---- correspondence material
    names = Names()
    fin = observe(path_in, names, task=task)
    # make sure every feature name of the condense lists has a number
    if ci is not None:
        for f in ci["loaded"] + ci["basin"] + ci["anc"]:
            names.get("feat", f)
    with h5py.File(path_in, "r") as hi:
        ev_in = set(hi.get("events", {}).keys())
    tbl = table_bits(case, path_in, names, ci)
    bits = dict(tbl)
    stored = set()
    if task == "condense":
        for name, fid in names.tabs["feat"].items():
            if name not in ev_in or bits.get(fid, 0) & 8:
                stored.add(name)
    warned = False
    if crash_only:
        fout = None
    else:
        fout = observe(path_out, names, ref_path=path_in, is_output=True,
                       in_md5=in_md5, stored=stored, task=task,
                   prefix=(opts.get("meta_prefix", "") if task == "copy"
                           else ""))
        with h5py.File(path_out, "r") as ho:
            warned = any(k.endswith("-warnings") and k in cmd_logs(task)
                         for k in ho.get("logs", {}))
    if task == "repack":
        tnum, flags = 0, [bool(opts.get("strip_basins")),
                          bool(opts.get("strip_logs"))]
    elif task == "compress":
        tnum, flags = 1, [warned]
    elif task == "condense":
        tnum, flags = 2, [opts["store_ancillary_features"],
                          opts["store_basin_features"], warned, True]
    else:
        tnum, flags = 3, [opts["include_basins"], opts["include_logs"],
                          opts["include_tables"]]
    sel = 0
    lst = []
    if task == "copy":
        sel = ["all", "scalar", "none", "list"].index(opts["features"])
        if sel == 3:
            with h5py.File(path_in, "r") as src:
                lst = [names.get("feat", x) for x in copy_list(case, src)]
    dsval = []
    lists = [[], [], []]
    if ci is not None:
        fid = lambda x: names.get("feat", x)   # noqa: E731
        lists = [[fid(x) for x in ci["loaded"]], [fid(x) for x in ci["basin"]],
                 [fid(x) for x in ci["anc"]]]
        for f, v in ci["vals"].items():
            dsval.append((fid(f), elems_of(v)))
    with h5py.File(path_in, "r") as hx:
        facts = defect_facts(hx)
    defmap = [(names.get("feat", k), v) for k, v in DEFECT_CODES.items()
              if k in names.tabs.get("feat", {})]
    rendered = "(mkCase %s %s %s %d %s %d %s %s %s %s %s %s)" % (
        facts, coq_pairs(defmap), coq_pairs(tbl), tnum, common.blist(flags), sel, common.zlist(lst),
        common.zlist(lists[0]), common.zlist(lists[1]), common.zlist(lists[2]),
        "[" + "; ".join("(%s, [%s])" % (common.zlit(k), "; ".join(
            common.zlist(e) for e in v)) for k, v in dsval) + "]",
        coq_file(fin))
    res["rendered"] = rendered
    if crash_only:
        res["impl"] = [[9, 1]]
        res["crash_only"] = True
    else:
        res["impl"] = rows_of(fout) + ([[9, 0]] if task == "condense" else [])
    nrecomp = 0
    for fid_, tag, obj in fin["events"]:
        for dd in ([obj] if tag == "ds" else [c[1] for c in obj]):
            z = dd["zstd"]
            if not (z and z[0] >= 5):
                nrecomp += 1
            res["counts"].append("layout:%s" % (
                "contig" if dd["chunks"] is None else
                "bigchunk" if dd["chunks"][0] > max(dd["shape"][0], 0) else
                "chunked") + ("+zstd%s" % (z[0] if z else "?") if z is not None
                              else ""))
    for lid, dd in fin["logs"]:
        res["counts"].append("log:%s%s" % (
            {1: "vlen", 2: "fixed"}.get(dd["kind"], "?"),
            "-empty" if dd["shape"][0] == 0 else ""))
    if case.get("scen") is not None:
        res["counts"].append("defect-scenario")
        sv = case["soft"]
        if sv.count("|") >= 2:
            res["counts"].append("defect:three-stage-pipeline")
        if re.search(r"(rc|post|dev)\d", sv):
            res["counts"].append("defect:pre/post/dev-version")
        if case["scen"].get("acq"):
            res["counts"].append("defect:shapein-acquisition-log")
        with h5py.File(path_in, "r") as hx:
            for x in sorted(ref_defective(hx)):
                res["counts"].append("defective-in-input:" + x)
    if not any(f["kind"] in ("scalar", "uint") for f in case["feats"]):
        res["counts"].append("no-stored-scalar")
    if case.get("featureless"):
        res["counts"].append("no-stored-feature(basin-only)")
    if case.get("dup_basin_feat"):
        res["counts"].append("feature-in-events-and-basin_events")
    if any(f.get("dtype") for f in case["feats"]):
        res["counts"].append("non-f8-scalar-dtype")
    if task == "repack" and os.path.exists(path_out):
        # hypothesis of C08_second_copy_changes_no_data
        with h5py.File(path_out, "r") as hx:
            if ref_defective(hx):
                res["counts"].append("second-copy-hypothesis-violated")
    if case.get("junk"):
        res["counts"].append("unknown-group+group-attrs")
    if any(f.get("nested") for f in case["feats"]):
        res["counts"].append("nested-groups")
    if task == "copy" and opts.get("meta_prefix"):
        res["counts"].append("meta_prefix")
    if ci is not None and ci.get("truth"):
        res["counts"].append("condense-basin-truth:%d" % len(ci["truth"]))
    for kid, internal, feats_, rest, dd in fin["basins"]:
        res["counts"].append("basin:" + ("internal" if internal else "file"))
    res["counts"].append("task:" + task)
    res["counts"].append("n=%d" % case["n"])
    res["counts"].append("basins=%d" % len(fin["basins"]))
    res["counts"].append("tables=%d" % len(fin["tables"]))
    res["nontrivial"] = nrecomp > 0
    return res


# --------------------------------------------------------------------------
# chunk iteration: h5py vs model
# --------------------------------------------------------------------------
def chunk_cases(rng, count):
    cases = []
    for _ in range(count):
        rank = rng.choice([1, 1, 2, 3])
        shape = [rng.randint(1, 7) for _ in range(rank)]
        chunks = [rng.choice([1, 2, 3, s, max(1, s - 1)]) for s in shape]
        cases.append((shape, chunks))
    return cases


def chunk_check(run, count):
    import h5py
    import numpy as np
    cases = chunk_cases(run.rng, count)
    impl = []
    path = os.path.join(run.scratch, "chunks.h5")
    with h5py.File(path, "w") as h5:
        for i, (shape, chunks) in enumerate(cases):
            ds = h5.create_dataset("d%d" % i, shape=tuple(shape), dtype="u1",
                                   chunks=tuple(chunks),
                                   maxshape=tuple(None for _ in shape))
            boxes = [[x for s in sl for x in (s.start, s.stop)]
                     for sl in ds.iter_chunks()]
            impl.append(boxes)
            # every element is covered exactly once (model independent)
            cnt = np.zeros(shape, dtype=int)
            for sl in ds.iter_chunks():
                cnt[sl] += 1
            run.record_case(dict(kind="chunks", shape=shape, chunks=chunks),
                            True, sample=False)
            if not np.all(cnt == 1):
                run.oracle_failure(dict(kind="chunks", shape=shape,
                                        chunks=chunks),
                                   "iter_chunks does not cover every element "
                                   "exactly once")
    model = common.coq_map(run.scratch, "c08ch", HEADER, "run_chunks",
                           ["(%s, %s)" % (common.zlist(s), common.zlist(c))
                            for s, c in cases])
    for c, m, i in zip(cases, model, impl):
        run.corr_checked += 1
        run.count("chunk-iteration")
        if m[0] != i or m[1] != i:
            run.mismatch(dict(kind="chunks", shape=c[0], chunks=c[1]), m, i,
                         what="iter_chunks")


def h5ds_check(run, count):
    """unit tie: the real h5ds_copy on single datasets (n-dimensional data,
    chunk shapes that do not divide the shape, strings) vs Model.h5ds_copy;
    model independent: values, dtype and attributes of the copy"""
    import h5py
    import numpy as np
    from dclab.rtdc_dataset.copier import h5ds_copy
    rng = run.rng
    path_in = os.path.join(run.scratch, "unit-in.h5")
    path_out = os.path.join(run.scratch, "unit-out.h5")
    names = Names()
    rendered, impl, cases = [], [], []
    with h5py.File(path_in, "w") as hi, h5py.File(path_out, "w") as ho:
        for k in range(count):
            name = "d%d" % k
            kind = rng.choice(["num", "num", "num", "vlen", "fixed"])
            if kind == "num":
                rank = rng.choice([1, 2, 2, 3])
                shape = tuple(rng.randint(1, 6) for _ in range(rank))
                dt = rng.choice(["f8", "f4", "i2", "u1", "i8"])
                data = np.array([rng.randint(0, 200) for _ in range(
                    int(np.prod(shape)))]).reshape(shape).astype(dt)
                lay = rng.choice(["contig", "chunk", "chunk", "big", "gzip",
                                  "zstd5", "zstd1"])
                kw = {}
                if lay != "contig":
                    ch = tuple(rng.randint(1, s_) for s_ in shape)
                    if lay == "big":
                        ch = (shape[0] + rng.randint(1, 3),) + ch[1:]
                        kw["maxshape"] = (None,) + shape[1:]
                    kw["chunks"] = ch
                    if lay == "gzip":
                        kw["compression"] = "gzip"
                    elif lay in ("zstd5", "zstd1"):
                        import hdf5plugin
                        kw.update(hdf5plugin.Zstd(clevel=int(lay[-1])))
                ds = hi.create_dataset(name, data=data, **kw)
            else:
                nl = rng.randint(1, 5)
                lines = ["".join(rng.choice("abc µ{}") for _ in range(
                    rng.choice([1, 5, 99, 100, 101, 130]))).strip() or "x"
                    for _ in range(nl)]
                kw = {} if rng.random() < 0.5 else dict(chunks=(rng.randint(
                    1, nl),))
                if kind == "vlen":
                    ds = hi.create_dataset(name, data=np.array(
                        lines, dtype=object), dtype=h5py.string_dtype(), **kw)
                else:
                    raw = [x.encode("utf-8") for x in lines]
                    ds = hi.create_dataset(name, data=np.array(
                        raw, dtype="S%d" % max(len(x) for x in raw)), **kw)
            for a in range(rng.choice([0, 1, 2])):
                ds.attrs["a%d" % a] = rng.choice(["txt", 1.5, 4])
            case = dict(kind="h5ds_copy", name=name, dtype=str(ds.dtype),
                        shape=list(ds.shape), chunks=ds.chunks and
                        list(ds.chunks))
            try:
                dst = h5ds_copy(src_loc=hi, src_name=name, dst_loc=ho)
            except Exception as e:
                run.record_case(case, True, sample=False)
                run.oracle_failure(case, "h5ds_copy raised %r" % (e,))
                continue
            run.record_case(case, True, sample=False)
            d = raw_equal(ds, dst, name)
            if d:
                run.oracle_failure(case, "h5ds_copy: " + d)
            rendered.append(coq_dset(obs_dset(ds, names)))
            impl.append(enc_dset(obs_dset(dst, names, ref=ds,
                                          is_output=True)))
            cases.append(case)
    model = common.coq_map(run.scratch, "c08h", HEADER, "run_h5ds", rendered)
    for c, m, i in zip(cases, model, impl):
        run.corr_checked += 1
        run.count("h5ds_copy-unit")
        mc = canon_model_rows([[1, 0, -1] + m], content_only=True)
        ic = canon_model_rows([[1, 0, -1] + i], content_only=True)
        if mc != ic:
            run.mismatch(c, m[:60], i[:60], what="h5ds_copy")
        elif canon_model_rows([[1, 0, -1] + m]) != [[1, 0, -1] + i]:
            run.count("layout-only-difference")


def uint32_check(run):
    """HDF5 conversion of signed values into the uint32 datasets the writer
    uses for fl?_max vs. the model's clamp"""
    import h5py
    import numpy as np
    vals = [run.rng.choice([-20, -1, 0, 1, 65535, 2 ** 31, 2 ** 32 - 1,
                            2 ** 32, 2 ** 40, run.rng.randint(-10 ** 6,
                                                              10 ** 6)])
            for _ in range(60)]
    path = os.path.join(run.scratch, "u32.h5")
    with h5py.File(path, "w") as h5:
        d = h5.create_dataset("x", shape=(len(vals),), dtype=np.uint32)
        d[:] = np.array(vals, dtype=np.int64)
        got = [int(x) for x in d[:]]
    model = common.coq_map(run.scratch, "c08u", HEADER, "run_uint32",
                           [common.zlist(vals)])
    run.corr_checked += 1
    run.count("uint32-store")
    if model[0] != got:
        run.mismatch(dict(kind="uint32", vals=vals), model[0], got,
                     what="uint32 store")


# --------------------------------------------------------------------------
# tdms2rtdc on the fixtures
# --------------------------------------------------------------------------
def tdms_expected(ds, skip_i, skip_f):
    """Independent reference of the events tdms2rtdc exports: by raw
    comparison of the first/last image (contour) with zero, NOT by calling
    cli.common.skip_empty_image_events.  Returns (flags, kept indices)."""
    import numpy as np
    n = len(ds)
    fe = le = False
    if "image" in ds:
        try:
            fe = not np.any(np.asarray(ds["image"][0]))
        except Exception:
            fe = False
        if n - 1 >= len(ds["image"]):
            # no frame for the last event (the fixtures carry truncated
            # videos): an empty image by definition; do not touch the reader
            le = True
        else:
            try:
                le = not np.any(np.asarray(ds["image"][n - 1]))
            except Exception:
                le = True
    if not fe and "contour" in ds:
        try:
            fe = not np.any(np.asarray(ds["contour"][0]))
        except Exception:
            pass
    kept = [i for i in range(n)
            if not (i == 0 and skip_i and fe)
            and not (i == n - 1 and skip_f and le)]
    return [bool(skip_i), bool(skip_f), bool(fe), bool(le)], kept


def skip_check(run, count):
    """cli.common.skip_empty_image_events (the event selection of tdms2rtdc)
    on generated datasets whose first/last images are all zero, partly zero
    or non-zero, vs. the model's tdms_kept with independently computed flags"""
    import numpy as np
    import dclab
    from dclab.cli import common as clicommon
    rng = run.rng
    cases, want = [], []
    for _ in range(count):
        n = rng.choice([1, 2, 3, 5, 8])
        img = np.array(rng.choices(range(1, 255), k=n * 12),
                       dtype=np.uint8).reshape(n, 3, 4)
        pats = []
        for pos in (0, n - 1):
            pat = rng.choice(["zero", "partial", "nonzero", "onepixel"])
            if pat == "zero":
                img[pos] = 0
            elif pat == "partial":
                img[pos, 0, :] = 0
            elif pat == "onepixel":
                img[pos] = 0
                img[pos, 1, 2] = 7
            pats.append(pat)
        si, sf = rng.random() < 0.7, rng.random() < 0.7
        ds = dclab.new_dataset({"deform": np.linspace(.01, .02, n),
                                "area_um": np.linspace(20, 30, n),
                                "image": img})
        clicommon.skip_empty_image_events(ds, si, sf)
        got = [int(i) for i in np.where(ds.filter.all)[0]]
        fe = not np.any(img[0])
        le = not np.any(img[n - 1])
        ref = [i for i in range(n) if not (i == 0 and si and fe)
               and not (i == n - 1 and sf and le)]
        case = dict(kind="skip-empty-image", n=n, first=pats[0], last=pats[1],
                    skip_initial=si, skip_final=sf)
        run.record_case(case, True, sample=False)
        if got != ref:
            run.oracle_failure(case, "skip_empty_image_events keeps %s, a "
                               "reader of the images expects %s" % (got, ref))
        cases.append((n, [si, sf, bool(fe), bool(le)]))
        want.append(got)
    model = common.coq_map(run.scratch, "c08s", HEADER, "run_tdms",
                           ["(%d, %s)" % (n, common.blist(fl))
                            for n, fl in cases])
    for (n, fl), m, w in zip(cases, model, want):
        run.corr_checked += 1
        run.count("skip-empty-image")
        if m != w:
            run.mismatch(dict(kind="skip-empty-image", n=n, flags=fl), m, w,
                         what="skip_empty_image_events")


def tdms_check(run):
    import numpy as np
    import h5py
    import dclab
    from dclab import cli
    from dclab.cli import common as clicommon
    import pathlib
    zips = sorted(glob.glob(os.path.join(common.REPO, "tests", "data",
                                         "fmt-tdms_*.zip")))
    if not run.thorough:
        zips = [z for z in zips if "minimal" in z or "2fl-no-image" in z
                or "fl-image_2016" in z]
    model_cases, model_want = [], []
    pending = []
    for z in zips:
        d = os.path.join(run.scratch, "tdms-" + os.path.basename(z)[:-4])
        os.makedirs(d, exist_ok=True)
        with zipfile.ZipFile(z) as zf:
            zf.extractall(d)
        tdms = sorted(glob.glob(os.path.join(d, "**", "*.tdms"),
                                recursive=True))
        tdms = [t for t in tdms if not t.endswith("_traces.tdms")]
        variants = [(True, True, False), (False, False, False)]
        if "minimal" in z or "2fl-no-image" in z or run.thorough:
            variants.append((True, True, True))
        for t in tdms:
            if "minimal" in z or "2fl-no-image" in z or run.thorough:
                for sa, sb in ((True, True), (False, False)):
                    if run.thorough or sa == ("minimal" in z):
                        tdms_condense(run, t, d, sa, sb, pending)
            for skip_i, skip_f, compute in variants:
                case = dict(kind="tdms2rtdc", fixture=os.path.basename(z),
                            file=os.path.basename(t), skip_initial=skip_i,
                            skip_final=skip_f, compute_features=compute)
                out = os.path.join(d, "converted.rtdc")
                sha0 = sha256(t)
                fail = None
                try:
                    fail = tdms_one(t, out, skip_i, skip_f, compute,
                                    model_cases, model_want)
                except Exception as e:
                    fail = "tdms2rtdc raised %r" % (e,)
                if sha256(t) != sha0:
                    fail = "tdms input modified (%s)" % fail
                run.record_case(case, True, sample=False)
                run.count("tdms2rtdc")
                if fail:
                    run.oracle_failure(case, "tdms2rtdc: " + fail,
                                       classify(case, fail))
                if os.path.exists(out):
                    os.unlink(out)
    tdms_condense_compare(run, pending)
    # the event selection of the real skip_empty_image_events vs the model
    if model_cases:
        got = common.coq_map(run.scratch, "c08t", HEADER, "run_tdms",
                             ["(%d, %s)" % (n, common.blist(fl))
                              for n, fl in model_cases])
        for (n, fl), m, w in zip(model_cases, got, model_want):
            run.corr_checked += 1
            run.count("tdms-event-selection")
            if m != w:
                run.mismatch(dict(kind="tdms-selection", n=n, flags=fl), m, w,
                             what="skip_empty_image_events")


def tdms_condense(run, t, d, sa, sb, pending):
    """cli.condense on a .tdms file: every scalar feature the tdms reader
    offers (stored; computed if asked) must be in the output with the same
    values; correspondence with Model.condense (is_hdf5 = false)"""
    import contextlib
    import io
    import numpy as np
    import h5py
    import dclab
    from dclab import cli
    from dclab.definitions import feature_exists, scalar_feature_exists
    out = os.path.join(d, "condensed.rtdc")
    if os.path.exists(out):
        os.unlink(out)
    case = dict(kind="tdms-condense", file=os.path.basename(t),
                store_ancillary_features=sa, store_basin_features=sb)
    sha0 = sha256(t)
    with dclab.new_dataset(t) as ds:
        sc = list(ds.features_scalar)
        loaded, basin = list(ds.features_loaded), list(ds.features_basin)
        anc, innate = list(ds.features_ancillary), list(ds.features_innate)
        want = [f for f in sc if f in loaded or f in innate
                or (sa and f in anc)]
        vals = {f: np.array(ds[f][:]) for f in want}
    fail = None
    try:
        with contextlib.redirect_stdout(io.StringIO()):
            cli.condense(path_in=t, path_out=out,
                         store_ancillary_features=sa,
                         store_basin_features=sb)
    except Exception as e:
        fail = "condense of a .tdms file raised %r" % (e,)
    if sha256(t) != sha0:
        fail = "tdms input modified (%s)" % fail
    run.record_case(case, True, sample=False)
    run.count("tdms-condense")
    if fail is None:
        with h5py.File(out, "r") as ho:
            for f in want:
                if f not in ho["events"]:
                    fail = "scalar feature %s missing" % f
                    break
                a = np.asarray(vals[f], dtype=float)
                b = np.asarray(ho["events"][f][()], dtype=float)
                if re.match("^fl[123]_max$", f):
                    a = np.where(a < 0, 0, a)    # finding C08-tdms-negative-flmax
                if a.shape != b.shape or not np.array_equal(a, b,
                                                            equal_nan=True):
                    fail = "scalar feature %s differs" % f
                    break
            for f in ho["events"]:
                if not scalar_feature_exists(f):
                    fail = "non-scalar feature %s in the condensed file" % f
            if fail is None and soft_chain(ho.attrs.get(
                    "setup:software version", "")) != [
                    "dclab %s" % dclab.__version__]:
                fail = "software version %r" % (
                    ho.attrs.get("setup:software version"),)
    if fail:
        run.oracle_failure(case, "tdms condense: " + fail,
                           classify(case, fail))
        return
    # ---- correspondence: the abstract input of a .tdms file is empty
    names = Names()
    for f in loaded + basin + anc + sc:
        names.get("feat", f)
    tbl = []
    for name, fid in names.tabs["feat"].items():
        b = (1 if feature_exists(name) else 0) | \
            (2 if scalar_feature_exists(name) else 0) | \
            (16 if name in sc else 0)
        tbl.append((fid, b))
    fout = observe(out, names, is_output=True, task="condense",
                   stored=set(names.tabs["feat"]))
    with h5py.File(out, "r") as ho:
        warned = "dclab-condense-warnings" in ho.get("logs", {})
    fid = lambda x: names.get("feat", x)   # noqa: E731
    dsval = [(fid(f), elems_of(v)) for f, v in vals.items()]
    rendered = "(mkCase %s %s %s %d %s %d %s %s %s %s %s %s)" % (
        "(mkFacts false false None None false None false false false false "
        "false)", "[]", coq_pairs(tbl), 2,
        common.blist([sa, sb, warned, False]), 0, "[]",
        common.zlist([fid(x) for x in loaded]),
        common.zlist([fid(x) for x in basin]),
        common.zlist([fid(x) for x in anc]),
        "[" + "; ".join("(%s, [%s])" % (common.zlit(k), "; ".join(
            common.zlist(e) for e in v)) for k, v in dsval) + "]",
        "empty_file")
    pending.append((case, rendered, rows_of(fout) + [[9, 0]],
                    dict(names.tabs["feat"])))


def tdms_condense_compare(run, pending):
    if not pending:
        return
    models = common.coq_map(run.scratch, "c08tc", HEADER, "run_case",
                            [p_[1] for p_ in pending], shard=1)
    for (case, _, impl, feat), model in zip(pending, models):
        # (the writer's own metadata, e.g. the event count, are not modelled)
        m = [r for r in canon_model_rows(model, content_only=True)
             if r[0] != 0]
        i = [r for r in canon_model_rows(impl, content_only=True)
             if r[0] != 0]
        run.corr_checked += 1
        if m != i:
            bad = [a[1] for a, b in zip(m, i) if a != b]
            diff = [(a[:30], b[:30]) for a, b in zip(m, i) if a != b][:2]
            # negative fl?_max are clamped by the writer (known finding)
            if len(m) != len(i) or not all(
                    re.match("^fl[123]_max$", k) for k, v in feat.items()
                    if v in bad):
                run.mismatch(case, dict(rows=len(m), first=diff),
                             dict(rows=len(i)), what="condense(.tdms)")


def tdms_one(t, out, skip_i, skip_f, compute, model_cases, model_want):
    import numpy as np
    import h5py
    import pathlib
    import dclab
    from dclab import cli
    from dclab.cli import common as clicommon
    cli.tdms2rtdc(path_tdms=pathlib.Path(t), path_rtdc=pathlib.Path(out),
                  compute_features=compute,
                  skip_initial_empty_image=skip_i,
                  skip_final_empty_image=skip_f)
    # this untagged build brands its output "dclab 0.0..." which the reader
    # refuses as too old: re-brand before reading
    with h5py.File(out, "a") as hx:
        hx.attrs["setup:software version"] = "verif | " + str(
            hx.attrs.get("setup:software version", ""))
    fail = None
    with dclab.new_dataset(t) as ds, dclab.new_dataset(out) as dr, \
            h5py.File(out, "r") as hraw:
        with dclab.new_dataset(t) as ds3:
            flags, kept = tdms_expected(ds3, skip_i, skip_f)
        # tie of the model to the real function (fresh dataset object)
        with dclab.new_dataset(t) as ds2:
            clicommon.skip_empty_image_events(ds2, skip_i, skip_f)
            model_cases.append((len(ds2), flags))
            model_want.append([int(i) for i in np.where(ds2.filter.all)[0]])
        feats = list(ds.features_innate)
        if skip_f and "image" in ds and len(ds) - 1 >= len(ds["image"]):
            # Fixture artefact: the videos are truncated, so probing the last
            # event's frame is a read past the end of the video, after which
            # imageio hands out a zero/stale image for the last frame that
            # does exist (tdms reader + imageio: trusted, not C08).  The
            # reference performs the same physical read, nothing else.
            try:
                ds["image"][0]
                ds["image"][len(ds) - 1]
            except Exception:
                pass
        # the fixtures carry truncated videos/contours: the export stops at
        # the shortest feature
        shortest = min([len(ds)] + [len(ds[f]) for f in feats
                                    if f in ("image", "mask", "contour")])
        idx = np.array([i for i in kept if i < shortest], dtype=int)
        nout = int(hraw.attrs["experiment:event count"])
        if nout != len(idx):
            return "event count %d, expected %d" % (nout, len(idx))
        for f in feats:
            if f not in hraw["events"]:
                return "feature %s missing" % f
            obj = hraw["events"][f]
            if f == "trace":
                for k in ds["trace"].keys():
                    a = np.array([ds["trace"][k][i] for i in idx])
                    if not np.array_equal(a, obj[k][()]):
                        return "trace %s differs" % k
            elif f in ("image", "mask", "contour"):
                for j, i in enumerate(idx):
                    if not np.array_equal(np.asarray(ds[f][i]),
                                          np.asarray(dr[f][j])):
                        return "%s event %d differs" % (f, i)
            else:
                a = np.asarray(ds[f][:])[idx]
                b = np.asarray(obj[()])
                if not np.array_equal(a, b, equal_nan=True):
                    fail = "feature %s differs" % f
                    bad = a != b
                    if re.match("^fl[123]_max$", f) and \
                            np.all(a[bad] < 0) and np.all(b[bad] == 0):
                        fail += (" (negative values stored as 0: "
                                 "uint32 feature)")
                    return fail
        if compute:
            # computed features are stored with the values dclab computes
            # for the source (NaN-safe comparison, scalar ones)
            for f in ds.features_scalar:
                if f in feats or f not in ds.features or f == "index":
                    continue
                if f not in hraw["events"]:
                    return "computed feature %s missing" % f
                a = np.asarray(ds[f][:], dtype=float)[idx]
                b = np.asarray(hraw["events"][f][()], dtype=float)
                if not np.allclose(a, b, rtol=1e-12, atol=0, equal_nan=True):
                    return "computed feature %s differs" % f
        # logs of the source are carried over
        for k in ds.logs.keys():
            if k not in hraw.get("logs", {}):
                return "log %s missing" % k
            got = [x.decode("utf-8") if isinstance(x, bytes) else str(x)
                   for x in hraw["logs"][k][()]]
            if [str(x) for x in ds.logs[k]] != got:
                return "log %s differs" % k
        # metadata
        volatile = {"event count", "software version", "roi size x",
                    "roi size y", "samples per event", "channel count"}
        for sec in ("experiment", "imaging", "setup", "fluorescence",
                    "online_contour"):
            for key, val in dict(ds.config.get(sec, {})).items():
                if key in volatile:
                    continue
                akey = "%s:%s" % (sec, key)
                if akey not in hraw.attrs:
                    return "metadata %s missing" % akey
                got = hraw.attrs[akey]
                if isinstance(got, bytes):
                    got = got.decode("utf-8")
                try:
                    same = bool(np.all(np.asarray(got) == np.asarray(val)))
                except Exception:
                    same = (got == val)
                if not same:
                    return "metadata %s: %r -> %r" % (akey, val, got)
    return None


# --------------------------------------------------------------------------
class RunProxy:
    """records what a check does to the Run object so that the check can run
    in a child process next to the main pool; replayed by the parent"""

    def __init__(self, run):
        self.scratch = os.path.join(run.scratch, "side")
        os.makedirs(self.scratch, exist_ok=True)
        self.thorough = run.thorough
        self.rng = random.Random(run.rng.random())
        self.calls = []
        self.corr_checked = 0
        self.notes = []

    def record_case(self, *a, **k):
        self.calls.append(("record_case", a, k))

    def count(self, *a, **k):
        self.calls.append(("count", a, k))

    def oracle_failure(self, *a, **k):
        self.calls.append(("oracle_failure", a, k))

    def mismatch(self, *a, **k):
        self.calls.append(("mismatch", a, k))


def side_checks(proxy, queue):
    try:
        tdms_check(proxy)
    except Exception as e:
        proxy.calls.append(("broken", ("tdms_check(C08)",
                                       "crashed: %r" % (e,)), {}))
    queue.put((proxy.calls, proxy.corr_checked, proxy.notes))


def load_corpus():
    d = os.path.join(common.VERIF, "corpus", PROP)
    cases = []
    if os.path.isdir(d):
        for fn in sorted(os.listdir(d)):
            if fn.endswith(".json"):
                cases.append(json.load(open(os.path.join(d, fn)))["case"])
    return cases


def run(run):
    import multiprocessing
    ref_selftest()
    ncases = 1500 if run.thorough else 100
    cases = [c for c in load_corpus() if "task" in c]
    run.count("corpus", len(cases))
    while len(cases) < ncases:
        cases.append(gen_case(run.rng, run.thorough))
    jobs = [(c, run.scratch, i) for i, c in enumerate(cases)]
    ctx = multiprocessing.get_context("fork")
    side_q = ctx.Queue()
    side = ctx.Process(target=side_checks, args=(RunProxy(run), side_q))
    side.start()
    with ctx.Pool(min(common.NCPU, 12)) as pool:
        results = pool.map(eval_case, jobs, chunksize=4)
    import time
    t_impl = time.time() - run.t0
    rendered, impl, rcases = [], [], []
    for r in results:
        c = r["case"]
        if r.get("builderror"):
            run.count("generator-error")
            run.notes.append("generator error: %s on %s" % (
                r["builderror"], json.dumps(c)[:300]))
            continue
        run.record_case(c, r.get("nontrivial", False))
        for k in r.get("counts", []):
            run.count(k)
        if r["fail"]:
            run.oracle_failure(c, r["fail"], classify(c, r["fail"]))
        if r.get("rendered") is not None:
            rendered.append(r["rendered"])
            impl.append(r["impl"])
            rcases.append(c)
    if run.dist.get("generator-error", 0) > len(cases) // 10:
        run.broken.append(("generator(C08)", "too many generator errors"))
    model = common.coq_map(run.scratch, "c08", HEADER, "run_case", rendered,
                           shard=max(4, len(rendered) // 14 + 1))
    for c, m, i in zip(rcases, model, impl):
        run.corr_checked += 1
        if i == [[9, 1]]:
            # the task failed (known finding): only the model's verdict
            m = [r for r in m if r[0] == 9]
        else:
            mc = canon_model_rows(m, content_only=True)
            ic = canon_model_rows(i, content_only=True)
            m = canon_model_rows(m)
            if mc == ic and m != i:
                # same content, another layout than the model predicts
                run.count("layout-only-difference")
                if not any("layout differs" in x for x in run.notes):
                    diff = [(a[:40], b[:40]) for a, b in zip(m, i) if a != b]
                    run.notes.append("layout differs from the model (not a "
                                     "disagreement): %s" % (diff[:1],))
                continue
        if m != i:
            diff = [(a, b) for a, b in zip(m, i) if a != b][:2]
            run.mismatch(c, dict(rows=len(m), first_diff=common.limited(diff, 1500)),
                         dict(rows=len(i)))
    t_model = time.time() - run.t0
    chunk_check(run, 600 if run.thorough else 100)
    h5ds_check(run, 400 if run.thorough else 40)
    uint32_check(run)
    skip_check(run, 300 if run.thorough else 40)
    import queue as _queue
    res = None
    while res is None:
        try:
            res = side_q.get(timeout=5)
        except _queue.Empty:
            if not side.is_alive():
                break
    if res is None:
        # the side process died without an answer: do it here
        run.notes.append("side process for the tdms checks died "
                         "(exit code %r); repeated in-process" % side.exitcode)
        proxy = RunProxy(run)
        tdms_check(proxy)
        res = (proxy.calls, proxy.corr_checked, proxy.notes)
    side.join(timeout=10)
    calls, nchecked, notes = res
    run.corr_checked += nchecked
    run.notes.extend(notes)
    for name, a, k in calls:
        if name == "broken":
            run.broken.append(tuple(a))
        else:
            getattr(run, name)(*a, **k)
    run.notes.append("seconds since start: tasks+oracle %.0f, model %.0f, "
                     "chunks+tdms %.0f" % (t_impl, t_model,
                                           time.time() - run.t0))


def replay(payload):
    import tempfile
    import shutil
    case = payload.get("case")
    if not case or ("task" not in case and case.get("kind") != "chunks"):
        print("replay: nothing executable in this file (kind=%s): %s" % (
            payload.get("kind"), json.dumps(payload.get("broken"))[:2000]))
        return 1
    if case.get("kind") == "chunks":
        print("chunk case", case)
        return 1
    if case.get("kind") == "skip-empty-image":
        import numpy as np
        import dclab
        from dclab.cli import common as clicommon
        n = case["n"]
        img = np.full((n, 3, 4), 9, dtype=np.uint8)
        for pos, pat in ((0, case["first"]), (n - 1, case["last"])):
            if pat == "zero":
                img[pos] = 0
            elif pat == "partial":
                img[pos, 0, :] = 0
            elif pat == "onepixel":
                img[pos] = 0
                img[pos, 1, 2] = 7
        ds = dclab.new_dataset({"deform": np.linspace(.01, .02, n),
                                "area_um": np.linspace(20, 30, n),
                                "image": img})
        clicommon.skip_empty_image_events(ds, case["skip_initial"],
                                          case["skip_final"])
        got = [int(i) for i in np.where(ds.filter.all)[0]]
        ref = [i for i in range(n)
               if not (i == 0 and case["skip_initial"] and not img[0].any())
               and not (i == n - 1 and case["skip_final"]
                        and not img[n - 1].any())]
        print("case:", json.dumps(case), "kept", got, "expected", ref)
        if got != ref:
            print("FAILS: skip_empty_image_events drops an event whose image "
                  "is not empty (or keeps an empty boundary image)")
            return 1
        print("passes on the current tree")
        return 0
    d = tempfile.mkdtemp(prefix="verif-c08-replay-", dir=os.environ.get(
        "VERIF_SCRATCH", "/var/tmp"))
    try:
        r = eval_case((case, d, 0))
        print("case:", json.dumps(case))
        if r.get("builderror"):
            print("generator error:", r["builderror"])
            return 1
        if r["fail"]:
            print("FAILS:", r["fail"])
            return 1
        print("passes on the current tree")
        return 0
    finally:
        shutil.rmtree(d, ignore_errors=True)


def shrink(run, failure):
    """drop recipe parts while the failure (same first words) persists"""
    case = failure["case"]
    if "task" not in case:
        return failure
    key = failure["desc"].split(":")[0][:40]

    def fails(c):
        r = eval_case((c, run.scratch, 99999))
        return bool(r.get("fail")) and r["fail"].startswith(key[:20]) \
            and not r.get("builderror")
    cur = json.loads(json.dumps(case))
    for field in ("basins", "tables", "logs", "extra", "feats"):
        i = 0
        while i < len(cur[field]):
            cand = json.loads(json.dumps(cur))
            del cand[field][i]
            if (field != "feats" or cand["feats"]) and fails(cand):
                cur = cand
            else:
                i += 1
    r = eval_case((cur, run.scratch, 99999))
    return dict(case=cur, desc=r.get("fail") or failure["desc"], finding=None)


def search(run, broken):
    import multiprocessing
    cases = [gen_case(run.rng, True) for _ in range(600)]
    ctx = multiprocessing.get_context("fork")
    with ctx.Pool(min(common.NCPU, 12)) as pool:
        for r in pool.imap(eval_case, [(c, run.scratch, 50000 + i)
                                       for i, c in enumerate(cases)]):
            if r.get("fail") and classify(r["case"], r["fail"]) is None:
                pool.terminate()
                return shrink(run, dict(case=r["case"], desc=r["fail"]))
    return None
