"""C09 — split partitions and join concatenates events without loss or
reordering.

Three kinds of cases, all executed on the real `dclab.cli.split` /
`dclab.cli.join` (called as functions) over generated .rtdc files:

  join       2..5 inputs with differing feature sets (several features missing
             at once, features computable for some inputs only), dates/times
             with and without fractional seconds, ties, run indices 9/10,
             frame rates that exercise round-half-even
  split      one input, split sizes around N (1, divisors, non-divisors, N-1,
             N, N+1, >N), with/without all-zero boundary images and skip flags
  joinsplit  join(split(ds, k)) against ds

Correspondence: Model/C09.v (`join_flat`, `split_flat`, `join_split_flat`,
evaluated by vm_compute) against the produced files, encoded identically.
Property oracle (model independent): numpy concatenation/slicing of the input
data, offsets computed with `datetime`, order by Python's `sorted` on numeric
keys.
"""
import calendar
import datetime
import json
import multiprocessing
import os
import shutil
import time
import zlib

from . import common

PROP = "C09"
RULE = ("corpus/C09 hand seeds first; join: 2-5 generated inputs (1-6 events "
        "each) drawn from a pool of 20 feature names, each input lacking 0-3 "
        "features of a common base set (half of the time a run of neighbours "
        "in sorted order) or holding only the precursors of a computable one "
        "(circ for deform, size_x/size_y for aspect, area_cvx for area_um, "
        "frame for time), an occasional extra feature, dates over 6 days incl. "
        "month/year/leap boundaries, times within 4 s with fractions '', .000, "
        ".125 ... .875, .50, .500, run indices 1,2,3,9,10,11,100, frame rates "
        "0.125..2000 (round-half-even cases), 0-2 logs per input, in 45% of "
        "the cases 2-3 inputs share date/time/run index, file names are "
        "random words handed out in non-alphabetical order; split: "
        "N=1..12, split sizes 1, 2, 3, divisors, N-1, N, N+1, 2N, optional "
        "image feature with all-zero first/last/inner image, both skip flags; "
        "with probability 0.35 mask+contour and 0.3 trace features (also in "
        "joinsplit), each part checked for its sample suffix i/num_files and "
        "its basin map back to the input; jointdms: 2-3 copies of the tdms "
        "fixtures of the dclab test suite under shuffled measurement "
        "prefixes (oracle only); "
        "30-40% of the join/split/joinsplit cases run with "
        "writer.CHUNK_SIZE_BYTES = 512..2048 and 4-40 events per input with "
        "image (mask, trace) data, so that appended blocks straddle HDF5 chunk "
        "boundaries (c-1, c, c+1 events); "
        "audit round: boundary images that are entirely zero / partially "
        "zero / zero but one pixel, first contours entirely zero or touching "
        "0, masks without stored contour (also in the corner), 4% malformed "
        "dates/times, 2% single inputs, 8% equal time with descending run "
        "indices, 6% non-dyadic fractions (oracle only), tables in 30% of "
        "the inputs, differing trace channel sets, 45% of the joinsplit "
        "cases with dclab-split's default skip flags; "
        "joinsplit: the parts of a split, renamed to words that are not in "
        "alphabetical order, joined in the order of the split; pysem: the Python "
        "semantics of Common/PyList.v (mutating loop, loop over a copy, str "
        "<=, sorted stability, round, str(int), mktime) against the "
        "interpreter. A case is non-trivial when (join) at least two inputs "
        "differ in acquisition time or feature set, (split) more than one "
        "part or a skipped boundary event, (joinsplit) more than one part, "
        "(pysem) more than one element; distinct = different case "
        "dictionaries")
TRUSTED_BASE = [
    "time.mktime is modelled as seconds since the epoch in UTC (the harness "
    "sets TZ=UTC; time zones/DST not modelled)",
    "float64 arithmetic on the generated values (multiples of 1/8 s, of 1/8 "
    "Hz) is exact; rounding is not modelled",
    "availability of computable features (`feat in ds.features`) and their "
    "values are inputs of the model (taken from the input datasets)",
    "HDF5/h5py store what RTDCWriter is given (C01); logs are compared by "
    "name in the model and by content in the oracle",
    "feature values other than time/frame/index/index_online are opaque to "
    "the model (bit patterns; images, masks, contours and traces by CRC32 per "
    "event)",
    "sample names are ids; join(metadata=None) is modelled (run index 1); the "
    "run identifier (random uuid part) and the content of the dclab-join "
    "command log (platform data, md5 of inputs) are not modelled",
]
ASSUMPTIONS = [
    "inputs are non-empty measurements whose features all have the same "
    "length and that share at least one feature",
    "index_online of a joined file follows the implementation's documented "
    "rule (each later input shifted by last value + 1), so join-of-split "
    "reproduces index_online only up to that shift",
    "boundary events removed by skip_initial/final_empty_image are not "
    "counted as lost (documented behaviour of dclab-split)",
    "fractions of a second in experiment:time are multiples of 1/8",
    "tdms fixtures: features the .rtdc format declares uint32 (fl*_max, ...) "
    "are compared after the writer's unsigned coercion (the 2fl fixture has "
    "fl2_max = -20, stored as 0 by RTDCWriter: an observation for C01/C08, "
    "not judged here)",
    "masks generated for split are non-empty rectangles (an empty or "
    "single-pixel first mask makes dclab raise NoValidContourFoundError, a "
    "BaseException: invalid input, not judged); dclab-split on tdms input is "
    "not exercised (the image fixtures hold truncated videos)",
    "date/time strings are generated in the strict shape (two-digit fields, "
    "'.digits' fractions, year >= 1900) where the model of strptime/float is "
    "exact; other spellings Python accepts ('2024-3-5', '1:02:03', '.5e1') "
    "are not generated; for a malformed date/time or a single input only 'a "
    "refusal leaves no file' is judged",
    "fractions of a second that are no multiples of 1/8 s, and inputs with "
    "different trace channels, are judged by the oracle only (no model run)",
]

FIND_EMPTY_PART = "C09-split-empty-part"

UNIVERSE = sorted([
    "area_cvx", "area_msd", "area_ratio", "area_um", "aspect", "bright_avg",
    "circ", "contour", "deform", "frame", "image", "index", "index_online",
    "mask", "pos_x", "pos_y", "size_x", "size_y", "tilt", "time", "trace",
    "userdef1", "userdef2"])
NONSCALAR = ("image", "mask", "contour", "trace")
TRACE_KEYS = ["fl1_raw", "fl1_median", "fl2_raw"]
SAMPLES = ["verif sample", "beads 5um", "blood 1:20", "HL60 ctl"]
TDMS_FIXTURES = ["fmt-tdms_shapein-2.0.1-no-image_2017",
                 "fmt-tdms_2fl-no-image_2017"]
KIND = {"time": 1, "frame": 2, "index_online": 3, "index": 4}
FID = {f: 10 * i + KIND.get(f, 0) for i, f in enumerate(UNIVERSE)}
LOGNAMES = ["camera", "log-a", "log-b", "notes"]
LOGID = {n: 10 + i for i, n in enumerate(LOGNAMES)}
LOG_CFG = 1000000
IMG_SHAPE = (6, 9)

DATES = ["2024-03-05", "2024-03-05", "2024-03-05", "2024-03-05", "2024-03-04",
         "2024-03-06", "2024-02-29", "2024-03-01", "2023-12-31", "2024-01-01"]
FRACS = ["", "", "", ".000", ".125", ".25", ".375", ".5", ".50", ".500",
         ".625", ".75", ".875", ".1250", ".375000", ".500000"]
# not multiples of 1/8 s: outside the model (oracle only)
FRACS_NOMODEL = [".0625", ".123456", ".1", ".999999", ".03125"]
MALFORMED = [("2024-03-05", "12:00"), ("2024-13-05", "12:00:00"),
             ("2024-03-05", "24:00:00"), ("2024-03-05", "12:0x:00"),
             ("2024-03-05", "12:00:00."), ("2024-02-30", "12:00:00"),
             ("2023-02-29", "12:00:00"), ("2024-03-05", "12:00:00,5"),
             ("2024-03-05", "12:61:00"), ("2024/03/05", "12:00:00"),
             ("2024-03-05", "12-00-00"), ("20240305", "12:00:00"),
             ("2024-03-05", "12:00:00.5x")]
RUNS = [1, 1, 1, 2, 3, 9, 10, 11, 100]
RATES = [0.125, 0.5, 1.0, 2.0, 2.5, 4.0, 8.0, 2000.0]
RATES_DYADIC_TIME = [0.5, 1.0, 2.0, 4.0, 8.0]      # frame / rate is k/8


def _utc():
    os.environ["TZ"] = "UTC"
    time.tzset()


# --------------------------------------------------------------------------
# generators
# --------------------------------------------------------------------------
def gen_column(rng, feat, n):
    if feat == "time":
        t, out = 0, []
        for _ in range(n):
            t += rng.randint(1, 9)
            out.append(t / 8)
        return out
    if feat == "frame":
        # now and then beyond 2**53 (uint64 arithmetic, no float detour)
        t, out = (2 ** 53 + 1 if rng.random() < 0.15 else 0), []
        for _ in range(n):
            t += rng.randint(1, 4)
            out.append(t)
        return out
    if feat == "index_online":
        t, out = rng.randint(0, 3), []
        for _ in range(n):
            out.append(t)
            t += rng.randint(1, 3)
        return out
    if feat == "index":
        return list(range(1, n + 1))
    if feat in NONSCALAR:
        return [rng.randint(1, 10 ** 6) for _ in range(n)]
    if feat in ("circ",):
        return [rng.randint(1, 8) / 8 for _ in range(n)]
    if feat in ("size_x", "size_y", "area_cvx", "area_msd", "area_um",
                "aspect", "area_ratio"):
        return [rng.randint(8, 400) / 8 for _ in range(n)]
    if feat in WIDE_FEATURES and rng.random() < 0.35:
        # values that need the float64 mantissa / exponent, NaN and inf
        return [rng.choice(WIDE_VALUES + [rng.randint(-40, 400) / 8,
                                          rng.random() * 10 ** rng.randint(-9, 9)])
                for _ in range(n)]
    return [rng.randint(-40, 400) / 8 for _ in range(n)]


WIDE_FEATURES = ("bright_avg", "pos_x", "pos_y", "tilt", "userdef2", "area_msd")
WIDE_VALUES = [0.1, 1 / 3, 1e-7, 1e300, -2.5e-300, 16777217.0,
               float("nan"), float("inf"), float("-inf"), 4503599627370497.0]


PRECURSORS = {"deform": ["circ"], "aspect": ["size_x", "size_y"],
              "area_um": ["area_cvx"], "time": ["frame"],
              "area_ratio": ["area_cvx", "area_msd"]}


NAME_WORDS = ["alpha", "bravo", "zulu", "mike", "part_one", "part_two",
              "part_three", "part_four", "x9", "x10", "B", "a", "m_2", "m_10",
              "omega", "delta", "kilo", "run", "Run", "z0"]


def gen_names(rng, k):
    """k distinct file stems whose alphabetical order is (almost always) not
    the order in which they are handed out"""
    names = rng.sample(NAME_WORDS, k)
    r = rng.random()
    if r < 0.4:
        names = sorted(names, reverse=True)
    elif r < 0.5:
        names = sorted(names)
    return names



def gen_input(rng, names, n, date, tm, run, rate, logs=True):
    feats = {f: gen_column(rng, f, n) for f in sorted(names)}
    if "frame" in feats and "time" not in feats and feats["frame"][0] > 2 ** 53:
        # "time" is computed as frame / frame rate in float64: keep such
        # frames below 2**53 (the model's arithmetic is exact)
        feats["frame"] = [v - 2 ** 53 for v in feats["frame"]]
    lg = {}
    if logs:
        for name in rng.sample(LOGNAMES, rng.choice([0, 1, 1, 2])):
            lg[name] = ["%s line %d" % (name, rng.randint(0, 999))
                        for _ in range(rng.randint(1, 3))]
    tabs = {}
    if logs and rng.random() < 0.3:
        rows = rng.randint(1, 4)
        tabs[rng.choice(["tab", "cal"])] = {
            "alpha": [rng.randint(-50, 50) / 4 for _ in range(rows)],
            "beta": [float(rng.randint(0, 1000)) for _ in range(rows)]}
    return dict(date=date, time=tm, run=run, rate=rate, n=n, feats=feats,
                logs=lg, sample=rng.choice(SAMPLES), tables=tabs)


CHUNK_BYTES = [512, 512, 1024, 2048]
# event counts around multiples of the smallest HDF5 chunks that result
# (image/mask: 54 B/event -> 10, 18, 37 events; trace: 24 B -> 21, 42, 85)
CHUNKY_N = [4, 5, 9, 10, 11, 15, 17, 18, 19, 20, 21, 22, 25, 36, 37, 38]


def gen_join_case(rng, thorough=False):
    chunky = rng.random() < 0.3
    k = rng.choice([2, 2, 3] if chunky else [2, 2, 3, 3, 4, 5, 5, 7])
    pool = [f for f in UNIVERSE if f not in NONSCALAR]
    base = set(rng.sample(pool, rng.randint(2, 4) if chunky
                          else rng.randint(3, 8)))
    if chunky:
        base.add("image")
        if rng.random() < 0.5:
            base.add("trace")
    for special in ("time", "frame", "index_online", "index"):
        if rng.random() < 0.45:
            base.add(special)
    if rng.random() < 0.15:
        base.add("image")
    anchor = rng.choice(sorted(base - {"image"}))
    sec0 = rng.randint(0, 56)
    inputs = []
    for _ in range(k):
        names = set(base)
        mode = rng.random()
        nmiss = 0 if mode < 0.3 else rng.choice([1, 2, 2, 3])
        if nmiss and rng.random() < 0.5:
            # a run of neighbours in sorted order
            sb = sorted(names - {anchor})
            if sb:
                s = rng.randrange(len(sb))
                drop = sb[s:s + nmiss]
            else:
                drop = []
        else:
            cand = sorted(names - {anchor})
            drop = rng.sample(cand, min(nmiss, len(cand)))
        for f in drop:
            names.discard(f)
            if f in PRECURSORS and rng.random() < 0.5:
                names.update(PRECURSORS[f])
        if chunky:
            names.add("image")       # non-scalar data in every input
        if rng.random() < 0.2:
            names.add(rng.choice(pool))          # an extra innate feature
        if "time" not in names and "frame" in names:
            rate = rng.choice(RATES_DYADIC_TIME)
        else:
            rate = rng.choice(RATES)
        tm = "12:%02d:%02d%s" % (rng.choice([0, 0, 0, 1]),
                                 sec0 + rng.choice([0, 0, 1, 2, 3]),
                                 rng.choice(FRACS))
        if rng.random() < 0.03:
            tm = "%02d:59:59%s" % (rng.choice([0, 9, 23]), rng.choice(FRACS))
        inputs.append(gen_input(rng, names,
                                rng.choice(CHUNKY_N) if chunky
                                else rng.randint(1, 6),
                                rng.choice(DATES), tm, rng.choice(RUNS), rate))
    # ties: two or more inputs with the same date, time and run index (the
    # given order must be kept, whatever the file names are)
    if rng.random() < 0.45:
        grp = rng.sample(range(k), rng.randint(2, min(k, 3)))
        src = inputs[grp[0]]
        for i in grp[1:]:
            inputs[i].update(date=src["date"], time=src["time"],
                             run=src["run"])
    # same time, different run index, given in descending run order
    if rng.random() < 0.08:
        src = inputs[0]
        runs = sorted(rng.sample([1, 2, 3, 9, 10, 11, 100], k), reverse=True)
        for inp, r in zip(inputs, runs):
            inp.update(date=src["date"], time=src["time"], run=r)
    for inp, nm in zip(inputs, gen_names(rng, k)):
        inp["fname"] = nm
    case = dict(kind="join", inputs=inputs)
    r = rng.random()
    if r < 0.04:
        # a date/time that strptime/float reject: ValueError expected
        bad = rng.choice(MALFORMED)
        inputs[rng.randrange(k)].update(date=bad[0], time=bad[1])
    elif r < 0.06:
        case["inputs"] = inputs[:1]          # a single input: ValueError
    elif r < 0.12:
        # fractions that are no multiples of 1/8 s: oracle only
        for inp in inputs:
            if rng.random() < 0.7:
                inp["time"] = inp["time"][:8] + rng.choice(FRACS_NOMODEL)
        case["nomodel"] = True
    if "trace" in base and rng.random() < 0.4:
        # the inputs do not record the same trace channels
        for inp in case["inputs"]:
            inp["trace_keys"] = sorted(rng.sample(TRACE_KEYS, rng.randint(1, 3)))
    if chunky:
        # small HDF5 chunks: appended blocks straddle chunk boundaries
        case["chunk_bytes"] = rng.choice(CHUNK_BYTES)
    return case


def boundary_seeds(rng, inp):
    """all-zero / partially-zero / zero-free first, last and inner images,
    first contours that are all-zero or touch 0, masks in the corner"""
    n = inp["n"]
    feats = inp["feats"]

    def pick():
        r = rng.random()
        if r < 0.3:
            return 0
        if r < 0.65:
            return -rng.randint(1, 10 ** 4)
        return None
    if "image" in feats:
        for pos in {0, n - 1}:
            v = pick()
            if v is not None:
                feats["image"][pos] = v
        if n > 2 and rng.random() < 0.3:
            feats["image"][rng.randrange(1, n - 1)] = rng.choice(
                [0, -rng.randint(1, 999)])
    if "contour" in feats:
        v = pick()
        if v is not None:
            feats["contour"][0] = v
        if rng.random() < 0.3:
            feats["contour"][-1] = rng.choice([0, -rng.randint(1, 999)])
    if "mask" in feats and rng.random() < 0.5:
        feats["mask"][0] = -rng.randint(1, 99)


def gen_split_case(rng, thorough=False):
    n = rng.choice([1, 1, 2, 3, 4, 5, 6, 6, 7, 8, 9, 10, 12, 21, 25])
    ks = [1, 2, 3, max(1, n - 1), n, n + 1, 2 * n] + \
        [d for d in range(1, n + 1) if n % d == 0]
    k = rng.choice(ks)
    names = set(rng.sample([f for f in UNIVERSE if f not in NONSCALAR
                            and f != "userdef1"], rng.randint(1, 5)))
    names.add("userdef1")
    with_img = rng.random() < 0.6
    if with_img:
        names.add("image")
    r = rng.random()
    if r < 0.3:
        names.update(["mask", "contour"])     # contour stored
    elif r < 0.45:
        names.add("mask")                     # contour computed from the mask
    if rng.random() < 0.3:
        names.add("trace")
    inp = gen_input(rng, names, n, "2024-03-05", "12:10:11", 1,
                    rng.choice(RATES_DYADIC_TIME))
    inp["feats"]["userdef1"] = [float(i) for i in range(n)]   # event tag
    boundary_seeds(rng, inp)
    initial = rng.random() < 0.7
    final = rng.random() < 0.7
    case = dict(kind="split", input=inp, k=k, initial=initial, final=final)
    if rng.random() < 0.3:
        case["chunk_bytes"] = rng.choice(CHUNK_BYTES)
    return case


def gen_joinsplit_case(rng, thorough=False):
    chunky = rng.random() < 0.4
    if chunky:
        n = rng.choice([12, 19, 20, 21, 25, 30, 38, 40])
        k = rng.choice([3, 7, 9, 10, 11, 13, 17, 19, 20, 21])
    else:
        n = rng.choice([2, 3, 4, 5, 6, 7, 8, 9, 10])
        k = rng.choice([1, 2, 2, 3, 3, max(1, n - 1), max(1, n // 2),
                        rng.randint(1, n)])
    names = set(rng.sample([f for f in UNIVERSE if f not in NONSCALAR],
                           rng.randint(2, 7)))
    for special in ("time", "frame", "index_online", "index"):
        if rng.random() < 0.6:
            names.add(special)
    if rng.random() < 0.25:
        names.add("image")
    if rng.random() < 0.3 or (chunky and rng.random() < 0.5):
        names.update(["mask", "contour"])
    if rng.random() < 0.3 or (chunky and rng.random() < 0.5):
        names.add("trace")
    if chunky:
        names.add("image")
    inp = gen_input(rng, names, n, rng.choice(DATES),
                    "12:00:%02d%s" % (rng.randint(0, 59), rng.choice(FRACS)),
                    rng.choice(RUNS), rng.choice(RATES_DYADIC_TIME))
    nparts = -(-n // k)
    case = dict(kind="joinsplit", input=inp, k=k,
                rename=gen_names(rng, min(nparts, len(NAME_WORDS))))
    if rng.random() < 0.5:
        # dclab-split's defaults: skip empty boundary images
        case["initial"] = case["final"] = True
        boundary_seeds(rng, inp)
        if rng.random() < 0.7:
            # make sure something is skipped (an all-zero boundary image)
            inp["feats"].setdefault("image", [rng.randint(1, 10 ** 6)
                                              for _ in range(n)])
            r = rng.random()
            if r < 0.6:
                inp["feats"]["image"][0] = 0
            if r > 0.3:
                inp["feats"]["image"][-1] = 0
    if chunky:
        case["chunk_bytes"] = rng.choice(CHUNK_BYTES)
    return case


# --------------------------------------------------------------------------
# building files, reading them back
# --------------------------------------------------------------------------
def image_of(seed):
    """seed 0: all pixels zero; seed < 0: some pixels zero (a block incl. the
    corner, or a single pixel) but not all; seed > 0: no zero pixel"""
    import numpy as np
    if seed == 0:
        return np.zeros(IMG_SHAPE, dtype=np.uint8)
    a = (np.arange(IMG_SHAPE[0] * IMG_SHAPE[1], dtype=np.int64) * 37
         + abs(seed) * 101) % 251 + 1
    a = a.reshape(IMG_SHAPE).astype(np.uint8)
    if seed < 0:
        if seed % 3 == 0:
            a[abs(seed) % IMG_SHAPE[0], abs(seed) % IMG_SHAPE[1]] = 0
        elif seed % 3 == 1:
            a[:IMG_SHAPE[0] // 2, :] = 0
        else:
            a[:, :] = 0
            a[-1, -1] = 7            # a single non-zero pixel
    return a


def mask_of(seed):
    """a filled rectangle (never empty) that depends on the seed; seed < 0:
    in the corner (the computed contour touches x = 0 and y = 0)"""
    import numpy as np
    m = np.zeros(IMG_SHAPE, dtype=bool)
    if seed < 0:
        m[0:2 + abs(seed) % 2, 0:2 + abs(seed) % 3] = True
        return m
    y0, x0 = 1 + seed % 2, 1 + (seed // 3) % 3
    m[y0:y0 + 2 + seed % 2, x0:x0 + 2 + (seed // 7) % 3] = True
    return m


def contour_of(seed):
    """seed 0: all coordinates zero; seed < 0: some coordinates zero (the
    contour touches x = 0 or y = 0); seed > 0: coordinates >= 1"""
    import numpy as np
    if seed == 0:
        return np.zeros((3, 2), dtype=np.int32)
    q = abs(seed)
    k = 3 + q % 5
    pts = [[1 + (q * (i + 3)) % 7, 1 + (q // (i + 1)) % 5] for i in range(k)]
    if seed < 0:
        pts[0][q % 2] = 0
        if q % 3 == 0:
            pts = [[0, 0]] * (k - 1) + [[0, 2]]   # one non-zero coordinate
    return np.array(pts, dtype=np.int32)


def trace_of(seed, which):
    import numpy as np
    a = (np.arange(12, dtype=np.int64) * (17 + which) + seed * 13) % 2000 - 200
    return a.astype(np.int16)


def write_input(path, inp):
    import numpy as np
    from . import gen
    feats = {}
    for f, vals in inp["feats"].items():
        if f == "image":
            feats[f] = np.array([image_of(s) for s in vals], dtype=np.uint8)
        elif f == "mask":
            feats[f] = np.array([mask_of(s) for s in vals], dtype=bool)
        elif f == "contour":
            feats[f] = [contour_of(s) for s in vals]
        elif f == "trace":
            keys = inp.get("trace_keys", ["fl1_raw", "fl1_median"])
            feats[f] = {k: np.array([trace_of(s, TRACE_KEYS.index(k))
                                     for s in vals]) for k in keys}
        elif f == "frame":
            feats[f] = np.array(vals, dtype=np.uint64)
        elif f in ("index_online", "index"):
            feats[f] = np.array(vals, dtype=np.int64)
        else:
            feats[f] = np.array(vals, dtype=np.float64)
    meta = gen.base_meta(with_fl="trace" in inp["feats"])
    meta["experiment"].update({"date": inp["date"], "time": inp["time"],
                               "run index": inp["run"],
                               "sample": inp.get("sample", SAMPLES[0])})
    meta["imaging"]["frame rate"] = inp["rate"]
    spec = dict(n=inp["n"], features=feats, meta=meta)
    gen.write_spec(path, spec, logs=inp["logs"],
                   tables=inp.get("tables") or None)
    return path


def acq_seconds(inp):
    """model-independent acquisition time (s since the epoch, UTC)"""
    d = datetime.datetime.strptime(inp["date"] + " " + inp["time"][:8],
                                   "%Y-%m-%d %H:%M:%S")
    t = float(calendar.timegm(d.timetuple()))
    if len(inp["time"]) > 8:
        t += float("0" + inp["time"][8:])
    return t


def enc_values(feat, arr):
    """integer encoding of one feature column (see Model/C09.v)"""
    import numpy as np
    if feat in ("image", "mask"):
        return [zlib.crc32(np.ascontiguousarray(
            np.asarray(arr[i], dtype=np.uint8)).tobytes())
            for i in range(len(arr))]
    if feat == "contour":
        return [zlib.crc32(np.ascontiguousarray(
            np.asarray(arr[i], dtype=np.int64)).tobytes())
            for i in range(len(arr))]
    if feat == "trace":
        keys = sorted(arr.keys())
        data = {k: np.asarray(arr[k][:], dtype=np.int64) for k in keys}
        if len(set(len(v) for v in data.values())) > 1:
            raise ValueError("trace channels of unequal length %s" % {
                k: len(v) for k, v in data.items()})
        n = len(data[keys[0]]) if keys else 0
        return [zlib.crc32(b"".join(k.encode() + data[k][i].tobytes()
                                    for k in keys)) for i in range(n)]
    a = np.asarray(arr[:])
    if feat == "time":
        out = []
        for v in np.asarray(a, dtype=np.float64):
            k = float(v) * 8
            if k != int(k):
                raise ValueError("time %r is not a multiple of 1/8" % v)
            out.append(int(k))
        return out
    if feat in ("frame", "index_online", "index"):
        return [int(v) for v in a]
    return [int(v) for v in np.asarray(a, dtype=np.float64).view(np.int64)]


def read_dataset(path):
    """What join sees of an input: innate/available features within the
    universe and the columns of every available feature."""
    import numpy as np
    import dclab
    with dclab.new_dataset(path) as ds:
        innate = [f for f in ds.features_innate if f in FID]
        avail = [f for f in ds.features if f in FID]
        cols = {}
        raw = {}
        for f in avail:
            if f in NONSCALAR:
                cols[f] = enc_values(f, ds[f])
                raw[f] = np.array(cols[f], dtype=np.int64)
            else:
                raw[f] = ds[f][:]
                cols[f] = enc_values(f, raw[f])
        logs = {k: list(ds.logs[k]) for k in ds.logs.keys()}
        n = len(ds)
        sample = ds.config["experiment"].get("sample", "")
        tables = {k: table_dict(ds.tables[k]) for k in ds.tables.keys()}
        tkeys = sorted(ds["trace"].keys()) if "trace" in innate else []
    return dict(innate=innate, avail=avail, cols=cols, raw=raw, logs=logs, n=n,
                sample=sample, tables=tables, trace_keys=tkeys,
                dtypes=stored_dtypes(path))


def table_dict(tab):
    """a table as {column: list of floats}"""
    import numpy as np
    from . import gen
    arr = gen.table_array(tab)
    if arr.dtype.names:
        return {c: [float(v) for v in np.asarray(arr[c]).ravel()]
                for c in arr.dtype.names}
    return {"": [float(v) for v in np.asarray(arr).ravel()]}


def tables_retained(outtabs, prefix, intabs):
    """None if every input table is in the output under prefix+name with the
    same columns and values"""
    for name, cols in intabs.items():
        if prefix + name not in outtabs:
            return "table %s not retained (as %s)" % (name, prefix + name)
        if outtabs[prefix + name] != cols:
            return "table %s changed" % name
    return None


def stored_dtypes(path):
    """dtype of every scalar feature as stored in the file"""
    import h5py
    out = {}
    with h5py.File(path, "r") as h5:
        for k, v in h5["events"].items():
            if hasattr(v, "dtype") and v.ndim == 1:
                out[k] = str(v.dtype)
    return out


def stored_dtype_diff(path_out, feats, infos_in_order):
    """features that are plain copies must be stored with the dtype they have
    in the inputs that store them (a float32 cast loses bits)"""
    got = stored_dtypes(path_out)
    for f in feats:
        if f in NONSCALAR or f in ("index", "frame", "index_online", "time"):
            continue
        want = set(i["dtypes"][f] for i in infos_in_order
                   if f in i.get("dtypes", {}))
        if len(want) == 1 and f in got and got[f] not in want:
            return "feature %s is stored as %s, the inputs store it as %s" % (
                f, got[f], sorted(want))
    return None


def feature_array(ds, f):
    """values of a feature for comparisons: checksums per event for
    non-scalar features"""
    import numpy as np
    if f in NONSCALAR:
        return np.array(enc_values(f, ds[f]), dtype=np.int64)
    return np.asarray(ds[f][:])


def sample_id(name):
    """id of a sample name; the suffix ' i/n' that split appends is dropped
    (it is checked by the split oracle)"""
    import re
    name = re.sub(r" \d+/\d+$", "", name)
    return SAMPLES.index(name) if name in SAMPLES else 99


def zl(xs):
    xs = list(xs)
    return common.zlist(xs) if xs else "(@nil Z)"


def render_meas(inp, info):
    def s(x):
        return zl([ord(c) for c in x])
    rate8 = inp["rate"] * 8
    assert rate8 == int(rate8)
    cols = common.clist(["(%d, %s)" % (FID[f], zl(info["cols"][f]))
                         for f in info["avail"]])
    lognames = sorted(LOGID[n] for n in info["logs"] if n in LOGID)
    return "(%s, %s, %s, %s, %s, %s, %s, %s, %d)" % (
        s(inp["date"]), s(inp["time"]), common.zlit(inp["run"]),
        common.zlit(int(rate8)),
        zl([FID[f] for f in info["innate"]]),
        zl([FID[f] for f in info["avail"]]), cols,
        zl(lognames), sample_id(inp.get("sample", SAMPLES[0])))


def enc_logname(name):
    """(source, id) of a log of a joined file"""
    if name.startswith("dclab-export_"):
        return (0, 0)
    if name == "dclab-join":
        return (0, 1)
    if name == "dclab-join-feature-warnings":
        return (0, 2)
    if name.startswith("src-#"):
        head, _, tail = name[5:].partition("_")
        try:
            i = int(head)
        except ValueError:
            return (0, 999)
        if tail == "cfg":
            return (i, LOG_CFG)
        return (i, LOGID.get(tail, 998))
    return (0, 999)


def encode_joined(path_out, order):
    """flat encoding of a joined file, as Model/C09.v:enc_join"""
    import dclab
    with dclab.new_dataset(path_out) as ds:
        feats = sorted((f for f in ds.features_innate if f in FID),
                       key=lambda f: FID[f])
        flat = [0, len(order)] + list(order) + [len(feats)] + \
            [FID.get(f, 10 ** 7) for f in feats]
        for f in feats:
            vals = enc_values(f, ds[f])
            flat += [FID.get(f, 10 ** 7), len(vals)] + vals
        # logs the model does not know (e.g. dclab-join-warnings-#i, or a
        # log added by a later dclab version) are not part of the property
        # ... nor is the log export.hdf5 writes for the first input (an
        # internal: the model lists it, the comparison drops it on both sides)
        logs = sorted(p for p in (enc_logname(k) for k in ds.logs.keys())
                      if p not in ((0, 999), (0, 0)))
        flat += [len(logs)]
        for a, b in logs:
            flat += [a, b]
        exp = ds.config["experiment"]
        date = [ord(c) for c in str(exp.get("date", ""))]
        tm = [ord(c) for c in str(exp.get("time", ""))]
        flat += [len(date)] + date + [len(tm)] + tm
        flat += [sample_id(str(exp.get("sample", ""))),
                 int(exp.get("run index", -1)),
                 int(exp.get("event count", -1))]
    return flat


ERRCODE = {"KeyError": 1, "OverflowError": 2, "ValueError": 3}
FIND_TRACE_KEYS = "C09-join-trace-channels-differ"


def strict_datetime_ok(date, tm):
    """is (date, time) a 'YYYY-MM-DD', 'HH:MM:SS[.digits]' pair of an existing
    calendar day/time? (independent of strptime)"""
    import re
    m = re.match(r"^(\d{4})-(\d{2})-(\d{2})$", date)
    t = re.match(r"^(\d{2}):(\d{2}):(\d{2})(\.\d+)?$", tm)
    if not m or not t:
        return False
    try:
        datetime.date(int(m.group(1)), int(m.group(2)), int(m.group(3)))
    except ValueError:
        return False
    return int(t.group(1)) < 24 and int(t.group(2)) < 60 and \
        int(t.group(3)) < 60


def trace_keys_differ(infos):
    ks = [tuple(i.get("trace_keys", [])) for i in infos
          if "trace" in i["innate"]]
    return len(set(ks)) > 1


# --------------------------------------------------------------------------
# join: implementation + oracle
# --------------------------------------------------------------------------
def py_round_half_even(x):
    return round(x)


def join_oracle(inputs, infos, order_impl_unused, path_out, exc,
                universe=None, skip=()):
    """Model-independent judgement of one join. Returns description or None."""
    import numpy as np
    import dclab
    k = len(inputs)
    bad = [i for i in inputs if not strict_datetime_ok(i["date"], i["time"])]
    if k < 2 or bad:
        # nothing to join / no acquisition time.  The property says nothing
        # about such calls; judged is only that a refusal leaves no file
        # (a more tolerant parser that produces a file is not an alarm)
        if exc is not None and (os.path.exists(path_out)
                                or os.path.exists(path_out + "~")):
            return "join raised %s but left a file behind" % exc
        return None
    acq = [acq_seconds(i) for i in inputs]
    order = sorted(range(k), key=lambda i: (acq[i], inputs[i]["run"]))
    if exc is not None:
        return "join raised %s" % exc
    first = infos[order[0]]
    feats = [f for f in sorted(first["innate"])
             if all(f in infos[j]["avail"] for j in order[1:])]
    with dclab.new_dataset(path_out) as ds:
        universe = FID if universe is None else universe
        got = sorted(f for f in ds.features_innate if f in universe)
        if got != sorted(feats):
            return "features of the joined file %s, common features %s" % (
                got, sorted(feats))
        ntot = sum(infos[j]["n"] for j in order)
        if len(ds) != ntot and not skip:
            return "joined file has %d events, inputs have %d" % (len(ds), ntot)
        # the joined file stands alone: no basins (task_join: basins=False),
        # nothing available beyond what is stored or computable from it
        if len(ds.basins):
            return "the joined file refers to %d basin(s)" % len(ds.basins)
        d = stored_dtype_diff(path_out, feats, [infos[j] for j in order])
        if d:
            return d
        t0 = acq[order[0]]
        for f in feats:
            if f in skip:
                continue
            parts = []
            last_ido = None
            for pos, j in enumerate(order):
                col = np.asarray(infos[j]["raw"][f])
                ti = acq[j] - t0
                if f == "time":
                    col = col + ti
                elif f == "frame":
                    col = np.array(col, dtype=np.int64) + int(
                        round(ti * inputs[j]["rate"]))
                elif f == "index_online":
                    if pos > 0:
                        col = col + (last_ido + 1)
                    last_ido = col[-1]
                parts.append(col)
            want = np.concatenate(parts)
            if f == "index":
                want = np.arange(1, ntot + 1)
            try:
                have = feature_array(ds, f)
            except ValueError as e:
                return "feature %s of the joined file: %s" % (f, e)
            if f in NONSCALAR:
                same = bool(np.array_equal(np.asarray(have), want))
            else:
                same = bool(np.array_equal(
                    np.asarray(have, dtype=np.float64),
                    np.asarray(want, dtype=np.float64), equal_nan=True))
            if not same:
                return ("feature %s of the joined file is %s, the inputs in "
                        "chronological order %s give %s" % (
                            f, _short(have), [int(j) for j in order],
                            _short(want)))
        outlogs = {kk: list(ds.logs[kk]) for kk in ds.logs.keys()}
        for pos, j in enumerate(order):
            if "src-#%d_cfg" % (pos + 1) not in outlogs:
                return "log src-#%d_cfg missing" % (pos + 1)
            for name, lines in infos[j]["logs"].items():
                key = "src-#%d_%s" % (pos + 1, name)
                if key not in outlogs:
                    return "log %s of input %d not retained" % (name, j)
                if outlogs[key] != lines:
                    return "log %s of input %d changed" % (name, j)
        if "dclab-join" not in outlogs:
            return "log dclab-join missing"
        outtabs = {kk: table_dict(ds.tables[kk]) for kk in ds.tables.keys()}
        for pos, j in enumerate(order):
            t = tables_retained(outtabs, "src-#%d_" % (pos + 1),
                                infos[j].get("tables", {}))
            if t:
                return "input %d: %s" % (j, t)
        # metadata: those of the earliest input, run index 1, event count
        exp = ds.config["experiment"]
        e0 = inputs[order[0]]
        want_meta = dict(date=e0["date"], time=e0["time"],
                         sample=infos[order[0]]["sample"])
        for key, val in want_meta.items():
            if str(exp.get(key)) != str(val):
                return ("experiment:%s of the joined file is %r, the earliest "
                        "input (%d) has %r" % (key, exp.get(key), order[0], val))
        if exp.get("run index") != 1:
            return "experiment:run index of the joined file is %r, not 1" % (
                exp.get("run index"),)
        if exp.get("event count") != ntot and not skip:
            return "experiment:event count is %r, the inputs hold %d events" % (
                exp.get("event count"), ntot)
    return None


def arr_same(a, b):
    import numpy as np
    a, b = np.asarray(a), np.asarray(b)
    if a.dtype.kind == "f" or b.dtype.kind == "f":
        return bool(np.array_equal(a, b, equal_nan=True))
    return bool(np.array_equal(a, b))


def _short(a):
    import numpy as np
    a = np.asarray(a)
    if a.ndim > 1:
        return "array%s" % (list(a.shape),)
    return [float(x) for x in a[:12]]


def exec_join(case, wd):
    from dclab.cli import join
    inputs = case["inputs"]
    paths = [write_input(os.path.join(
        wd, "%s.rtdc" % inp.get("fname", "in%d" % i)), inp)
        for i, inp in enumerate(inputs)]
    infos = [read_dataset(p) for p in paths]
    nomodel = bool(case.get("nomodel"))
    coq = None if nomodel else common.clist(
        [render_meas(i, f) for i, f in zip(inputs, infos)])
    path_out = os.path.join(wd, "out.rtdc")
    exc = None
    try:
        join(paths_in=list(paths), path_out=path_out)
    except BaseException as e:
        if isinstance(e, (KeyboardInterrupt, SystemExit)):
            raise
        exc = "%s: %s" % (type(e).__name__, str(e)[:160])
        ename = type(e).__name__
    expect_error = len(inputs) < 2 or any(
        not strict_datetime_ok(i["date"], i["time"]) for i in inputs)
    fail = join_oracle(inputs, infos, None, path_out, exc)
    finding = None
    if exc is None:
        # order as observed: the command log lists the inputs as sorted
        order = observed_order(path_out, paths, inputs)
        try:
            impl = None if nomodel else encode_joined(path_out, order)
        except Exception as e:
            impl = [8]           # the output cannot be read consistently
            if fail is None:
                fail = "joined file unreadable: %r" % (e,)
    else:
        impl = [ERRCODE.get(ename, 9)]
        if expect_error:
            impl = [3]           # the model's "refused" (any error class)
        if os.path.exists(path_out + "~"):
            exc += " (temporary file left behind)"
    if expect_error and exc is None:
        nomodel = True           # a tolerant parser: outside the model
    if fail is not None and exc is None and trace_keys_differ(infos):
        # known finding: trace channels that are not in every input are
        # written for some inputs only (trace datasets of unequal length).
        # Exactly that: the trace datasets differ in length and everything
        # but "trace" (and the event count derived from it) is right.
        import h5py
        with h5py.File(path_out, "r") as h5:
            lens = set(int(h5["events/trace"][kk].shape[0])
                       for kk in h5["events/trace"]) \
                if "trace" in h5["events"] else set()
        if len(lens) > 1:
            rest = join_oracle(inputs, infos, None, path_out, exc,
                               skip=("trace",))
            if rest is None:
                finding = FIND_TRACE_KEYS
            else:
                fail = rest
            nomodel = True
    try:
        acq = [acq_seconds(i) for i in inputs]
    except ValueError:
        acq = list(range(len(inputs)))
    nontrivial = len(set(acq)) > 1 or \
        len(set(tuple(sorted(f["innate"])) for f in infos)) > 1
    tags = ["join:k=%d" % len(inputs)]
    if len(set(tuple(sorted(f["innate"])) for f in infos)) > 1:
        tags.append("join:differing-feature-sets")
    if len(set(acq)) < len(acq):
        tags.append("join:time-ties")
    keys = [(a, i["run"]) for a, i in zip(acq, inputs)]
    names = [os.path.basename(p) for p in paths]
    if any(keys[a] == keys[b] and names[a] > names[b]
           for a in range(len(keys)) for b in range(a + 1, len(keys))):
        tags.append("join:key-ties-against-path-order")
    if any(len(i["time"]) > 8 for i in inputs):
        tags.append("join:fractional-seconds")
    if any(set(f["avail"]) - set(f["innate"]) - {"index"} for f in infos):
        tags.append("join:computable-features")
    tags.append("join:" + ("ok" if exc is None else impl and "error-%d" % impl[0]))
    extra = None
    if exc is None and all("trace" in f["innate"] for f in infos):
        # rows per trace channel (read with h5py: the datasets may differ in
        # length) against Model/C09.v:trace_lengths, inputs in output order
        import h5py
        with h5py.File(path_out, "r") as h5:
            if "trace" in h5["events"]:
                got = []
                for kk in sorted(h5["events/trace"].keys(),
                                 key=TRACE_KEYS.index):
                    got += [TRACE_KEYS.index(kk),
                            int(h5["events/trace"][kk].shape[0])]
                rend = common.clist(["(%d, %s)" % (
                    infos[j]["n"], zl([TRACE_KEYS.index(kk)
                                       for kk in infos[j]["trace_keys"]]))
                    for j in order])
                extra = dict(fn="trace_len_flat", coq=rend, impl=got)
    if any(i.get("tables") for i in inputs):
        tags.append("join:tables")
    if trace_keys_differ(infos):
        tags.append("join:trace-channels-differ")
    if nomodel:
        tags.append("join:oracle-only")
    return dict(impl=None if nomodel else impl, coq=None if nomodel else coq,
                fn=None if nomodel else "join_flat", fail=fail,
                finding=finding, nontrivial=nontrivial, tags=tags, extra=extra)


def observed_order(path_out, paths, inputs=None):
    """positions of the inputs in the order join used them (dclab-join log);
    if that log cannot be interpreted (another format): the chronological
    order the data are checked against anyway"""
    import dclab
    try:
        with dclab.new_dataset(path_out) as ds:
            data = json.loads("\n".join(ds.logs["dclab-join"]))
        names = [os.path.basename(p) for p in paths]
        files = sorted(data["files"], key=lambda d: d["index"])
        return [names.index(d["name"]) for d in files]
    except Exception:
        if inputs is None:
            return list(range(len(paths)))
        acq = [acq_seconds(i) for i in inputs]
        return sorted(range(len(inputs)),
                      key=lambda i: (acq[i], inputs[i]["run"]))


# --------------------------------------------------------------------------
# split
# --------------------------------------------------------------------------
def split_skips(case):
    """which boundary events dclab-split documents to skip: the first one if
    its image or its contour is entirely zero, the last one if its image is
    entirely zero (evaluated on the generated data, not through dclab)"""
    import numpy as np
    feats = case["input"]["feats"]
    img = feats.get("image")
    cnt = feats.get("contour")
    # a stored contour; a contour computed from one of the generated
    # (rectangular, non-empty) masks has non-zero coordinates
    cnt0_zero = cnt is not None and bool(np.all(contour_of(cnt[0]) == 0))
    img0_zero = img is not None and bool(np.all(image_of(img[0]) == 0))
    imgl_zero = img is not None and bool(np.all(image_of(img[-1]) == 0))
    s0 = bool(case.get("initial") and (cnt0_zero or img0_zero))
    s1 = bool(case.get("final") and imgl_zero)
    return s0, s1


def render_events(path, n):
    """the events as skip_empty_image_events sees them (read from the input
    through dclab): pixels of the first and last image, coordinates of the
    first contour (stored or computed); inner events carry a placeholder"""
    import numpy as np
    import dclab
    with dclab.new_dataset(path) as ds:
        has_img = "image" in ds
        has_cnt = "contour" in ds
        px = {}
        if has_img:
            for i in {0, n - 1}:
                px[i] = [int(v) for v in np.asarray(ds["image"][i]).ravel()]
        c0 = [int(v) for v in np.asarray(ds["contour"][0]).ravel()] \
            if has_cnt else []
    evs = []
    for i in range(n):
        evs.append("(%d, (%s, %s), (%s, %s))" % (
            i, common.blit(has_img), zl(px.get(i, [1])),
            common.blit(has_cnt), zl(c0 if i == 0 else [1])))
    return "[" + "; ".join(evs) + "]"


def split_has_empty_part(case):
    """matcher of the known finding C09-split-empty-part: some part consists
    only of boundary events that are skipped"""
    n, k = case["input"]["n"], case["k"]
    s0, s1 = split_skips(case)
    nparts = n // k + (1 if n % k else 0)
    for ii in range(nparts):
        idx = [j for j in range(ii * k, min((ii + 1) * k, n))
               if not (s0 and j == 0) and not (s1 and j == n - 1)]
        if not idx:
            return True
    return False


def check_basin(ds, ids, info, pi):
    """the basin a split part keeps to its input maps its events to the
    right input events"""
    import numpy as np
    if "basinmap0" not in ds.features_innate:
        return "part %d has no basin map" % (pi + 1)
    bm = [int(v) for v in ds["basinmap0"][:]]
    if bm != ids:
        return "part %d: basinmap0 is %s, its events are input events %s" % (
            pi + 1, bm, ids)
    bns = [b for b in ds.basins if b.mapping == "basinmap0"]
    if not bns:
        return "part %d: no basin uses basinmap0" % (pi + 1)
    bn = bns[0]
    if not bn.is_available():
        return "part %d: the basin to the input file is not available" % (pi + 1)
    for f in info["innate"]:
        if f in NONSCALAR or f == "index":
            continue
        via = np.asarray(bn.ds[f][:])
        want = np.asarray(info["raw"][f])[ids]
        if via.shape != want.shape or not arr_same(via, want):
            return "part %d: %s through the basin is %s, input events give %s" % (
                pi + 1, f, _short(via), _short(want))
    return None


def exec_split(case, wd):
    import numpy as np
    import dclab
    from dclab.cli import split
    inp = case["input"]
    path = write_input(os.path.join(wd, "m.rtdc"), inp)
    info = read_dataset(path)
    outdir = os.path.join(wd, "parts")
    os.makedirs(outdir)
    n, k = inp["n"], case["k"]
    coq = "(%s, %d, %s, %s)" % (render_events(path, n), k,
                                 common.blit(case["initial"]),
                                 common.blit(case["final"]))
    exc = None
    fail = None
    finding = None
    try:
        paths = split(path_in=path, path_out=outdir, split_events=k,
                      skip_initial_empty_image=case["initial"],
                      skip_final_empty_image=case["final"],
                      ret_out_paths=True)
    except BaseException as e:
        if isinstance(e, (KeyboardInterrupt, SystemExit)):
            raise
        exc = "%s: %s" % (type(e).__name__, str(e)[:160])
        # the export of an event-less part fails with a ValueError (the
        # message is not part of the judgement)
        impl = [1] if isinstance(e, ValueError) else [9]
    if exc is not None:
        left = [f for f in os.listdir(outdir) if f.endswith("~")]
        fail = "split(N=%d, split_events=%d) raised %s%s" % (
            n, k, exc, " (temporary files left behind)" if left else "")
        if impl == [1] and split_has_empty_part(case):
            finding = FIND_EMPTY_PART
        return dict(impl=impl, coq=coq, fn="split_flat", fail=fail,
                    finding=finding, nontrivial=True,
                    tags=["split:error", "split:skip"])
    s0, s1 = split_skips(case)
    keep = [j for j in range(n) if not (s0 and j == 0)
            and not (s1 and j == n - 1)]
    impl = [0, len(paths)]
    collected = {f: [] for f in info["innate"]}
    finding = None
    fail_empty = None
    for pi, pp in enumerate(paths):
        with dclab.new_dataset(pp) as ds:
            empty = "userdef1" not in ds.features_innate
            ids = [] if empty else [int(v) for v in ds["userdef1"][:]]
            impl += [len(ids)] + ids
            # sample name: "<sample> i/num_files"
            sname = str(ds.config["experiment"].get("sample", ""))
            head, _, tail = sname.rpartition(" ")
            try:
                si, sn = (int(x) for x in tail.split("/"))
            except ValueError:
                si, sn = -1, -1
            impl += [si, sn]
            if fail is None and (head != info["sample"] or si != pi + 1
                                 or sn != len(paths)):
                fail = "part %d: sample name %r, expected %r" % (
                    pi + 1, sname, "%s %d/%d" % (info["sample"], pi + 1,
                                                 len(paths)))
            # the mapped basin back to the input: part event i is input
            # event basinmap0[i]; features read through the basin agree
            if empty:
                # a file without events: usable by nothing (join refuses it)
                if fail_empty is None:
                    fail_empty = "part %d of %d holds no events" % (
                        pi + 1, len(paths))
                continue
            if fail is None:
                fail = check_basin(ds, ids, info, pi)
            if len(ds) > k and fail is None:
                fail = "part %d holds %d events, split_events=%d" % (
                    pi + 1, len(ds), k)
            if len(ds) == 0 and fail is None:
                fail = "part %d is empty" % (pi + 1)
            pf = sorted(f for f in ds.features_innate if f in FID)
            if pf != sorted(info["innate"]) and fail is None:
                fail = "part %d has features %s, the input %s" % (
                    pi + 1, pf, sorted(info["innate"]))
            for f in info["innate"]:
                if f in ds.features_innate:
                    collected[f].append(feature_array(ds, f))
            if "index" in ds.features_innate and fail is None:
                if list(ds["index"][:]) != list(range(1, len(ds) + 1)):
                    fail = "part %d: index is not 1..N" % (pi + 1)
            for name, lines in info["logs"].items():
                if fail is None and list(ds.logs["src_" + name]
                                         if "src_" + name in ds.logs else []) != lines:
                    fail = "part %d: log %s not retained" % (pi + 1, name)
            if fail is None and info["tables"]:
                t = tables_retained({kk: table_dict(ds.tables[kk])
                                     for kk in ds.tables.keys()}, "src_",
                                    info["tables"])
                if t:
                    fail = "part %d: %s" % (pi + 1, t)
    if fail is None:
        for f in info["innate"]:
            if f == "index":
                continue
            want = np.asarray(info["raw"][f])[keep]
            have = np.concatenate(collected[f]) if collected[f] else want[:0]
            if have.shape != want.shape or not arr_same(have, want):
                fail = ("feature %s: the parts together hold %s, the input "
                        "(without skipped boundary events) %s" % (
                            f, _short(have), _short(want)))
                break
    if fail is None:
        for pp in paths:
            got = stored_dtypes(pp)
            for f, dt in info["dtypes"].items():
                if f in got and f not in ("index", "frame") and got[f] != dt:
                    fail = "feature %s is stored as %s in %s, the input has %s" % (
                        f, got[f], os.path.basename(str(pp)), dt)
    if fail is None and fail_empty is not None:
        # everything else is right: exactly the known symptom
        fail = fail_empty
        if split_has_empty_part(case):
            finding = FIND_EMPTY_PART
    nparts_expected = -(-n // k)
    tags = ["split:parts=%d" % min(len(paths), 5)]
    if s0 or s1:
        tags.append("split:skip")
    if k > n:
        tags.append("split:k>N")
    elif n % k == 0:
        tags.append("split:k-divides-N")
    else:
        tags.append("split:k-does-not-divide-N")
    if k == 1:
        tags.append("split:k=1")
    feats = inp["feats"]
    if "image" in feats and any(v < 0 for v in (feats["image"][0],
                                                feats["image"][-1])):
        tags.append("split:boundary-image-partially-zero")
    if "contour" in feats and feats["contour"][0] <= 0:
        tags.append("split:first-contour-with-zeros")
    if "mask" in feats and "contour" not in feats:
        tags.append("split:contour-computed-from-mask")
    if finding:
        tags.append("split:event-less-part")
    return dict(impl=impl, coq=coq, fn="split_flat", fail=fail, finding=finding,
                nontrivial=(len(paths) > 1 or s0 or s1), tags=tags,
                nparts_expected=nparts_expected)



# --------------------------------------------------------------------------
# join of the tdms fixtures of dclab's test suite (oracle only: real data,
# not multiples of 1/8)
# --------------------------------------------------------------------------
def gen_tdms_case(rng):
    k = rng.choice([2, 2, 3])
    fx = [rng.choice([0, 0, 1]) for _ in range(k)]
    return dict(kind="jointdms", fixtures=fx,
                prefixes=rng.sample(range(1, 10), k))


def exec_jointdms(case, wd):
    import zipfile
    import numpy as np
    import dclab
    from dclab import definitions as dfn
    from dclab.cli import join
    from dclab.rtdc_dataset.writer import FEATURES_UINT32
    paths = []
    for i, (fx, pre) in enumerate(zip(case["fixtures"], case["prefixes"])):
        zp = os.path.join(common.REPO, "tests", "data",
                          TDMS_FIXTURES[fx] + ".zip")
        if not os.path.exists(zp):
            return dict(impl=None, coq=None, fn=None, fail=None, finding=None,
                        nontrivial=False, tags=["jointdms:fixture-missing"])
        sd = os.path.join(wd, "t%d" % i)
        zipfile.ZipFile(zp).extractall(sd)
        for name in os.listdir(sd):          # measurement prefix M1_ -> Mn_
            if name.startswith("M1_"):
                os.rename(os.path.join(sd, name),
                          os.path.join(sd, "M%d_" % pre + name[3:]))
        paths.append(os.path.join(sd, "M%d_data.tdms" % pre))
    inputs, infos = [], []
    for pth in paths:
        with dclab.new_dataset(pth) as ds:
            exp = ds.config["experiment"]
            inputs.append(dict(date=exp["date"], time=exp["time"],
                               run=exp["run index"],
                               rate=ds.config["imaging"]["frame rate"]))
            innate = [f for f in ds.features_innate
                      if dfn.scalar_feature_exists(f)]
            avail = [f for f in ds.features if dfn.scalar_feature_exists(f)]
            raw = {}
            for f in innate:
                raw[f] = np.asarray(ds[f][:])
                if f in FEATURES_UINT32:
                    # the .rtdc format stores these as uint32: a negative
                    # value of the tdms data (fl2_max = -20 in the 2fl
                    # fixture) is stored as 0 by RTDCWriter (see report)
                    raw[f] = np.where(raw[f] < 0, 0, raw[f])
            infos.append(dict(innate=innate, avail=avail, raw=raw, n=len(ds),
                              logs={k: list(ds.logs[k]) for k in ds.logs.keys()},
                              sample=exp.get("sample", "")))
    universe = set(f for i in infos for f in i["avail"])
    path_out = os.path.join(wd, "out.rtdc")
    exc = None
    try:
        join(paths_in=list(paths), path_out=path_out)
    except Exception as e:
        exc = "%s: %s" % (type(e).__name__, str(e)[:160])
    fail = join_oracle(inputs, infos, None, path_out, exc, universe=universe)
    return dict(impl=None, coq=None, fn=None, fail=fail, finding=None,
                nontrivial=True,
                tags=["jointdms:k=%d" % len(paths),
                      "jointdms:" + ("ok" if exc is None else "error")])

# --------------------------------------------------------------------------
# join of split
# --------------------------------------------------------------------------
def exec_joinsplit(case, wd):
    import numpy as np
    import dclab
    from dclab.cli import join, split
    inp = case["input"]
    path = write_input(os.path.join(wd, "m.rtdc"), inp)
    info = read_dataset(path)
    outdir = os.path.join(wd, "parts")
    os.makedirs(outdir)
    n, k = inp["n"], case["k"]
    initial, final = bool(case.get("initial")), bool(case.get("final"))
    s0, s1 = split_skips(case)
    # the model is given what join sees of the *original* measurement; the
    # split of the columns is part of the model (split_meas)
    info_m = dict(info, logs={})
    coq = "(%s, %d, %d, %s, %s)" % (render_meas(inp, info_m), n, k,
                                    common.blit(s0), common.blit(s1))
    path_out = os.path.join(wd, "joined.rtdc")
    fail = None
    tags = []
    if s0 or s1:
        tags.append("joinsplit:boundary-skipped")
    try:
        paths = split(path_in=path, path_out=outdir, split_events=k,
                      skip_initial_empty_image=initial,
                      skip_final_empty_image=final, ret_out_paths=True)
    except BaseException as e:
        if isinstance(e, (KeyboardInterrupt, SystemExit)):
            raise
        fail = "split(N=%d, split_events=%d) raised %s: %s" % (
            n, k, type(e).__name__, str(e)[:160])
        finding = FIND_EMPTY_PART if (isinstance(e, ValueError) and
                                      split_has_empty_part(case)) else None
        return dict(impl=None, coq=None, fn=None, fail=fail, finding=finding,
                    nontrivial=True, tags=tags + ["joinsplit:split-error"])
    try:
        ren = case.get("rename") or []
        if len(ren) == len(paths):
            # the parts, renamed so that their names are not in order
            newp = []
            for pth, nm in zip(paths, ren):
                q = os.path.join(outdir, nm + ".rtdc")
                os.rename(str(pth), q)
                newp.append(q)
            paths = newp
        join(paths_in=[str(p) for p in paths], path_out=path_out)
    except BaseException as e:
        if isinstance(e, (KeyboardInterrupt, SystemExit)):
            raise
        code = ERRCODE.get(type(e).__name__, 9)
        if len(paths) < 2 and isinstance(e, ValueError):
            # a single part: join refuses fewer than two inputs
            return dict(impl=[code], coq=coq, fn="join_split_flat", fail=None,
                        finding=None, nontrivial=False,
                        tags=tags + ["joinsplit:single-part"])
        fail = "join(split(ds, %d)) raised %s: %s" % (
            k, type(e).__name__, str(e)[:160])
        if split_has_empty_part(case) and isinstance(e, ValueError):
            # an event-less part (finding): join refuses the empty data; the
            # model (split_meas with an event-less part) says the same
            return dict(impl=[code], coq=coq, fn="join_split_flat", fail=fail,
                        finding=FIND_EMPTY_PART, nontrivial=True,
                        tags=tags + ["joinsplit:event-less-part"])
        return dict(impl=[code], coq=coq, fn="join_split_flat", fail=fail,
                    finding=None, nontrivial=True,
                    tags=tags + ["joinsplit:error"])
    order = observed_order(path_out, [str(p) for p in paths])
    impl = encode_joined(path_out, order)
    # the split parts carry logs (src_*, dclab-split...) the model of the
    # original measurement does not know about: drop the per-source logs
    impl = strip_source_logs(impl)
    keep = [j for j in range(n) if not (s0 and j == 0)
            and not (s1 and j == n - 1)]
    windows = [[j for j in range(a, min(a + k, n)) if j in keep]
               for a in range(0, n, k)]
    symptom = False
    with dclab.new_dataset(path_out) as dj:
        jf = sorted(f for f in dj.features_innate if f in FID)
        if jf != sorted(info["innate"]):
            fail = "joined parts have features %s, the original %s" % (
                jf, sorted(info["innate"]))
            # the exact symptom of the known finding: an event-less part made
            # join drop every feature
            symptom = (jf == [] and split_has_empty_part(case))
        elif len(dj.basins):
            fail = "the joined file refers to %d basin(s)" % len(dj.basins)
        elif len(dj) != len(keep):
            fail = "joined parts have %d events, the original %d (%d " \
                   "boundary events skipped)" % (len(dj), n, n - len(keep))
        elif str(dj.config["experiment"].get("sample")) != "%s 1/%d" % (
                info["sample"], len(paths)):
            fail = "sample of the joined parts is %r" % (
                dj.config["experiment"].get("sample"),)
        elif dj.config["experiment"].get("event count") != len(keep):
            fail = "event count of the joined parts is %r, not %d" % (
                dj.config["experiment"].get("event count"), len(keep))
        else:
            for f in info["innate"]:
                orig = np.asarray(info["raw"][f])
                want = orig[keep]
                have = feature_array(dj, f)
                if f == "index":
                    want = np.arange(1, len(keep) + 1)
                if f == "index_online":
                    # documented rule: each later part is shifted by the last
                    # value written so far + 1
                    parts, last = [], None
                    for w in windows:
                        col = orig[w]
                        if last is not None:
                            col = col + (last + 1)
                        if len(col):
                            last = col[-1]
                        parts.append(col)
                    want = np.concatenate(parts)
                if have.shape != want.shape or not arr_same(have, want):
                    fail = ("feature %s after join(split(ds, %d)) is %s, "
                            "originally %s" % (f, k, _short(have),
                                               _short(want)))
                    break
    if fail is None:
        got = stored_dtypes(path_out)
        for f, dt in info["dtypes"].items():
            if f in got and f not in ("index", "frame", "index_online",
                                      "time") and got[f] != dt:
                fail = "feature %s is stored as %s, the original as %s" % (
                    f, got[f], dt)
    finding = FIND_EMPTY_PART if symptom else None
    if symptom:
        tags.append("joinsplit:event-less-part")
    return dict(impl=impl, coq=coq, fn="join_split_flat", fail=fail,
                finding=finding, nontrivial=True,
                tags=tags + ["joinsplit:parts=%d" % min(len(paths), 5)])


def _log_section(flat):
    """index of the log count in an enc_join encoding"""
    p = 1
    p += 1 + flat[p]
    nf = flat[p]
    p += 1 + nf
    for _ in range(nf):
        p += 2 + flat[p + 1]
    return p


def drop_export_log(flat):
    """remove the pair (0, 0) (dclab-export_* log) from a model encoding"""
    if not flat or flat[0] != 0:
        return flat
    p = _log_section(flat)
    nl = flat[p]
    pairs = [(flat[p + 1 + 2 * i], flat[p + 2 + 2 * i]) for i in range(nl)]
    keep = [q for q in pairs if q != (0, 0)]
    out = flat[:p] + [len(keep)]
    for a, b in keep:
        out += [a, b]
    return out + flat[p + 1 + 2 * nl:]


def strip_source_logs(flat):
    """keep everything of an enc_join encoding but the per-source logs other
    than src-#i_cfg"""
    if flat[0] != 0:
        return flat
    # find the log section: it is the tail; recompute from the end
    # layout: ... [nlogs] (a, b)*nlogs
    # walk the encoding
    p = 1
    no = flat[p]
    p += 1 + no
    nf = flat[p]
    p += 1 + nf
    for _ in range(nf):
        ln = flat[p + 1]
        p += 2 + ln
    nl = flat[p]
    pairs = [(flat[p + 1 + 2 * i], flat[p + 2 + 2 * i]) for i in range(nl)]
    keep = [(a, b) for a, b in pairs if a == 0 or b == LOG_CFG]
    out = flat[:p] + [len(keep)]
    for a, b in keep:
        out += [a, b]
    return out + flat[p + 1 + 2 * nl:]



# --------------------------------------------------------------------------
# Python semantics assumed by Common/PyList.v, checked against the interpreter
# --------------------------------------------------------------------------
def gen_pysem_case(rng):
    tag = rng.choice([0, 0, 0, 1, 2, 2, 3, 3, 4, 4, 5, 6, 6, 6, 7, 7])
    if tag in (0, 1):
        n = rng.randint(0, 9)
        l1 = rng.sample(range(1, 30), n)
        if rng.random() < 0.5:
            l1 = sorted(l1)
        l2 = [x for x in l1 if rng.random() < 0.55] + \
            [rng.randint(30, 40) for _ in range(rng.randint(0, 2))]
        rng.shuffle(l2)
    elif tag == 2:
        alpha = [45, 46, 48, 49, 50, 53, 57, 58, 95]
        l1 = [rng.choice(alpha) for _ in range(rng.randint(0, 6))]
        l2 = list(l1[:rng.randint(0, len(l1))]) if rng.random() < 0.6 else []
        l2 += [rng.choice(alpha) for _ in range(rng.randint(0, 3))]
    elif tag == 3:
        l1 = [rng.randint(0, 4) for _ in range(rng.randint(0, 10))]
        l2 = []
    elif tag == 4:
        l1 = [rng.choice([rng.randint(0, 2000), 32 * rng.randint(0, 60),
                          32 + 64 * rng.randint(0, 30)]), 64]
        l2 = []
    elif tag == 5:
        l1 = [rng.choice([0, 1, 9, 10, 11, 99, 100, 101, 12345,
                          rng.randint(0, 10 ** 9)])]
        l2 = []
    else:
        date = rng.choice(DATES + ["2023-02-28", "2024-12-31", "2000-02-29",
                                   "1999-03-01", "2026-10-01"])
        tm = "%02d:%02d:%02d%s" % (rng.randint(0, 23), rng.randint(0, 59),
                                   rng.randint(0, 59), rng.choice(FRACS))
        r6 = rng.random()
        if r6 < 0.15:
            date, tm = rng.choice(MALFORMED)
        elif r6 < 0.65:
            # any digits in the strict shape: real and unreal dates/times,
            # seconds 60/61, day 29-31 of every month, long fractions
            date = "%04d-%02d-%02d" % (
                rng.choice([1900, 1970, 1999, 2000, 2023, 2024, 2100,
                            rng.randint(1900, 2200)]),
                rng.choice([0, 1, 2, 2, 4, 6, 9, 11, 12, 13,
                            rng.randint(0, 19)]),
                rng.choice([0, 1, 28, 29, 30, 31, 32, rng.randint(0, 39)]))
            tm = "%02d:%02d:%02d" % (
                rng.choice([0, 23, 24, rng.randint(0, 29)]),
                rng.choice([0, 59, 60, rng.randint(0, 69)]),
                rng.choice([0, 59, 60, 61, 62, rng.randint(0, 69)]))
            rf = rng.random()
            if rf < 0.4:
                tm += "." + "".join(rng.choice("0123456789")
                                    for _ in range(rng.randint(0, 9)))
            elif rf < 0.6:
                tm += rng.choice(FRACS)
        if tag == 7:
            l1 = [rng.randint(0, 12) for _ in range(rng.randint(0, 12))]
            l2 = []
            return dict(kind="pysem", tag=tag, l1=l1, l2=l2)
        l1 = [ord(c) for c in date]
        l2 = [ord(c) for c in tm]
    return dict(kind="pysem", tag=tag, l1=l1, l2=l2)


def exec_pysem(case):
    """what CPython itself computes"""
    tag, l1, l2 = case["tag"], list(case["l1"]), list(case["l2"])
    if tag == 0:
        feats = list(l1)
        for x in feats:
            if x not in l2:
                feats.remove(x)
        return feats
    if tag == 1:
        feats = list(l1)
        for x in list(feats):
            if x not in l2:
                feats.remove(x)
        return feats
    if tag == 2:
        a = "".join(chr(c) for c in l1)
        b = "".join(chr(c) for c in l2)
        return [1 if a <= b else 0]
    if tag == 3:
        return sorted(range(len(l1)), key=lambda i: l1[i])
    if tag == 4:
        return [round(l1[0] / l1[1])]
    if tag == 5:
        return [ord(c) for c in str(l1[0])]
    if tag == 7:
        return sorted(set(l1))
    # dclab's own get_acquisition_time (strptime + mktime + float)
    _utc()
    try:
        from dclab.cli.task_join import get_acquisition_time
    except ImportError:          # the helper was renamed: same computation
        def get_acquisition_time(config):
            etime = config["experiment"]["time"]
            st = time.strptime(config["experiment"]["date"] + etime[:8],
                               "%Y-%m-%d%H:%M:%S")
            return time.mktime(st) + (float(etime[8:]) if len(etime) > 8 else 0)
    cfg = {"experiment": {"date": "".join(chr(c) for c in l1),
                          "time": "".join(chr(c) for c in l2)}}
    try:
        t = get_acquisition_time(cfg)
    except ValueError:
        return [1]
    # the value only where it is exact (fraction a multiple of 1/8 s)
    return [0, int(t * 8)] if float(t * 8).is_integer() else [0]


def render_pysem(case):
    return "(%d, %s, %s)" % (case["tag"], zl(case["l1"]), zl(case["l2"]))

# --------------------------------------------------------------------------
# driver
# --------------------------------------------------------------------------
def exec_case(args):
    case, base = args
    _utc()
    wd = os.path.join(base, "c%d" % os.getpid())
    shutil.rmtree(wd, ignore_errors=True)
    os.makedirs(wd)
    from dclab.rtdc_dataset import writer as _writer
    saved_chunk = _writer.CHUNK_SIZE_BYTES
    try:
        if case.get("chunk_bytes"):
            _writer.CHUNK_SIZE_BYTES = int(case["chunk_bytes"])
        r = _exec_kind(case, wd)
        if case.get("chunk_bytes") and r.get("tags") is not None:
            r["tags"].append("chunk_bytes=%d" % case["chunk_bytes"])
        return r
    except BaseException as e:  # harness problem, not a judgement
        if isinstance(e, (KeyboardInterrupt, SystemExit)):
            raise
        import traceback
        return dict(impl=None, coq=None, fn=None, fail=None, finding=None,
                    nontrivial=False, tags=["harness-error"],
                    harness_error="%r\n%s" % (e, traceback.format_exc()[-1500:]))
    finally:
        _writer.CHUNK_SIZE_BYTES = saved_chunk
        shutil.rmtree(wd, ignore_errors=True)


def _exec_kind(case, wd):
    if case["kind"] == "join":
        return exec_join(case, wd)
    if case["kind"] == "split":
        return exec_split(case, wd)
    if case["kind"] == "jointdms":
        return exec_jointdms(case, wd)
    return exec_joinsplit(case, wd)


def run_cases(cases, base, procs=None):
    _utc()
    import dclab  # noqa: F401  (import before forking)
    import hdf5plugin  # noqa: F401
    ctx = multiprocessing.get_context("fork")
    with ctx.Pool(procs or common.NCPU) as pool:
        return pool.map(exec_case, [(c, base) for c in cases], chunksize=2)


def load_corpus():
    d = os.path.join(common.VERIF, "corpus", PROP)
    cases = []
    if os.path.isdir(d):
        for fn in sorted(os.listdir(d)):
            if fn.endswith(".json"):
                cases.append(json.load(open(os.path.join(d, fn)))["case"])
    return cases


HEADER = ("From Coq Require Import ZArith List Bool.\nImport ListNotations.\n"
          "From Verif Require Import Model.C09.\n")


def run(run):
    nj, ns, njs, npy = (700, 400, 250, 3000) if run.thorough else \
        (54, 34, 18, 300)
    cases = load_corpus()
    run.count("corpus", len(cases))
    cases += [gen_join_case(run.rng, run.thorough) for _ in range(nj)]
    cases += [gen_split_case(run.rng, run.thorough) for _ in range(ns)]
    cases += [gen_joinsplit_case(run.rng, run.thorough) for _ in range(njs)]
    cases += [gen_tdms_case(run.rng) for _ in range(40 if run.thorough else 4)]
    file_cases = [c for c in cases if c["kind"] != "pysem"]
    py_cases = [c for c in cases if c["kind"] == "pysem"] + \
        [gen_pysem_case(run.rng) for _ in range(npy)]
    t_impl = time.time()
    results = run_cases(file_cases, run.scratch)
    run.extra["seconds_implementation"] = round(time.time() - t_impl, 1)
    by_fn = {}
    for c, r in zip(file_cases, results):
        if r.get("harness_error"):
            run.broken.append(("harness(C09)", r["harness_error"][:600]))
            continue
        run.record_case(c, r["nontrivial"])
        run.count("kind:" + c["kind"])
        for t in r["tags"]:
            run.count(t)
        if r["fail"] is not None:
            run.oracle_failure(c, r["fail"], r["finding"])
        if r["fn"] is not None:
            by_fn.setdefault(r["fn"], []).append((c, r))
        if r.get("extra"):
            by_fn.setdefault(r["extra"]["fn"], []).append((c, r["extra"]))
    for c in py_cases:
        impl = exec_pysem(c)
        run.record_case(c, len(c["l1"]) > 1, sample=False)
        run.count("pysem:tag=%d" % c["tag"])
        by_fn.setdefault("pysem_flat", []).append(
            (c, dict(coq=render_pysem(c), impl=impl)))
    t_model = time.time()
    import concurrent.futures

    def eval_model(fn):
        items = by_fn[fn]
        return common.coq_map(run.scratch, "c09_" + fn, HEADER, fn,
                              [r["coq"] for _, r in items],
                              shard=(400 if fn == "pysem_flat" else 30))

    fns = sorted(by_fn)
    with concurrent.futures.ThreadPoolExecutor(max_workers=4) as ex:
        models = list(ex.map(eval_model, fns))
    run.extra["seconds_model"] = round(time.time() - t_model, 1)
    for fn, model in zip(fns, models):
        for (c, r), m in zip(by_fn[fn], model):
            run.corr_checked += 1
            mm = strip_source_logs(m) if fn == "join_split_flat" else m
            if fn in ("join_flat", "join_split_flat"):
                mm = drop_export_log(mm)
            if fn == "pysem_flat" and r["impl"] == [0]:
                mm = mm[:1]
            if mm != r["impl"]:
                run.mismatch(c, mm, r["impl"])


# --------------------------------------------------------------------------
def _judge(case):
    if case.get("kind") == "pysem":
        return dict(impl=exec_pysem(case), fail=None, finding=None,
                    nontrivial=True, tags=[])
    base = os.environ.get("VERIF_SCRATCH", "/var/tmp")
    import tempfile
    d = tempfile.mkdtemp(prefix="verif-C09-one-", dir=base)
    try:
        return exec_case((case, d))
    finally:
        shutil.rmtree(d, ignore_errors=True)


def _fails(case):
    r = _judge(case)
    return r["fail"] is not None and r["finding"] is None


def shrink(run, failure):
    case = failure["case"]
    try:
        if case["kind"] == "join":
            case = shrink_join(case)
        elif case["kind"] == "split":
            case = shrink_one(case)
        else:
            case = shrink_one(case)
    except Exception:
        pass
    r = _judge(case)
    return dict(case=case, desc=r["fail"] or failure["desc"],
                finding=r["finding"])


def _drop_events(inp, n):
    out = dict(inp, n=n, feats={f: v[:n] for f, v in inp["feats"].items()})
    return out


def shrink_join(case):
    changed = True
    while changed:
        changed = False
        ins = case["inputs"]
        # fewer inputs
        if len(ins) > 2:
            for i in range(len(ins)):
                cand = dict(case, inputs=ins[:i] + ins[i + 1:])
                if _fails(cand):
                    case, changed = cand, True
                    break
            if changed:
                continue
        # fewer events, fewer logs
        for i, inp in enumerate(ins):
            for new in ([_drop_events(inp, 1)] if inp["n"] > 1 else []) + \
                    ([dict(inp, logs={})] if inp["logs"] else []):
                cand = dict(case, inputs=ins[:i] + [new] + ins[i + 1:])
                if _fails(cand):
                    case, changed = cand, True
                    break
            if changed:
                break
        if changed:
            continue
        # drop a feature everywhere
        allf = sorted(set(f for inp in ins for f in inp["feats"]))
        for f in allf:
            new_ins = [dict(inp, feats={g: v for g, v in inp["feats"].items()
                                        if g != f}) for inp in ins]
            if any(not x["feats"] for x in new_ins):
                continue
            cand = dict(case, inputs=new_ins)
            if _fails(cand):
                case, changed = cand, True
                break
    return case


def shrink_one(case):
    changed = True
    while changed:
        changed = False
        inp = case["input"]
        for f in sorted(inp["feats"]):
            if f == "userdef1" or len(inp["feats"]) <= 1:
                continue
            cand = dict(case, input=dict(inp, feats={
                g: v for g, v in inp["feats"].items() if g != f}))
            if _fails(cand):
                case, changed = cand, True
                break
        if changed:
            continue
        if inp["logs"]:
            cand = dict(case, input=dict(inp, logs={}))
            if _fails(cand):
                case, changed = cand, True
    return case


def search(run, broken):
    """Proof or correspondence broken while the oracle was quiet: a larger
    oracle-only sweep on the real code."""
    total = 6000 if run.thorough else 1600
    done = 0
    while done < total:
        batch = []
        for _ in range(160):
            r = run.rng.random()
            batch.append(gen_join_case(run.rng, True) if r < 0.6 else
                         gen_split_case(run.rng, True) if r < 0.85 else
                         gen_joinsplit_case(run.rng, True))
        res = run_cases(batch, run.scratch)
        for c, r in zip(batch, res):
            if r.get("fail") is not None and r.get("finding") is None:
                return shrink(run, dict(case=c, desc=r["fail"]))
        done += len(batch)
    return None


def replay(payload):
    case = payload.get("case")
    if not case or "kind" not in case:
        print("replay: nothing executable in this file (kind=%s): %s" % (
            payload.get("kind"), json.dumps(payload.get("broken"))[:2000]))
        return 1
    r = _judge(case)
    print("case:", json.dumps(case)[:3000])
    if r.get("harness_error"):
        print("harness error:", r["harness_error"])
        return 1
    print("implementation:", str(r["impl"])[:1500])
    if r["fail"]:
        print("FAILS:", r["fail"], "[known finding %s]" % r["finding"]
              if r["finding"] else "")
        return 1
    print("passes on the current tree")
    return 0
