"""C10 — command line tasks never leave a partial file at the output path.

Tie (translator harness/translators/cli_trace.py): every task is run on
generated inputs under wrappers around h5py / os; the recorded operation
trace, abstracted to the alphabet of coq/Model/C10.v, is written to
coq/Gen/TaskTraces.v and `accepts (protocol) trace` is evaluated by
vm_compute.  In addition the model's *prediction* of the observable file
system state after a fault at operation k (output absent/complete, temporary
name present, inputs unchanged) is compared with what the real code leaves
behind, for every enumerated fault.

Property oracle (model independent): the task is run in a child process
with the wrapper raising OSError at operation k, and again with os._exit
immediately before operation k; afterwards every requested output path must
be absent, or byte-identical to the complete file that was there before, or
loadable with dclab and equal in content to the result of the fault-free run
(and pass check_dataset like it); inputs must be byte-identical; no file
other than inputs, outputs and the temporary names may appear.
"""
import contextlib
import hashlib
import io
import json
import math
import os
import pathlib
import random
import re
import shutil
import sys
import tempfile
import time
import zipfile

from . import common
from .translators import cli_trace as ct

PROP = "C10"
RULE = ("cases = (task, generated input(s) / unzipped tdms fixtures, task "
        "parameters, which stale output/temporary files exist) x fault "
        "position k (index into the recorded operation trace: every HDF5 "
        "write, group/attribute/dataset creation, object copy, link, "
        "delete, file open, close, unlink, rename) x fault kind (OSError "
        "instead of operation k | os._exit before k | for open/close/unlink/"
        "rename/copy/link also: operation k performed, then OSError | for "
        "dataset writes also: half of the slice written, then OSError | an "
        "exception out of RTDCWriter.__exit__ (rectify_metadata/"
        "version_brand)); plus "
        "SIGKILL / SIGTERM / SIGINT (KeyboardInterrupt) at random times of unmodified runs and tasks failing on "
        "their own (truncated input, split with a stale temporary file) - "
        "oracle only; plus generated output names for the temporary-name "
        "model. Quick runs a random sample of k per case, the structural "
        "positions (first/last operations, every open/close/unlink/rename/"
        "copy/link and their neighbours) first, within a wall-clock limit; "
        "thorough every k (very long traces sampled). A fault case is "
        "non-trivial when the fault fired; distinct = different "
        "(case, k, kind)")
TRUSTED_BASE = [
    "pathlib semantics of suffix/with_suffix as transcribed in "
    "Model/C10_paths.v (compared with the real setup_task_paths on generated "
    "names)",
    "rename(2) is atomic and fails without effect; unlink fails without "
    "effect (outside the model: fail_op gives them no partial effect)",
    "HDF5/h5py behaviour when the process is killed with a file open for "
    "writing is outside the model (crash maps every open file to Junk); it "
    "is covered only by the real kill runs (os._exit between two h5py calls, "
    "plus SIGKILL at random times of unmodified runs, which may land inside "
    "an HDF5 call); power loss / fsync ordering / a torn page cache are not "
    "exercised",
    "exception unwinding closes open files and no handler renames or deletes "
    "(Model.unwind); checked on the real code by the raise runs",
    "harness/translators/cli_trace.py: the wrapped entry points are all the "
    "ways the tasks modify files (h5py File/Group/Dataset/AttributeManager "
    "methods, h5py.h5o.copy, os.rename/replace/unlink/remove)",
    "completeness of a file is judged against the fault-free result "
    "(gen.compare_datasets + logs + metadata + check_dataset violations)",
]
ASSUMPTIONS = [
    "split: no stale temporary file <stem>_NNNN.rtdc~ exists (the real task "
    "then refuses to run: OSError from export.hdf5 before any write to that "
    "file; exercised separately as a natural-failure scenario)",
    "a single fault per run; no concurrent writers to the same paths",
]

KINDS = ("raise", "kill")
TDMS_SMALL = ["fmt-tdms_shapein-2.0.1-no-image_2017",
              "fmt-tdms_2fl-no-image_2017"]
# the other tdms fixtures carry no software version of their own: their
# conversion is branded by the untagged dclab build of this sandbox only and
# cannot be re-opened here (OldFormatNotSupportedError), so completeness could
# not be judged
TDMS_MORE = []
TASK_CTOR = {"compress": "Compress", "condense": "Condense",
             "repack": "Repack", "join": "Join", "split": "Split",
             "tdms2rtdc": "Tdms2rtdc"}

# filled by prepare(); inherited by forked pool workers
CASES = []
INFO = []
_POOL = None
_STATE = {}


# --------------------------------------------------------------------------
# case generation
# --------------------------------------------------------------------------
def gen_cases(rng, thorough):
    cases = []

    def rtdc_in(nev=None, kinds=None, old_logs=False, tables=True, **kw):
        return dict(kw, seed=rng.randint(0, 2 ** 30),
                    nevents=nev or rng.choice([7, 12, 25]),
                    kinds=kinds or rng.choice([
                        ["scalar", "image", "mask"],
                        ["scalar", "image", "mask", "trace", "contour"],
                        ["scalar", "uint", "trace"]]),
                    old_logs=old_logs, tables=tables,
                    cmp5=rng.random() < 0.5,
                    # a file-based and an internal basin in half of the inputs
                    basin=rng.random() < 0.5)

    # rep 0: every option flipped; rep 1: the DEFAULT option values (small
    # inputs); rep 2 (thorough): defaults again on bigger inputs
    reps = 3 if thorough else 2
    base_rtdc_in = rtdc_in

    for rep in range(reps):
        if rep == 1:
            def rtdc_in(nev=None, kinds=None, **kw):
                return base_rtdc_in(nev=nev or 5,
                                    kinds=kinds or ["scalar", "image",
                                                    "mask"], **kw)
        else:
            rtdc_in = base_rtdc_in
        so = rng.random() < 0.7
        st = rng.random() < 0.7
        cases.append(dict(task="compress", inputs=[rtdc_in(old_logs=True)],
                          params=dict(force=(rep == 0)),
                          stale_out=[so], stale_tmp=[st]))
        cases.append(dict(task="repack",
                          inputs=[rtdc_in(old_logs=rng.random() < .5,
                                          basin=True)],
                          params=dict(strip_logs=rng.random() < 0.3,
                                      strip_basins=(rep == 0)),
                          stale_out=[rng.random() < 0.5],
                          stale_tmp=[rng.random() < 0.5]))
        cases.append(dict(task="condense",
                          inputs=[rtdc_in(old_logs=True, basin=True, kinds=[
                              "scalar", "image", "mask", "contour"])],
                          params=dict(
                              store_ancillary_features=rng.random() < .7,
                              store_basin_features=(rep != 0)),
                          stale_out=[rng.random() < 0.5],
                          stale_tmp=[rng.random() < 0.5]))
        nin = rng.choice([2, 2, 3])
        kinds = rng.choice([["scalar", "image", "mask"],
                            ["scalar", "uint", "trace"]])
        cases.append(dict(task="join",
                          inputs=[rtdc_in(nev=rng.choice([5, 9]), kinds=kinds,
                                          nscalars=11,
                                          drop=(["deform"] if jj == 1 and
                                                rng.random() < 0.5 else []))
                                  for jj in range(nin)],
                          params={}, stale_out=[rng.random() < 0.5],
                          stale_tmp=[rng.random() < 0.5]))
        nev = rng.choice([11, 20, 21])
        se = rng.choice([7, 10])
        nout = math.ceil(nev / se)
        cases.append(dict(task="split",
                          inputs=[rtdc_in(nev=nev, kinds=[
                              "scalar", "image", "mask"])],
                          params=dict(split_events=se,
                                      same_dir=rng.random() < 0.5,
                                      skip_initial=(rep != 0),
                                      skip_final=(rep == 1)),
                          stale_out=[rng.random() < 0.5 for _ in range(nout)],
                          stale_tmp=[False] * nout))
        # the measurement fits into ONE part: event count exactly at the
        # boundary (len == split_events), below it, or the default 10000
        nev1 = rng.choice([5, 6, 8])
        cases.append(dict(task="split",
                          inputs=[rtdc_in(nev=nev1, kinds=[
                              "scalar", "image", "mask"])],
                          params=dict(split_events=rng.choice(
                              [nev1, nev1, nev1 + 1, 16, 10000]),
                              same_dir=rng.random() < 0.5),
                          stale_out=[rng.random() < 0.4],
                          stale_tmp=[False]))
        cases.append(dict(task="tdms2rtdc", fixtures=[TDMS_SMALL[rep % 2]],
                          params=dict(dir_mode=False,
                                      compute_features=(rep == 0),
                                      skip_initial=(rep != 0),
                                      skip_final=(rep == 1)),
                          stale_out=[rng.random() < 0.5],
                          stale_tmp=[rng.random() < 0.5]))
    rtdc_in = base_rtdc_in
    # requested output names with an arbitrary suffix whose stem is the stem
    # of an input ("in0.repacked", "in0", "in0.b.c", "in0.RTDC", ...): legal,
    # they do not alias the input (the suffix .rtdc is appended)
    tasks = ["repack", "compress", "condense", "join"]
    rng.shuffle(tasks)
    for task in (tasks if thorough else tasks[:2]):
        nin = 2 if task == "join" else 1
        cases.append(dict(
            task=task,
            inputs=[rtdc_in(nev=rng.choice([5, 7]),
                            kinds=["scalar", "image", "mask"], nscalars=11)
                    for _ in range(nin)],
            params={}, out_name="in%d%s" % (
                rng.randrange(nin),
                rng.choice([x for x in ALIAS_SUFFIXES if x != ""])),
            stale_out=[rng.random() < 0.3], stale_tmp=[rng.random() < 0.3]))
    # several tdms files -> several outputs
    cases.append(dict(task="tdms2rtdc", fixtures=list(TDMS_SMALL),
                      params=dict(dir_mode=True),
                      stale_out=[rng.random() < 0.5 for _ in range(2)],
                      stale_tmp=[rng.random() < 0.5 for _ in range(2)]))
    # .tdms inputs for split / join / condense (one of them per quick run)
    extra = [
        dict(task="split", fixtures=[TDMS_SMALL[0]],
             params=dict(split_events=300, same_dir=False,
                         skip_initial=rng.random() < 0.5,
                         skip_final=rng.random() < 0.5),
             stale_out=[rng.random() < 0.5, False], stale_tmp=[False, False]),
        dict(task="join", fixtures=list(TDMS_SMALL), params={},
             stale_out=[False], stale_tmp=[True]),
        # results that the untagged dclab build of this sandbox cannot
        # re-open are judged at the HDF5 level (h5_diff)
        dict(task="condense", fixtures=[TDMS_SMALL[0]],
             params=dict(store_ancillary_features=False),
             stale_out=[True], stale_tmp=[False]),
        # a tdms measurement with images (avi) and contours: the
        # skip_empty_image_events branches
        dict(task="tdms2rtdc", fixtures=["fmt-tdms_fl-image_2016"],
             params=dict(dir_mode=False, skip_initial=True, skip_final=True),
             stale_out=[False], stale_tmp=[True]),
    ]
    # (the image measurement has ~6000 operations: thorough only)
    cases += extra if thorough else extra[:3]
    # check_suffix=False: inputs that do not end in .rtdc (h5py-level tasks)
    for task in (["compress", "repack"] if thorough
                 else [rng.choice(["compress", "repack"])]):
        iname = rng.choice(["x.h5", "x", "x.hdf5~", "x.rtdc.bak"])
        cases.append(dict(task=task, inputs=[rtdc_in(nev=5, kinds=[
            "scalar", "image", "mask"])], in_names=[iname],
            params=dict(check_suffix=False), out_name="x.rtdc",
            stale_out=[rng.random() < 0.3], stale_tmp=[rng.random() < 0.3]))
    # how the paths are handed to the task, and through which entry point
    for c in cases:
        # (tdms2rtdc on a folder computes relative_to(path_tdms) of resolved
        # paths: only absolute, resolved folders work there)
        c["params"]["path_style"] = "abs" if c["params"].get("dir_mode") \
            else rng.choice(["abs", "abs", "rel", "dotdot", "symlink"])
        c["params"]["via_argv"] = (rng.random() < 0.3
                                   and not c["params"].get("check_suffix")
                                   is False)
    return cases


ALIAS_SUFFIXES = [".repacked", ".joined", ".tmp", "", ".b.c", ".RTDC",
                  ".rtdc.bak", ".v1.2", ".compressed", ".rtdc~"]


def predicted_out_name(name):
    """The output file name the name theorems (Props/C10.v:
    C10_temp_name_is_output_tilde, Model/C10_paths.normalize_out) predict for
    a requested name: unchanged when its suffix is ".rtdc", else ".rtdc" is
    *appended*."""
    if pathlib.PurePosixPath(name).suffix == ".rtdc":
        return name
    return name + ".rtdc"


def _write_input(path, spec_in):
    from . import gen
    rng = random.Random(spec_in["seed"])
    spec = gen.random_dataset_spec(rng, spec_in["nevents"],
                                   kinds=tuple(spec_in["kinds"]),
                                   nscalars=spec_in.get("nscalars"))
    for feat in spec_in.get("drop", []):
        spec["features"].pop(feat, None)
    # distinct, increasing acquisition times so that join can order them
    spec["meta"]["experiment"]["time"] = "12:%02d:%02d" % (
        10 + spec_in.get("order", 0), rng.randint(0, 59))
    logs = {"log-a": ["line %d" % i for i in range(rng.randint(1, 5))]}
    if spec_in.get("old_logs"):
        logs["dclab-compress"] = ["{", ' "old": 1', "}"]
        logs["dclab-condense"] = ["{", ' "old": 2', "}"]
    tables = {"tab": gen.small_table(rng)} if spec_in.get("tables") else None
    kw = None
    if spec_in.get("cmp5"):
        import hdf5plugin
        kw = dict(hdf5plugin.Zstd(clevel=5))
    run_id = "verif-run-%d" % spec_in["seed"]
    spec["meta"]["experiment"]["run identifier"] = run_id
    gen.write_spec(path, spec, logs=logs, tables=tables,
                   compression_kwargs=kw)
    if spec_in.get("basin"):
        import numpy as np
        from dclab import RTDCWriter
        n = spec_in["nevents"]
        path = pathlib.Path(path)
        bpath = path.with_name(path.name.split(".")[0] + "_basin.rtdc")
        bs = gen.random_dataset_spec(rng, n, kinds=(), run_id=run_id)
        bs["features"] = {"userdef3": gen.dyadic(rng, n)}
        gen.write_spec(bpath, bs)
        with RTDCWriter(path, mode="append") as hw:
            hw.store_basin(basin_name="file basin", basin_type="file",
                           basin_format="hdf5", basin_locs=[bpath.name],
                           basin_feats=["userdef3"], verify=False)
            k = max(1, n // 2)
            hw.store_basin(basin_name="internal basin",
                           basin_type="internal", basin_format="h5dataset",
                           basin_locs=["basin_events"],
                           basin_feats=["userdef4"],
                           internal_data={"userdef4": np.arange(
                               k, dtype=float)},
                           basin_map=np.arange(n) % k, verify=False)


def _stale_output(path):
    """a complete, loadable .rtdc file from 'an earlier run'"""
    from . import gen
    rng = random.Random(4711)
    spec = gen.random_dataset_spec(rng, 3, kinds=("scalar",))
    gen.write_spec(path, spec)


def build_template(case, root):
    """Create <root>/w with inputs and stale files; returns the layout."""
    w = pathlib.Path(root) / "w"
    w.mkdir(parents=True)
    task = case["task"]
    ins, outs = [], []
    if "fixtures" in case:
        tin = w / "tin"
        for name in case["fixtures"]:
            sub = tin / name
            sub.mkdir(parents=True)
            with zipfile.ZipFile(os.path.join(
                    common.REPO, "tests", "data", name + ".zip")) as z:
                z.extractall(sub)
        tdms = sorted(p for p in tin.rglob("*.tdms")
                      if not p.name.endswith("_traces.tdms"))
        if task == "tdms2rtdc" and case["params"].get("dir_mode"):
            ins = tdms
            outs = [w / "tout" / p.relative_to(tin).with_suffix(".rtdc")
                    for p in tdms]
        elif task == "split":
            ins = tdms[:1]
            (w / "sp").mkdir()
            outs = [w / "sp" / ("%s_%04d.rtdc" % (ins[0].stem, i + 1))
                    for i in range(len(case["stale_out"]))]
        elif task == "join":
            ins = tdms
            outs = [w / "out.rtdc"]
        else:
            ins = tdms[:1]
            outs = [w / "out.rtdc"]
        # every file of the measurement folder is an input
        all_inputs = sorted(p for p in tin.rglob("*") if p.is_file())
    else:
        for j, spec_in in enumerate(case["inputs"]):
            p = w / ("in%d.rtdc" % j)
            if case.get("in_names"):
                p = w / case["in_names"][j]
            _write_input(p, dict(spec_in, order=j))
            ins.append(p)
        all_inputs = list(ins) + sorted(w.glob("*_basin.rtdc"))
        if task == "split":
            nout = len(case["stale_out"])
            spd = w if case["params"].get("same_dir") else w / "sp"
            spd.mkdir(exist_ok=True)
            outs = [spd / ("in0_%04d.rtdc" % (i + 1)) for i in range(nout)]
        elif case.get("out_name"):
            outs = [w / predicted_out_name(case["out_name"])]
        else:
            outs = [w / "out.rtdc"]
    temps = [o.with_suffix(".rtdc~") for o in outs]
    # bystanders: files of the same directory that are none of the task's
    # business; they must be byte-identical afterwards
    for o in outs[:1]:
        o.parent.mkdir(parents=True, exist_ok=True)
        for extra in (o.with_name(o.name + ".bak"),
                      o.with_name(o.stem + "_old.rtdc"),
                      o.parent / "notes.txt", w / "in0_old.rtdc"):
            if extra not in outs and extra not in temps \
                    and extra not in all_inputs:
                extra.write_bytes(b"bystander " + extra.name.encode() * 3)
                all_inputs.append(extra)
    (w / "_sub").mkdir(exist_ok=True)
    stale_sha = {}
    for i, o in enumerate(outs):
        if case["stale_out"][i]:
            o.parent.mkdir(parents=True, exist_ok=True)
            _stale_output(o)
            stale_sha[i] = sha(o)
        if case["stale_tmp"][i]:
            temps[i].parent.mkdir(parents=True, exist_ok=True)
            temps[i].write_bytes(b"\x89HDF\r\n\x1a\n" + b"stale junk " * 50)
    rel = lambda p: str(pathlib.Path(p).relative_to(w))  # noqa: E731
    return dict(ins=[rel(p) for p in ins], outs=[rel(p) for p in outs],
                req=[case["out_name"]] if case.get("out_name") else None,
                temps=[rel(p) for p in temps],
                all_inputs=[rel(p) for p in all_inputs],
                in_sha={rel(p): sha(p) for p in all_inputs},
                stale_sha=stale_sha,
                listing=sorted(rel(p) for p in w.rglob("*") if p.is_file()))


def sha(path):
    h = hashlib.sha256()
    with open(path, "rb") as fd:
        for blk in iter(lambda: fd.read(1 << 20), b""):
            h.update(blk)
    return h.hexdigest()


def _styled(w, rel, style):
    """The path `w/rel` written the way `style` says (they all resolve to the
    same file)."""
    w = pathlib.Path(w)
    if style == "rel":
        return pathlib.Path(rel)              # cwd is w
    if style == "dotdot":
        return w / "_sub" / ".." / rel
    if style == "symlink":
        link = w.parent / "wl"
        if not link.is_symlink():
            try:
                os.symlink(w, link)
            except FileExistsError:
                pass
        return link / rel
    return w / rel


def run_task(case, lay, w):
    """Call the CLI task on the files in directory w - through the Python
    function or through its argparse entry point (sys.argv)."""
    from dclab import cli
    w = pathlib.Path(w)
    par = case["params"]
    style = par.get("path_style", "abs")
    ins = [_styled(w, p, style) for p in lay["ins"]]
    outs = [_styled(w, p, style) for p in (lay.get("req") or lay["outs"])]
    # lay["req"]: what the user asked for; lay["outs"]: where it must appear
    task = case["task"]
    argv = par.get("via_argv", False)
    cwd = os.getcwd()
    old_argv = list(sys.argv)
    if style == "rel":
        os.chdir(w)
    try:
        with contextlib.redirect_stdout(io.StringIO()):
            _dispatch(cli, task, par, ins, outs, w, style, argv)
    finally:
        sys.argv = old_argv
        if style == "rel":
            os.chdir(cwd)


def _dispatch(cli, task, par, ins, outs, w, style, argv):
    if task == "compress":
        if argv:
            sys.argv = ["dclab-compress", str(ins[0]), str(outs[0])] + (
                ["--force"] if par.get("force") else [])
            cli.compress()
        else:
            cli.compress(path_in=ins[0], path_out=outs[0],
                         force=par.get("force", False),
                         check_suffix=par.get("check_suffix", True))
    elif task == "repack":
        if argv:
            sys.argv = ["dclab-repack", str(ins[0]), str(outs[0])] + (
                ["--strip-logs"] if par.get("strip_logs") else []) + (
                ["--strip-basins"] if par.get("strip_basins") else [])
            cli.repack()
        else:
            cli.repack(path_in=ins[0], path_out=outs[0],
                       strip_logs=par.get("strip_logs", False),
                       strip_basins=par.get("strip_basins", False),
                       check_suffix=par.get("check_suffix", True),
                       ret_path=True)
    elif task == "condense":
        anc = par.get("store_ancillary_features", True)
        bas = par.get("store_basin_features", True)
        if argv:
            sys.argv = ["dclab-condense", str(ins[0]), str(outs[0])] + (
                [] if anc else ["--no-ancillary-features"]) + (
                [] if bas else ["--no-basin-features"])
            cli.condense()
        else:
            cli.condense(path_in=ins[0], path_out=outs[0],
                         store_ancillary_features=anc,
                         store_basin_features=bas,
                         check_suffix=par.get("check_suffix", True))
    elif task == "join":
        if argv:
            sys.argv = ["dclab-join"] + [str(p) for p in ins] + [
                "-o", str(outs[0])]
            cli.join()
        else:
            cli.join(paths_in=list(ins), path_out=outs[0], ret_path=True)
    elif task == "split":
        si, sf = par.get("skip_initial", True), par.get("skip_final", True)
        if argv and si == sf:
            sys.argv = ["dclab-split", str(ins[0]), "--split-events",
                        str(par["split_events"])] + (
                [] if par.get("same_dir") else
                ["--path_out", str(outs[0].parent)]) + (
                [] if si else ["--include-empty-boundary-images"])
            cli.split()
        else:
            cli.split(path_in=ins[0],
                      path_out=None if par.get("same_dir")
                      else outs[0].parent,
                      split_events=par["split_events"],
                      skip_initial_empty_image=si,
                      skip_final_empty_image=sf, ret_out_paths=True)
    elif task == "tdms2rtdc":
        si, sf = par.get("skip_initial", True), par.get("skip_final", True)
        cf = par.get("compute_features", False)
        src = _styled(w, "tin", style) if par.get("dir_mode") else ins[0]
        dst = _styled(w, "tout", style) if par.get("dir_mode") else outs[0]
        if argv and si == sf:
            sys.argv = ["dclab-tdms2rtdc", str(src), str(dst)] + (
                ["--compute-ancillary-features"] if cf else []) + (
                [] if si else ["--include-empty-boundary-images"])
            cli.tdms2rtdc()
        else:
            cli.tdms2rtdc(path_tdms=pathlib.Path(src),
                          path_rtdc=pathlib.Path(dst), compute_features=cf,
                          skip_initial_empty_image=si,
                          skip_final_empty_image=sf)
    else:
        raise ValueError(task)


# --------------------------------------------------------------------------
# worker side
# --------------------------------------------------------------------------
def _copy_template(idx):
    d = tempfile.mkdtemp(prefix="r%d-" % idx, dir=_STATE["runs"])
    shutil.copytree(os.path.join(INFO[idx]["root"], "w"),
                    os.path.join(d, "w"))
    return d


def record_job(idx):
    """Fault-free run under the recorder (in a worker process); keeps the
    resulting directory as the reference."""
    case, info = CASES[idx], INFO[idx]
    ct.install()
    d = _copy_template(idx)
    w = os.path.join(d, "w")
    rec = ct.Recorder(w)
    ct.set_recorder(rec)
    err = None
    t0 = time.time()
    try:
        run_task(case, info["lay"], w)
    except BaseException as e:  # noqa
        err = repr(e)
    finally:
        ct.set_recorder(None)
    t_task = time.time() - t0
    lay = info["lay"]
    roles = ct.Roles([os.path.join(w, p) for p in lay["ins"]],
                     [os.path.join(w, p) for p in lay["outs"]],
                     [os.path.join(w, p) for p in lay["temps"]])
    trace = ct.abstract(rec.ops, roles)
    kinds = [o[0] for o in rec.ops]
    details = [(o[0], os.path.relpath(o[1], w), o[3]) for o in rec.ops]
    others = {os.path.relpath(p, w): j for p, j in roles.others.items()}
    viol = {}
    if err is None:
        for i, o in enumerate(lay["outs"]):
            try:
                viol[i] = check_violations(os.path.join(w, o))
            except BaseException as e:  # noqa (dclab: BaseException subclasses)
                if type(e).__name__ == "OldFormatNotSupportedError":
                    viol[i] = [H5ONLY]     # sandbox: judge with h5_diff
                else:
                    viol[i] = ["check_dataset failed: %r" % (e,)]
    return dict(idx=idx, ref=d, trace=trace, kinds=kinds, details=details,
                exit_calls=rec.exit_calls,
                err=err, others=others, viol=viol, secs=t_task,
                obs=observe(idx, w, ref_w=None))


def loadable(path):
    import dclab
    try:
        with dclab.new_dataset(path) as ds:
            n = len(ds)
            return all(len(ds[f]) == n for f in ds.features_innate
                       if f != "trace")
    except BaseException as e:  # noqa
        if type(e).__name__ == "OldFormatNotSupportedError":
            import h5py
            try:
                with h5py.File(path, "r") as h5:
                    h5.visititems(lambda n, o: o[()] if isinstance(
                        o, h5py.Dataset) else None)
                return True
            except BaseException:  # noqa
                return False
        return False


def check_violations(path):
    from dclab.rtdc_dataset.check import check_dataset
    viol, _aler, _info = check_dataset(path)
    return sorted(viol)


_TS = re.compile(r"\d{4}-\d{2}-\d{2}_\d{2}\.\d{2}\.\d{2}")


H5ONLY = "__h5only__"


def h5_diff(path, refpath):
    """Completeness at the HDF5 level (for results that the untagged dclab
    build of this sandbox refuses to re-open): same groups and datasets with
    the same shapes and data, same attributes (time stamps, the random run
    identifier suffix and dclab-* job logs aside)."""
    import h5py
    import numpy as np
    try:
        with h5py.File(path, "r") as ha, h5py.File(refpath, "r") as hb:
            def names(h):
                out = {}
                h.visititems(lambda n, o: out.__setitem__(
                    _TS.sub("<ts>", n), o))
                return out
            na, nb = names(ha), names(hb)
            if sorted(na) != sorted(nb):
                return "HDF5 objects differ: %s" % sorted(
                    set(na) ^ set(nb))[:5]
            for n in sorted(na):
                a, b = na[n], nb[n]
                if isinstance(a, h5py.Dataset) != isinstance(b, h5py.Dataset):
                    return "object kind of %s differs" % n
                if isinstance(a, h5py.Dataset):
                    if a.shape != b.shape:
                        return "dataset %s has shape %s, complete result %s" \
                            % (n, a.shape, b.shape)
                    if n.startswith("logs/dclab-"):
                        continue
                    va, vb = a[()], b[()]
                    same = (va.tobytes() == vb.tobytes()) if hasattr(
                        va, "tobytes") else (va == vb)
                    if not same and not (
                            va.dtype.kind == "f" and np.array_equal(
                                va, vb, equal_nan=True)):
                        return "dataset %s differs" % n
            ka = set(ha.attrs) ^ set(hb.attrs)
            if ka:
                return "attributes differ: %s" % sorted(ka)[:5]
            for k in ha.attrs:
                if k in ("experiment:run identifier",):
                    continue
                if not np.all(np.asarray(ha.attrs[k] == hb.attrs[k])):
                    return "attribute %s differs" % k
    except BaseException as e:  # noqa
        if isinstance(e, (KeyboardInterrupt, SystemExit)):
            raise
        return "not a complete HDF5 file: %r" % (e,)
    return None


def complete_diff(path, refpath, ref_viol):
    """None when the file at `path` is loadable and has the content of the
    fault-free result `refpath`; else a description."""
    import dclab
    import numpy as np
    from . import gen
    if list(ref_viol) == [H5ONLY]:
        return h5_diff(path, refpath)
    try:
        with dclab.new_dataset(path) as ds, dclab.new_dataset(refpath) as dr:
            if sorted(ds.features_basin) != sorted(dr.features_basin) \
                    or len(ds.basins) != len(dr.basins):
                return "basins %s (%d) vs %s (%d)" % (
                    sorted(ds.features_basin), len(ds.basins),
                    sorted(dr.features_basin), len(dr.basins))
            d = gen.compare_datasets(ds, dr, check_meta=False,
                                     check_logs=False)
            if d:
                return d
            # metadata (the run identifier of a filtered export has a random
            # suffix)
            for sec in sorted(set(ds.config.keys()) | set(dr.config.keys())):
                if sec in ("filtering", "calculation", "plotting"):
                    continue
                ka = dict(ds.config.get(sec, {}))
                kb = dict(dr.config.get(sec, {}))
                if sorted(ka) != sorted(kb):
                    return "meta [%s] keys %s vs %s" % (sec, sorted(ka),
                                                        sorted(kb))
                for k in ka:
                    if (sec, k) == ("experiment", "run identifier"):
                        continue
                    if not np.all(np.asarray(ka[k]) == np.asarray(kb[k])):
                        return "meta [%s] %s: %r vs %r" % (sec, k, ka[k],
                                                           kb[k])
            la = sorted(_TS.sub("<ts>", k) for k in ds.logs.keys())
            lb = sorted(_TS.sub("<ts>", k) for k in dr.logs.keys())
            if la != lb:
                return "logs %s vs %s" % (la, lb)
            for k in ds.logs.keys():
                kk = [x for x in dr.logs.keys()
                      if _TS.sub("<ts>", x) == _TS.sub("<ts>", k)][0]
                a, b = list(ds.logs[k]), list(dr.logs[kk])
                if k.startswith("dclab-"):
                    continue     # job info / warnings: content may vary
                if len(a) != len(b):
                    return "log %s: %d vs %d lines" % (k, len(a), len(b))
                if a != b:
                    return "log %s differs" % k
            n = len(ds)
            for feat in ds.features_innate:
                if feat == "trace":
                    continue
                if len(ds[feat]) != n:
                    return "feature %s has %d of %d events" % (
                        feat, len(ds[feat]), n)
        viol = check_violations(path)
        if viol != sorted(ref_viol):
            return "check_dataset violations %s (fault-free result: %s)" % (
                viol, sorted(ref_viol))
    except BaseException as e:  # noqa (dclab: BaseException subclasses)
        if isinstance(e, (KeyboardInterrupt, SystemExit)):
            raise
        return "not loadable: %r" % (e,)
    return None


def observe(idx, w, ref_w, ref_viol=None):
    """File system state after a run: dict(out=[0 absent|1 partial|2
    complete], tmp=[0|1 exists], inputs_same=[bool], unexpected=[...],
    why=[...])"""
    case, lay = CASES[idx], INFO[idx]["lay"]
    out, tmp, why, new = [], [], [], []
    for i, o in enumerate(lay["outs"]):
        p = os.path.join(w, o)
        new.append(False)
        if not os.path.lexists(p):
            out.append(0)
        elif case["stale_out"][i] and sha(p) == lay["stale_sha"].get(i):
            out.append(2)
        elif ref_w is None:
            out.append(2 if os.path.isfile(p) else 1)
            new[-1] = True
        else:
            d = complete_diff(p, os.path.join(ref_w, o),
                              (ref_viol or {}).get(i, []))
            out.append(2 if d is None else 1)
            new[-1] = True
            if d is not None:
                why.append("output %s: %s" % (o, d))
        tmp.append(1 if os.path.lexists(os.path.join(w, lay["temps"][i]))
                   else 0)
    same = []
    for p in lay["all_inputs"]:
        q = os.path.join(w, p)
        same.append(os.path.isfile(q) and sha(q) == lay["in_sha"][p])
    allowed = set(lay["listing"]) | set(lay["outs"]) | set(lay["temps"])
    unexpected = sorted(
        os.path.relpath(os.path.join(dp, f), w)
        for dp, _dn, fs in os.walk(w) for f in fs
        if os.path.relpath(os.path.join(dp, f), w) not in allowed)
    return dict(out=out, tmp=tmp, inputs_same=same, unexpected=unexpected,
                why=why, new=new)


def fault_job(job):
    """Run case idx with a fault of `kind` at operation k in a forked child;
    inspect what is left behind."""
    idx, k, kind = job[:3]
    case, info = CASES[idx], INFO[idx]
    d = _copy_template(idx)
    w = os.path.join(d, "w")
    sys.stdout.flush()
    sys.stderr.flush()
    pid = os.fork()
    if pid == 0:
        code = 5
        try:
            devnull = os.open(os.devnull, os.O_WRONLY)
            os.dup2(devnull, 1)
            os.dup2(devnull, 2)
            ct.install()
            if kind == "exit-raise":
                rec = ct.Recorder(w)
                rec.exit_fault_at = k
            else:
                rec = ct.Recorder(w, fault_at=k, fault_kind=kind)
            rec.exc_kind = job[4] if len(job) > 4 else None
            ct.set_recorder(rec)
            exc = None
            try:
                run_task(case, info["lay"], w)
                code = 0
            except ct.INJECTED as e:
                code, exc = 3, repr(e)
            except BaseException as e:  # noqa
                code, exc = 4, repr(e)
            ct.set_recorder(None)
            with open(os.path.join(d, "child.json"), "w") as fd:
                json.dump(dict(fired=rec.fired, exc=exc, nops=len(rec.ops),
                               fault_pos=rec.fault_pos,
                               after=[(a[0], os.path.relpath(a[1], w),
                                       os.path.relpath(a[2], w) if a[2]
                                       else None)
                                      for a in rec.after_fault][:50]), fd)
        finally:
            os._exit(code)
    _, status = os.waitpid(pid, 0)
    code = os.waitstatus_to_exitcode(status)
    child = {}
    cj = os.path.join(d, "child.json")
    if os.path.exists(cj):
        try:
            child = json.load(open(cj))
        except Exception:
            child = {}
    obs = observe(idx, w, os.path.join(info["ref"], "w"), info["viol"])
    restart = None
    if len(job) > 3 and job[3]:
        # run the task again, unharmed, on what the faulted run left behind
        for f in ("child.json",):
            try:
                os.unlink(os.path.join(d, f))
            except OSError:
                pass
        pid = os.fork()
        if pid == 0:
            code2 = 5
            try:
                devnull = os.open(os.devnull, os.O_WRONLY)
                os.dup2(devnull, 1)
                os.dup2(devnull, 2)
                try:
                    run_task(case, info["lay"], w)
                    code2 = 0
                except BaseException:  # noqa
                    code2 = 4
            finally:
                os._exit(code2)
        _, status = os.waitpid(pid, 0)
        restart = dict(code=os.waitstatus_to_exitcode(status),
                       obs=observe(idx, w, os.path.join(info["ref"], "w"),
                                   info["viol"]))
    shutil.rmtree(d, ignore_errors=True)
    return dict(job=job, code=code, child=child, obs=obs, restart=restart)


# --------------------------------------------------------------------------
# preparation (translator): cases, templates, traces, Gen/TaskTraces.v
# --------------------------------------------------------------------------
def prepare(run, cases):
    """Build templates, start the worker pool, record fault-free traces."""
    global CASES, INFO, _POOL
    import multiprocessing
    import dclab  # noqa: F401  (imported before forking the workers)
    from dclab import cli  # noqa: F401
    CASES = cases
    INFO = []
    _STATE["runs"] = os.path.join(run.scratch, "runs")
    os.makedirs(_STATE["runs"], exist_ok=True)
    for idx, case in enumerate(cases):
        root = os.path.join(run.scratch, "tpl%d" % idx)
        lay = build_template(case, root)
        INFO.append(dict(root=root, lay=lay))
    ctx = multiprocessing.get_context("fork")
    _POOL = ctx.Pool(common.NCPU)
    recs = pmap("record_job", range(len(cases)))
    for r in recs:
        if "crash" in r:
            raise RuntimeError("recording the fault-free run failed: %s" %
                               r["crash"])
        INFO[r["idx"]].update(ref=r["ref"], trace=r["trace"],
                              kinds=r["kinds"], err=r["err"],
                              viol=r["viol"], details=r["details"],
                              others=r["others"], ref_obs=r["obs"],
                              exit_calls=r["exit_calls"],
                              secs=r["secs"])
    # the workers were forked before the references existed: restart them
    _POOL.close()
    _POOL.join()
    _POOL = ctx.Pool(common.NCPU)
    return recs


def _job(args):
    """Pool entry point: a job must never take its worker down (dclab has
    exception classes derived from BaseException, e.g.
    OldFormatNotSupportedError; a dead worker would hang Pool.map)."""
    name, arg = args
    try:
        return globals()[name](arg)
    except BaseException as e:  # noqa
        if isinstance(e, (KeyboardInterrupt, SystemExit)):
            raise
        import traceback
        return dict(crash="%s(%r): %s" % (name, arg,
                                          traceback.format_exc()[-1200:]),
                    job=arg, idx=arg if isinstance(arg, int) else arg[0])


def pmap(name, args, chunksize=1):
    return _POOL.map(_job, [(name, a) for a in args], chunksize=chunksize)


def restart_pool():
    global _POOL
    import multiprocessing
    shutdown()
    _POOL = multiprocessing.get_context("fork").Pool(common.NCPU)


def shutdown():
    global _POOL
    if _POOL is not None:
        _POOL.terminate()
        _POOL.join()
        _POOL = None


def render_cases():
    rendered = []
    for case, info in zip(CASES, INFO):
        rendered.append(ct.render_case(
            TASK_CTOR[case["task"]], len(info["lay"]["outs"]),
            case["stale_out"], case["stale_tmp"], info["trace"]))
    return rendered


def pre_build(run):
    """Translator: regenerate coq/Gen/TaskTraces.v from the tree under test.
    Fails closed: any exception leaves the obligation broken."""
    cases = load_corpus_cases() + gen_cases(run.rng, run.thorough)
    prepare(run, cases)
    rendered = render_cases()
    digest = int(hashlib.sha256("\n".join(rendered).encode()).hexdigest()[:15],
                 16)
    _STATE["digest"] = digest
    _STATE["rendered"] = rendered
    ct.emit_v(os.path.join(common.COQ, "Gen", "TaskTraces.v"), rendered,
              digest)
    _STATE["prepared"] = True
    _tick(run, "translator")


def load_corpus_cases():
    d = os.path.join(common.VERIF, "corpus", PROP)
    out = []
    if os.path.isdir(d):
        for fn in sorted(os.listdir(d)):
            if fn.endswith(".json"):
                c = json.load(open(os.path.join(d, fn)))["case"]
                if "task" in c and "k" not in c:
                    c = dict(c)
                    # natural-failure scenarios are run on every suitable
                    # case, the seed contributes its base case
                    c.pop("scenario", None)
                    out.append(c)
    return out


# --------------------------------------------------------------------------
# the check
# --------------------------------------------------------------------------
def header():
    """Coq prelude of the evaluation files. The traces are the text that was
    written to coq/Gen/TaskTraces.v by pre_build in this very run (inlined,
    so that the evaluation does not depend on when the shared build gets to
    compile the Gen file)."""
    return ("From Coq Require Import ZArith List NArith.\n"
            "Import ListNotations.\n"
            "From Verif Require Import Model.C10.\n"
            "Definition digest : Z := %d%%Z.\n"
            "Definition traces : list traced_case := [\n%s\n].\n"
            "Definition dflt_ : traced_case := "
            "(Compress, 0%%nat, [], [], []).\n"
            "Definition tc_ (i : Z) := nth (Z.to_nat i) traces dflt_.\n" % (
                _STATE["digest"], ";\n".join(_STATE["rendered"])))


def sample_ks(info, rng, thorough, budget):
    """-> (structural positions, other sampled positions)"""
    n = len(info["kinds"])
    must = set(x for x in (0, 1, n - 2, n - 1) if 0 <= x < n)
    for k, kind in enumerate(info["kinds"]):
        if kind in ("open-r", "open-w", "open-a", "close", "rename",
                    "unlink", "link", "del", "copy"):
            must.update(x for x in (k - 1, k, k + 1) if 0 <= x < n)
    rest = [k for k in range(n) if k not in must]
    if n <= budget:
        return sorted(must), rest
    must = sorted(must)
    if len(must) > budget:
        keep = set(rng.sample(must, budget))
        # never drop renames / (re)opens of the temporary file
        for k, kind in enumerate(info["kinds"]):
            if kind in ("rename", "open-a", "open-w"):
                keep.update(x for x in (k, k + 1) if x < n)
        must = sorted(keep)
    extra = rng.sample(rest, max(0, min(len(rest), budget - len(must))))
    return must, sorted(extra)


def judge(run, idx, res):
    """Model independent verdict on one fault run."""
    case, info = CASES[idx], INFO[idx]
    k, kind = res["job"][1], res["job"][2]
    obs = res["obs"]
    cdesc = case_desc(idx, k, kind,
                      res["job"][4] if len(res["job"]) > 4 else None)
    fails = []
    for i, v in enumerate(obs["out"]):
        if v == 1:
            fails.append("output path %s holds a partial file" %
                         info["lay"]["outs"][i])
    for p, ok in zip(info["lay"]["all_inputs"], obs["inputs_same"]):
        if not ok:
            fails.append("input %s was modified or removed" % p)
    if obs["unexpected"]:
        fails.append("files outside the output/temporary names appeared: %s"
                     % obs["unexpected"][:4])
    if case["task"] == "split" and info.get("split_shape"):
        # (C10_split_parts; only when the fault-free trace ends with the
        # renames of parts 0..n-1 in order - Model.split_shape - otherwise the
        # property does not demand an order)
        # parts are released in order: the new results present form a prefix
        # 0..j-1; every later part is not at its output path and (once
        # written) exists under its temporary name only
        newf = obs.get("new", [])
        j = 0
        while j < len(newf) and newf[j]:
            j += 1
        if any(newf[j:]):
            fails.append("split parts present out of order: %s" % newf)
    if fails:
        desc = ("%s of %s at operation %d (%s): %s; %s" % (
            kind, case["task"], k, op_desc(info, k, kind), "; ".join(fails),
            "; ".join(obs["why"])))
        run.oracle_failure(cdesc, desc, classify(cdesc, desc))
    return fails


def op_desc(info, k, kind=None):
    if kind in ("sigkill", "sigint", "sigterm"):
        d = tuple(info["details"][k]) if 0 <= k < len(info["details"]) \
            else ("?", "?", "?")
        return "%s delivered during/after operation %d (%s %s %s)" % (
            (kind.upper(), k) + d)
    if kind == "exit-raise":
        return "call %d of RTDCWriter.rectify_metadata/version_brand" % k
    if 0 <= k < len(info["details"]):
        return "%s %s %s" % tuple(info["details"][k])
    return "past the end"


def case_desc(idx, k, kind, exc=None):
    c = dict(CASES[idx])
    c.update(k=k, kind=kind)
    if exc:
        c["exc"] = exc
    return c


def classify(case, desc):
    """matcher of known findings (none so far)"""
    return None


def run(run):
    try:
        _run(run)
    finally:
        shutdown()
        if os.environ.get("VERIF_C10_TIMING"):
            for f in run.oracle_fail[:12]:
                sys.stderr.write("C10 oracle: %s | %s\n" % (
                    f["desc"][:300], {k: v for k, v in f["case"].items()
                                      if k != "inputs"}))
            for m in run.corr_mismatch[:12]:
                sys.stderr.write("C10 mismatch: %s | %s | %s | %s\n" % (
                    m["what"][:200], m["model"], m["impl"],
                    {k: v for k, v in m["case"].items() if k != "inputs"}))


def _tick(run, what):
    now = time.time()
    run.extra.setdefault("timing_s", {})[what] = round(
        now - _STATE.get("tick", run.t0), 1)
    _STATE["tick"] = now
    if os.environ.get("VERIF_C10_TIMING"):
        sys.stderr.write("C10 timing %s: %s\n" % (
            what, run.extra["timing_s"][what]))


def _run(run):
    _tick(run, "build+audit")
    if not _STATE.get("prepared"):
        raise common.ModelError("translator did not produce "
                                "Gen/TaskTraces.v (failed closed)")
    ncases = len(CASES)
    # ---- 1. fault-free runs: protocol acceptance ------------------------
    out = common.coq_map(
        run.scratch, "c10acc", header(),
        "(fun i : Z => digest :: check_case (tc_ i))",
        [common.zlit(i) for i in range(ncases)])
    for idx, (case, info, m) in enumerate(zip(CASES, INFO, out)):
        if m[0] != _STATE["digest"]:
            raise common.ModelError("digest mismatch in the trace "
                                    "evaluation file")
        nout = len(info["lay"]["outs"])
        ro = info["ref_obs"]
        impl = [1 if info["err"] is None else 0, -1, len(info["trace"])]
        for i in range(nout):
            impl += [ro["out"][i] if ro["out"][i] != 1 else 1,
                     1 if ro["tmp"][i] else 0]
        model = m[1:4]
        for i in range(nout):
            model += [m[4 + 2 * i], 1 if m[5 + 2 * i] else 0]
        # informational: the exact per-task shape (Model.strict_shape)
        info["split_shape"] = (m[5 + 2 * nout] == 1)
        info["reject_pos"] = m[2]
        if case["task"] == "split" and info["err"] is None:
            run.count("split-shape:%s" % info["split_shape"])
        if info["err"] is None:
            if m[4 + 2 * nout] == 1:
                run.count("strict-shape-ok")
            else:
                run.count("strict-shape-changed")
                run.notes.append(
                    "WARNING: the %s trace of case %d is accepted by the "
                    "union protocol (obligation holds) but has left the "
                    "strict language of its task (Model.accepts_task: setup, "
                    "create mode, number of append rounds)" % (case["task"],
                                                               idx))
        cd = case_desc(idx, -1, "none")
        run.record_case(cd, True)
        run.count("task:%s" % case["task"])
        if info["err"] is not None:
            # the task failed on its own on this input (no fault injected):
            # not a protocol word; the property still has to hold
            run.count("task-failed-without-fault")
            run.notes.append("case %d (%s) fails without a fault: %s" % (
                idx, case["task"], info["err"][:200]))
            fails = []
            for i in range(nout):
                # a stale complete output that survives, or a complete new
                # one after a late failure, is fine; an unreadable one is not
                if ro["out"][i] != 0 and ro["new"][i] and not loadable(
                        os.path.join(info["ref"], "w",
                                     info["lay"]["outs"][i])):
                    fails.append("task failed (%s) and left an unreadable "
                                 "%s" % (info["err"], info["lay"]["outs"][i]))
            if case.get("out_name"):
                fails.append("the task fails (%s) for the legal output name "
                             "%r (result expected at %s)" % (
                                 info["err"][:150], case["out_name"],
                                 info["lay"]["outs"]))
            if not all(ro["inputs_same"]):
                gone = [p for p, ok in zip(info["lay"]["all_inputs"],
                                           ro["inputs_same"]) if not ok]
                fails.append("the run failed (%s) and input %s was modified "
                             "or removed (requested output %s, expected at "
                             "%s)" % (info["err"][:150], gone,
                                      info["lay"].get("req") or
                                      info["lay"]["outs"],
                                      info["lay"]["outs"]))
            if fails:
                run.oracle_failure(cd, "; ".join(fails), None)
            continue
        run.count("trace-ops", len(info["trace"]))
        for kd in info["kinds"]:
            run.count("op:%s" % kd)
        run.corr_checked += 1
        if model != impl:
            pos = m[2]
            run.mismatch(cd, model, impl,
                         what="fault-free trace not a word of the task "
                              "protocol / final state differs; first "
                              "rejected operation %s: %s; task error: %s" % (
                                  pos, op_desc(info, pos), info["err"]))
        # the fault-free run itself must satisfy the property
        fails = []
        for i in range(nout):
            if ro["out"][i] == 0:
                fails.append("output %s missing after a successful run" %
                             info["lay"]["outs"][i])
            if ro["tmp"][i]:
                fails.append("temporary file %s left after a successful run"
                             % info["lay"]["temps"][i])
        if not all(ro["inputs_same"]):
            fails.append("a successful run modified or removed %s (inputs "
                         "and bystander files must stay byte-identical)" % [
                             p for p, ok in zip(info["lay"]["all_inputs"],
                                                ro["inputs_same"]) if not ok])
        if ro["unexpected"]:
            fails.append("unexpected files %s" % ro["unexpected"][:4])
        for i, v in info["viol"].items():
            if any("check_dataset failed" in x for x in v):
                fails.append("result not checkable: %s" % v)
        if fails:
            run.oracle_failure(cd, "; ".join(fails), None)

    for task in TASK_CTOR:
        oks = [i for c, i in zip(CASES, INFO)
               if c["task"] == task and i["err"] is None]
        if not oks:
            errs = [i["err"] for c, i in zip(CASES, INFO)
                    if c["task"] == task]
            run.broken.append(("translator(C10)",
                               "no fault-free run of task %s to take a "
                               "trace from: %s" % (task, errs[:2])))
    _tick(run, "acceptance")
    names_check(run)
    _tick(run, "names")
    natural_failures(run)
    _tick(run, "natural-failures")
    strace_crosscheck(run)
    _tick(run, "strace-crosscheck")
    sigkill_runs(run)
    _tick(run, "sigkill-runs")
    # ---- 2. fault enumeration -------------------------------------------
    if run.thorough:
        # every operation of every case; very long traces (tdms logs are
        # written line by line) are sampled
        per_case = int(os.environ.get("VERIF_C10_PER_CASE", "1200"))
    else:
        total_budget = int(os.environ.get("VERIF_C10_BUDGET", "2600"))
        per_case = max(20, total_budget // (2 * max(1, ncases)))
    first, second, floor = [], [], []

    def exc_for(idx, k):
        """deterministic rotation over the exception types"""
        return ct.EXC_KINDS[(3 * idx + k) % len(ct.EXC_KINDS)]

    for idx, info in enumerate(INFO):
        if info["err"] is not None:
            continue
        lay = info["lay"]
        own = set(lay["temps"]) | set(lay["outs"])
        # FLOOR: a fixed, deterministic set that always runs: every open for
        # writing, every close of an output/temporary file, every rename and
        # unlink of every case - killed before it, failing (with rotating
        # exception types), failing after it was performed
        for k, (kd, rel, _det) in enumerate(info["details"]):
            if kd in ("open-w", "open-a", "rename", "unlink", "raw-open") \
                    or (kd == "close" and rel in own):
                floor += [(idx, k, "kill", False, None),
                          (idx, k, "raise", False, exc_for(idx, k)),
                          (idx, k, "raise-after", False,
                           exc_for(idx, k + 1))]
        # an exception out of RTDCWriter.__exit__ (rectify_metadata /
        # version_brand)
        floor += [(idx, j, "exit-raise", False, exc_for(idx, j))
                  for j in range(info.get("exit_calls", 0))]
        must, extra = sample_ks(info, run.rng, run.thorough, per_case)

        def var():
            return run.rng.choice(ct.EXC_KINDS) if run.rng.random() < 0.5 \
                else None
        first += [(idx, k, kind, False, var() if kind != "kill" else None)
                  for k in must for kind in KINDS + ("raise-after",)]
        second += [(idx, k, kind, False, var() if kind != "kill" else None)
                   for k in extra for kind in KINDS]
        # "disk full": half of the slice is written, then OSError(ENOSPC)
        part = [k for k in list(must) + list(extra)
                if info["kinds"][k] == "dset-write"
                and (run.thorough or run.rng.random() < 0.5)]
        run.rng.shuffle(part)
        first += [(idx, k, "partial", False, "ENOSPC") for k in part[:6]]
        second += [(idx, k, "partial", False, "ENOSPC") for k in part[6:]]
    run.rng.shuffle(first)
    run.rng.shuffle(second)
    # a trace the protocol rejects: faults around the rejected operation
    # first (that is where a failing input is to be expected)
    front = []
    for idx, info in enumerate(INFO):
        pos = info.get("reject_pos", -1)
        if info["err"] is None and pos is not None and pos >= 0:
            n = len(info["kinds"])
            for k in range(max(0, pos - 3), min(n, pos + 6)):
                front += [(idx, k, kind, False, None)
                          for kind in ("kill", "raise", "raise-after")]
    floor = front + floor
    seen = set(j[:3] for j in floor)
    rest = []
    for j in first + second:
        if j[:3] not in seen:
            seen.add(j[:3])
            rest.append(j)
    # every tenth fault run is followed by an unharmed re-run on the
    # leftovers (C10_state_after_fault_is_restartable)
    floor = [j[:3] + (q % 10 == 3,) + j[4:] for q, j in enumerate(floor)]
    rest = [j[:3] + (q % 10 == 3,) + j[4:] for q, j in enumerate(rest)]
    import multiprocessing

    def consume(jobs, limit):
        t_start = time.time()
        out = []
        it = _POOL.imap_unordered(_job, [("fault_job", j) for j in jobs],
                                  chunksize=1)
        ncrash = 0
        while len(out) + ncrash < len(jobs):
            left = limit - (time.time() - t_start)
            if left <= 0:
                break
            try:
                res = it.next(timeout=left)
            except (multiprocessing.TimeoutError, StopIteration):
                break
            if "crash" in res:
                ncrash += 1
                run.broken.append(("harness(C10)", "fault run crashed: %s" %
                                   res["crash"]))
            else:
                out.append(res)
        complete = (len(out) + ncrash == len(jobs))
        if not complete:
            restart_pool()
        # deterministic order of evaluation / reporting
        order = {j[:3]: n for n, j in enumerate(jobs)}
        out.sort(key=lambda r: order.get(tuple(r["job"])[:3], 0))
        return out, complete

    # phase 1: the floor - not bounded by the time box; a hard cap only
    # guards against a hung machine, and missing it is a broken obligation
    cap = float(os.environ.get("VERIF_C10_FLOOR_CAP",
                               "1500" if run.thorough else "300"))
    results, complete = consume(floor, cap)
    nfloor = len(results)
    if not complete:
        run.broken.append((
            "correspondence-floor(C10)",
            "only %d of the %d mandatory fault runs (opens for writing, "
            "closes, renames, unlinks of every case) finished within %.0f s"
            % (nfloor, len(floor), cap)))
    _tick(run, "fault-floor(%d of %d)" % (nfloor, len(floor)))
    # phase 2: the sampled rest within the time box
    if run.thorough:
        limit = float(os.environ.get("VERIF_C10_FAULT_SECS", "600"))
    else:
        limit = float(os.environ.get(
            "VERIF_C10_FAULT_SECS",
            str(min(30.0, max(8.0, 72.0 - (time.time() - run.t0))))))
    more, complete2 = consume(rest, limit) if rest else ([], True)
    results += more
    jobs = floor + rest
    run.extra["fault_runs"] = dict(floor_done=nfloor, floor_total=len(floor),
                                   sampled_done=len(more),
                                   sampled_total=len(rest))
    print("C10 fault runs: floor %d/%d, sampled %d/%d" % (
        nfloor, len(floor), len(more), len(rest)))
    if not complete2:
        run.notes.append("sampled fault enumeration stopped after %.0f s: %d "
                         "of %d done (the floor of %d ran completely: %s)" % (
                             limit, len(more), len(rest), len(floor),
                             complete))
    _tick(run, "fault-runs(%d of %d)" % (len(results), len(jobs)))
    rendered = []
    for res in results:
        idx, k, kind = res["job"][:3]
        nin = len(INFO[idx]["lay"]["ins"])
        if kind == "exit-raise":
            # the model sees it as a failure of the operation that would
            # have come next
            pos = res["child"].get("fault_pos")
            rendered.append("(%d, %d, %d, 1)" % (
                idx, nin, pos if pos is not None else 10 ** 7))
            continue
        if kind == "partial":
            rendered.append("(%d, %d, %d, 2)" % (idx, nin, k))
            continue
        # an operation that is performed and then reported as failed is, for
        # the model, a failure of the next operation without partial effect
        rendered.append("(%d, %d, %d, %d)" % (
            idx, nin, k + 1 if kind == "raise-after" else k,
            0 if kind == "kill" else 1))
    pred = common.coq_map(
        run.scratch, "c10pred", header(),
        "(fun q : Z * Z * Z * Z => let '(i, nin, k, kind) := q in "
        "predict (tc_ i) (Z.to_nat nin) (Z.to_nat k) kind)", rendered,
        shard=250)
    _tick(run, "model-predictions")
    for res, m in zip(results, pred):
        idx, k, kind = res["job"][:3]
        case, info = CASES[idx], INFO[idx]
        obs = res["obs"]
        fired = (res["code"] != 0) or res["child"].get("fired", False)
        exc = res["job"][4] if len(res["job"]) > 4 else None
        cd = case_desc(idx, k, kind, exc)
        if kind != "kill":
            run.count("exception:%s" % (exc or "EIO"))
        run.record_case(cd, fired, sample=(k > 5 and len(run.samples) < 3))
        run.count("fault:%s" % kind)
        run.count("fault-at:%s" % (info["kinds"][k] if kind != "exit-raise"
                                   else "writer-exit"))
        run.count("child-exit:%s" % res["code"])
        judge(run, idx, res)
        nout = len(info["lay"]["outs"])
        # a task may remove its temporary file when it fails (the property
        # allows that): the temporary name is compared for kills only
        cmp_tmp = (kind == "kill")
        impl = []
        for i in range(nout):
            impl += [obs["out"][i], obs["tmp"][i] if cmp_tmp else -1]
        # the model speaks about the task's input files only
        lay = info["lay"]
        impl += [1 if obs["inputs_same"][lay["all_inputs"].index(p)] else 0
                 for p in lay["ins"]]
        model = []
        for i in range(nout):
            model += [m[2 * i], (1 if m[2 * i + 1] else 0) if cmp_tmp else -1]
        model += m[2 * nout:]
        # Model.unwind: after the failing operation only writes to / closes
        # of files that are open happen (no handler opens, renames, deletes)
        bad_after = [a for a in res["child"].get("after", [])
                     if a[0] in ("rename", "unlink", "open-w", "open-a",
                                 "raw-open")
                     and not (a[0] == "unlink" and a[1] in lay["temps"])]
        if kind != "kill" and bad_after and res["code"] != 0:
            model = model + ["unwind: only writes and closes"]
            impl = impl + ["unwind performed %s" % bad_after[:3]]
        rs = res.get("restart")
        if rs is not None:
            # second, unharmed run on the leftovers
            run.count("restart-runs")
            judge(run, idx, dict(job=(idx, k, kind + "+rerun"), obs=rs["obs"],
                                 code=rs["code"], child={}))
            # model: the aged state is a legal start (rerun_ready), so a
            # task with setup succeeds; split refuses while a temporary
            # file of its own is left
            expect_ok = not (case["task"] == "split" and any(obs["tmp"]))
            got_ok = (rs["code"] == 0 and all(v == 2 for v in rs["obs"]["out"])
                      and not any(rs["obs"]["tmp"]))
            run.corr_checked += 1
            if expect_ok and not got_ok:
                # confirm before reporting (a re-run can fail for reasons of
                # its own on an overloaded machine): same fault, same re-run
                again = pmap("fault_job", [tuple(res["job"])])[0]
                rs2 = again.get("restart") if "crash" not in again else None
                if rs2 is not None:
                    run.count("restart-retried")
                    rs = rs2
                    got_ok = (rs["code"] == 0
                              and all(v == 2 for v in rs["obs"]["out"])
                              and not any(rs["obs"]["tmp"]))
            if expect_ok and not got_ok:
                run.mismatch(dict(cd, rerun=True),
                             ["rerun completes", [2] * nout],
                             ["exit %s" % rs["code"], rs["obs"]["out"],
                              rs["obs"]["tmp"], rs["obs"]["why"][:2]],
                             what="re-running the task on what the fault "
                                  "left behind does not give the complete "
                                  "result")
        run.corr_checked += 1
        if model != impl:
            run.mismatch(cd, model, impl,
                         what="state after the fault differs from the "
                              "model's prediction [out_i, tmp_i exists ..., "
                              "inputs unchanged] at %s" % op_desc(info, k))


# --------------------------------------------------------------------------
# asynchronous SIGKILL (not at an operation boundary): oracle only
# --------------------------------------------------------------------------
def sigkill_job(job):
    """Run the task in a child that sends itself SIGKILL / SIGTERM / SIGINT
    from a timer thread started when operation k begins (delay 0..2 ms): the
    signal lands inside or right after that h5py/os call - not at an
    operation boundary like the os._exit faults."""
    import signal
    idx, k = job[0], job[1]
    signame = job[2] if len(job) > 2 else "sigkill"
    delay = (job[3] if len(job) > 3 else 300) / 1e6
    sig = dict(sigkill="SIGKILL", sigint="SIGINT", sigterm="SIGTERM")[signame]
    case, info = CASES[idx], INFO[idx]
    d = _copy_template(idx)
    w = os.path.join(d, "w")
    sys.stdout.flush()
    sys.stderr.flush()
    t0 = time.time()
    pid = os.fork()
    if pid == 0:
        code = 5
        try:
            devnull = os.open(os.devnull, os.O_WRONLY)
            os.dup2(devnull, 1)
            os.dup2(devnull, 2)
            # SIGINT -> KeyboardInterrupt unwinds through the with blocks;
            # SIGTERM has its default action (the CLI installs no handler)
            signal.signal(signal.SIGINT, signal.default_int_handler)
            signal.signal(signal.SIGTERM, signal.SIG_DFL)
            ct.install()
            rec = ct.Recorder(w, fault_at=k, fault_kind="signal:" + sig)
            rec.signal_delay = delay
            ct.set_recorder(rec)
            try:
                run_task(case, info["lay"], w)
                # give a late signal the chance to arrive
                time.sleep(delay + 0.05)
                code = 0
            except BaseException:  # noqa
                code = 4
        finally:
            os._exit(code)
    _, status = os.waitpid(pid, 0)
    code = os.waitstatus_to_exitcode(status)
    obs = observe(idx, w, os.path.join(info["ref"], "w"), info["viol"])
    shutil.rmtree(d, ignore_errors=True)
    return dict(job=(idx, k, signame), code=code, child={}, obs=obs,
                secs=time.time() - t0)


def sigkill_runs(run):
    n = 600 if run.thorough else 60
    ok = [i for i, info in enumerate(INFO) if info["err"] is None]
    jobs = []
    for q in range(n):
        idx = run.rng.choice(ok)
        kinds = INFO[idx]["kinds"]
        struct = [k for k, kd in enumerate(kinds)
                  if kd in ("close", "rename", "open-a", "open-w", "copy",
                            "dset-create")]
        k = run.rng.choice(struct) if struct and run.rng.random() < 0.5 \
            else run.rng.randrange(len(kinds))
        jobs.append((idx, k, ("sigkill", "sigint", "sigterm")[q % 3],
                     run.rng.choice([0, 50, 200, 500, 1000, 2000])))
    real = 0
    for res in pmap("sigkill_job", jobs):
        if "crash" in res:
            run.broken.append(("harness(C10)", "signal run crashed: %s" %
                               res["crash"]))
            continue
        idx, k, kind = res["job"]
        cd = case_desc(idx, k, kind)
        real += res["code"] != 0
        run.record_case(cd, res["code"] != 0, sample=False)
        run.count("fault:%s" % kind)
        run.count("%s-exit:%s" % (kind, res["code"]))
        judge(run, idx, res)
    run.extra["signals_effective"] = "%d of %d" % (real, len(jobs))
    if real < 0.8 * len(jobs):
        run.notes.append("only %d of %d signal runs interrupted the task" % (
            real, len(jobs)))


# --------------------------------------------------------------------------
# names of the temporary files (Model/C10_paths.v)
# --------------------------------------------------------------------------
NAMES_HEADER = ("From Coq Require Import ZArith List.\nImport ListNotations.\n"
                "From Verif Require Import Model.C10_paths.\n")


def gen_name(rng):
    r = rng.random()
    alpha = "ab._~-rtdcms1 "
    if r < 0.25:
        stem = "".join(rng.choice(alpha) for _ in range(rng.randint(0, 6)))
        name = stem + rng.choice([".rtdc", ".rtdc~", ".tdms", ".RTDC", ".rtd",
                                  ".rtdc.", ".rtdc.rtdc", "", ".h5"])
    elif r < 0.35:
        name = rng.choice([".rtdc", "rtdc", "...", "a.", ".a", "a..rtdc",
                           "~", ".rtdc~", "x.rtdc~.rtdc", "\u00e4.rtdc"])
    else:
        name = "".join(rng.choice(alpha) for _ in range(rng.randint(1, 10)))
    if name in ("", ".", "..") or name.strip() != name:
        name = "n" + name.strip() + "x"
    return name


def names_check(run):
    """common.setup_task_paths on generated input/output paths against the
    model (Model/C10_paths.v: suffix arithmetic, resolved directories,
    refusal when the output or its temporary path is an input)."""
    from dclab.cli import common as cli_common
    n = 3000 if run.thorough else 300
    d = pathlib.Path(os.path.realpath(run.scratch)) / "names"
    (d / "A" / "_sub").mkdir(parents=True, exist_ok=True)
    (d / "B").mkdir(exist_ok=True)
    if not (d / "L").is_symlink():
        os.symlink(d / "A", d / "L")
    content = b"\x89HDF\r\n\x1a\n input data " * 7
    # the ways of writing directory A (id 1) and B (id 2)
    forms = [("A", 1), ("A/.", 1), ("A/_sub/..", 1), ("L", 1), ("B", 2),
             ("B/../A", 1), ("rel:A", 1), ("rel:L/_sub/..", 1), ("rel:B", 2)]
    cases, impl, rendered = [], [], []
    cwd = os.getcwd()
    fixed = []
    cdir = os.path.join(common.VERIF, "corpus", PROP)
    for fn in sorted(os.listdir(cdir)) if os.path.isdir(cdir) else []:
        if fn.endswith(".json"):
            c = json.load(open(os.path.join(cdir, fn)))["case"]
            if c.get("kind") == "names":
                fixed.append(c)
    try:
        for q in range(-len(fixed), n):
            if q < 0:
                case = dict(dict(inputs=["in.rtdc"], form_in="A",
                                 form_out="A"), **fixed[q + len(fixed)])
                dout = dict(forms)[case["form_out"]]
                name, in_names = case["name"], case["inputs"]
                res = names_run(cli_common, d, case, content)
                cases.append(case)
                run.record_case(case, True, sample=False)
                run.count("names:corpus")
                for f in res["fails"]:
                    run.oracle_failure(case, f, None)
                impl.append(res["flat"])
                rendered.append("(%s, (%d, %s))" % (
                    common.clist(["(1, %s)" % common.zlist(
                        [ord(c) for c in nm]) for nm in in_names]),
                    dout, common.zlist([ord(c) for c in name])))
                continue
            name = gen_name(run.rng)
            in_names = ["in.rtdc"]
            if q % 3 == 0:
                # stem of the input, arbitrary suffix
                name = "in" + run.rng.choice(ALIAS_SUFFIXES + ["", ".rtdc"] + [
                    "." + "".join(run.rng.choice("abrtdc.") for _ in range(
                        run.rng.randint(1, 5))) + "x"])
            if q % 7 == 0:
                # check_suffix=False: any input name, e.g. the temporary
                # name of the output
                in_names = [run.rng.choice(["in.rtdc~", "in", "in.h5",
                                            "in.x.rtdc~", "in.tdms"])]
                if run.rng.random() < 0.5:
                    name = "in" + run.rng.choice(["", ".rtdc", ".x", ".x.rtdc"])
            if q % 5 == 0:
                in_names.append("in2.rtdc")          # list of inputs (join)
            fin, din = run.rng.choice([f for f in forms if f[1] == 1])
            fout, dout = run.rng.choice(forms)
            case = dict(kind="names", name=name, inputs=in_names, form_in=fin,
                        form_out=fout)
            res = names_run(cli_common, d, case, content)
            cases.append(case)
            run.record_case(case, "." in name, sample=False)
            run.count("names")
            run.count("names:form:%s" % fout)
            for f in res["fails"]:
                run.oracle_failure(case, f, None)
            if res["refused"]:
                run.count("names:refused")
            impl.append(res["flat"])
            rendered.append("(%s, (%d, %s))" % (
                common.clist(["(1, %s)" % common.zlist([ord(c) for c in nm])
                              for nm in in_names]),
                dout, common.zlist([ord(c) for c in name])))
    finally:
        os.chdir(cwd)
    # ---- lists of outputs (paths_out + paths_temp are all guarded) and
    # file-level symlinks (oracle only)
    lcases, limpl, lrend = [], [], []
    lfixed = []
    for fn in sorted(os.listdir(cdir)) if os.path.isdir(cdir) else []:
        if fn.endswith(".json"):
            c = json.load(open(os.path.join(cdir, fn)))["case"]
            if c.get("kind") == "names-list":
                lfixed.append(c)
    try:
        for q in range(-len(lfixed), max(40, n // 5)):
            in_names = ["in.rtdc"] + (["in2.rtdc"] if q % 2 else [])
            if q % 6 == 0:
                in_names = ["in.rtdc~", "in2.rtdc"]
            outs = []
            for _ in range(run.rng.choice([2, 2, 3])):
                nm = run.rng.choice(["ok", "ok2.x", "in", "in.rtdc", "in2",
                                     "in.x", gen_name(run.rng),
                                     gen_name(run.rng)])
                outs.append([run.rng.choice(forms)[0], nm])
            case = dict(kind="names-list", inputs=in_names, form_in="A",
                        outs=outs)
            if q < 0:
                case = dict(lfixed[q + len(lfixed)])
                in_names, outs = case["inputs"], case["outs"]
            res = names_run_list(cli_common, d, case, content)
            lcases.append(case)
            run.record_case(case, True, sample=False)
            run.count("names:list-of-outputs")
            if res["refused"]:
                run.count("names:list-refused")
            for f in res["fails"]:
                run.oracle_failure(case, f, None)
            limpl.append(res["flat"])
            lrend.append("(%s, %s)" % (
                common.clist(["(1, %s)" % common.zlist([ord(c) for c in nm])
                              for nm in in_names]),
                common.clist(["(%d, %s)" % (dict(forms)[f], common.zlist(
                    [ord(c) for c in nm])) for f, nm in outs])))
        for q in range(12):
            case = dict(kind="names-symlink",
                        link=run.rng.choice(["lnk.rtdc", "lnk.rtdc~"]),
                        name="lnk" + run.rng.choice(["", ".rtdc"]))
            res = names_run_symlink(cli_common, d, case, content)
            run.record_case(case, True, sample=False)
            run.count("names:file-symlink")
            for f in res["fails"]:
                run.oracle_failure(case, f, None)
    finally:
        os.chdir(cwd)
    lmodel = common.coq_map(
        run.scratch, "c10nameslist", NAMES_HEADER,
        "(fun q : list fpath * list fpath => "
        "match setup_paths_list (fst q) (snd q) with | None => [-2] "
        "| Some ots => flat_map (fun ot => snd (fst ot) ++ [-1] ++ "
        "snd (snd ot) ++ [-3]) ots end)", lrend)
    for c, m, i in zip(lcases, lmodel, limpl):
        run.corr_checked += 1
        if m != i:
            run.mismatch(c, m, i, what="setup_task_paths with a list of "
                                       "outputs: names / refusal")
    model = common.coq_map(
        run.scratch, "c10names", NAMES_HEADER,
        "(fun q : list fpath * (Z * list Z) => "
        "match setup_paths_at (fst q) (fst (snd q)) (snd (snd q)) with "
        "| None => [-2] | Some (o, t) => snd o ++ [-1] ++ snd t end)",
        rendered)
    for c, m, i in zip(cases, model, impl):
        run.corr_checked += 1
        if m != i:
            run.mismatch(c, m, i, what="setup_task_paths names / refusal")
    # the suffix check on inputs (Model.allowed_input)
    sfx_names = [gen_name(run.rng) for _ in range(40)] + [
        "a.rtdc", "a.tdms", "a.rtdc~", "a", ".rtdc", "a.RTDC", "a.b.tdms"]
    got = []
    for nm in sfx_names:
        try:
            cli_common.setup_task_paths(d / "B" / nm, d / "A" / "o.rtdc",
                                        allowed_input_suffixes=[".rtdc",
                                                                ".tdms"])
            got.append([1])
        except ValueError:
            got.append([0])
    want = common.coq_map(run.scratch, "c10sfx", NAMES_HEADER,
                          "(fun nm => [if allowed_input nm then 1 else 0])",
                          [common.zlist([ord(c) for c in nm])
                           for nm in sfx_names])
    for nm, m, i in zip(sfx_names, want, got):
        run.corr_checked += 1
        run.count("names:suffix-check")
        if m != i:
            run.mismatch(dict(kind="names-suffix", name=nm), m, i,
                         what="input suffix check")


def names_run_list(cli_common, d, case, content):
    """setup_task_paths with lists of inputs and outputs."""
    def styled(form, nm):
        if form.startswith("rel:"):
            os.chdir(d)
            return pathlib.Path(form[4:]) / nm
        return d / form / nm
    in_names = case["inputs"]
    for nm in in_names:
        (d / "A" / nm).write_bytes(content)
    A = os.path.realpath(d / "A")
    must_refuse = False
    for form, nm in case["outs"]:
        same = os.path.realpath(d / form.replace("rel:", "")) == A
        pred = predicted_out_name(nm)
        if same and any(pred == x or pred + "~" == x for x in in_names):
            must_refuse = True
    fails, refused, flat = [], None, [-2]
    allowed = [".rtdc"] + [pathlib.PurePosixPath(x).suffix for x in in_names]
    try:
        pin, pout, ptmp = cli_common.setup_task_paths(
            [d / "A" / x for x in in_names],
            [styled(f, nm) for f, nm in case["outs"]],
            allowed_input_suffixes=allowed)
    except ValueError as e:
        refused = e
    for nm in in_names:
        f = d / "A" / nm
        if not f.exists() or f.read_bytes() != content:
            fails.append("setup_task_paths(%s -> %s) removed or changed the "
                         "input file %s" % (in_names, case["outs"], nm))
    if must_refuse and refused is None:
        fails.append("one of the outputs %s (or its temporary name) is an "
                     "input of %s but setup_task_paths did not refuse" % (
                         case["outs"], in_names))
    if refused is not None and not must_refuse:
        fails.append("setup_task_paths refused the legal outputs %s for "
                     "inputs %s (%r)" % (case["outs"], in_names, refused))
    if refused is None:
        flat = []
        for (form, nm), po, pt in zip(case["outs"], pout, ptmp):
            flat += [ord(c) for c in po.name] + [-1] + [
                ord(c) for c in pt.name] + [-3]
            if po.name != predicted_out_name(nm):
                fails.append("requested output %r is written to %r, the "
                             "name theorems predict %r" % (
                                 nm, po.name, predicted_out_name(nm)))
    for nm in in_names:
        try:
            (d / "A" / nm).unlink()
        except OSError:
            pass
    return dict(fails=fails, refused=refused is not None, flat=flat)


def names_run_symlink(cli_common, d, case, content):
    """An output path (or its temporary path) that is a symbolic link to the
    input: whatever setup does (refuse, or remove the link), the input file
    itself must survive."""
    inp = d / "A" / "in.rtdc"
    inp.write_bytes(content)
    link = d / "A" / case["link"]
    if link.is_symlink() or link.exists():
        link.unlink()
    os.symlink(inp, link)
    fails = []
    try:
        cli_common.setup_task_paths(inp, d / "A" / case["name"],
                                    allowed_input_suffixes=[".rtdc"])
    except ValueError:
        pass
    if not inp.exists() or inp.read_bytes() != content:
        fails.append("setup_task_paths(in.rtdc -> %r) with %s -> in.rtdc "
                     "removed or changed the input" % (case["name"],
                                                       case["link"]))
    for f in (link, inp):
        try:
            f.unlink()
        except OSError:
            pass
    return dict(fails=fails)


def names_run(cli_common, d, case, content):
    """One call of setup_task_paths on real files; model independent verdict
    + flat observation ([-2] refused | out name ++ [-1] ++ temp name)."""
    def styled(form, nm):
        if form.startswith("rel:"):
            os.chdir(d)
            return pathlib.Path(form[4:]) / nm
        return d / form / nm
    name, in_names = case["name"], case["inputs"]
    for nm in in_names:
        (d / "A" / nm).write_bytes(content)
    same_dir = os.path.realpath(d / case["form_out"].replace("rel:", "")) \
        == os.path.realpath(d / "A")
    pred = predicted_out_name(name)
    must_refuse = same_dir and any(pred == nm or pred + "~" == nm
                                   for nm in in_names)
    pins = [styled(case["form_in"], nm) for nm in in_names]
    allowed = [".rtdc"] + [pathlib.PurePosixPath(nm).suffix
                           for nm in in_names]
    fails, refused, flat = [], None, [-2]
    try:
        pin, pout, ptmp = cli_common.setup_task_paths(
            pins if len(pins) > 1 else pins[0], styled(case["form_out"], name),
            allowed_input_suffixes=allowed)
    except ValueError as e:
        refused = e
    for nm in in_names:
        f = d / "A" / nm
        if not f.exists() or f.read_bytes() != content:
            fails.append("setup_task_paths(%s -> %s/%r) removed or changed "
                         "the input file %s" % (in_names, case["form_out"],
                                                name, nm))
    if must_refuse and refused is None:
        fails.append("output %r (or its temporary name) is the input %s but "
                     "setup_task_paths did not refuse" % (name, in_names))
    if refused is not None and not must_refuse:
        fails.append("setup_task_paths refused the legal output %s/%r for "
                     "inputs %s (%r)" % (case["form_out"], name, in_names,
                                         refused))
    if refused is None:
        flat = [ord(c) for c in pout.name] + [-1] + [ord(c) for c in ptmp.name]
        if pout.name != pred:
            fails.append("requested output %r is written to %r, the name "
                         "theorems predict %r" % (name, pout.name, pred))
        if ptmp == pout or ptmp.parent != pout.parent \
                or ptmp.suffix in (".rtdc", ".tdms"):
            fails.append("temporary path %s can collide with an input or "
                         "the output %s" % (ptmp, pout))
    for nm in in_names:
        try:
            (d / "A" / nm).unlink()
        except OSError:
            pass
    return dict(fails=fails, refused=refused is not None, flat=flat)


# --------------------------------------------------------------------------
# failures that need no injection
# --------------------------------------------------------------------------
def natural_failures(run):
    """Tasks that fail on their own (unreadable input; split with a stale
    temporary file): same oracle."""
    jobs = []
    for idx, case in enumerate(CASES):
        if "inputs" in case:
            jobs.append((idx, "truncated-input"))
        if case["task"] == "split":
            jobs.append((idx, "stale-temp"))
        if "inputs" in case and not case.get("in_names") \
                and case["task"] in ("compress", "repack", "condense",
                                     "join"):
            # `repack in0.rtdc in0` / `repack in0.rtdc in0.rtdc`: the
            # corrected output name is an input: the task must refuse
            jobs.append((idx, run.rng.choice(["alias-output",
                                              "same-path"])))
        if "inputs" in case and case["task"] in ("compress", "repack",
                                                 "condense"):
            # check_suffix=False and the input is named like the temporary
            # file of the output (x.rtdc~ -> x.rtdc): must refuse as well
            jobs.append((idx, "temp-alias"))
    for res in pmap("natural_job", jobs):
        if "crash" in res:
            run.broken.append(("harness(C10)", "natural-failure run crashed: "
                               "%s" % res["crash"]))
            continue
        idx, what = res["job"]
        cd = dict(CASES[idx], scenario=what)
        run.record_case(cd, res["failed"], sample=False)
        run.count("natural:%s" % what)
        if res["fails"]:
            run.oracle_failure(cd, "%s with %s: %s" % (
                CASES[idx]["task"], what, "; ".join(res["fails"])), None)


def natural_job(job):
    idx, what = job
    case, info = CASES[idx], INFO[idx]
    lay = info["lay"]
    d = _copy_template(idx)
    w = os.path.join(d, "w")
    pre = {}
    if what == "truncated-input":
        p = os.path.join(w, lay["ins"][-1])
        data = open(p, "rb").read()
        with open(p, "wb") as fd:
            fd.write(data[:len(data) // 2])
        pre[lay["ins"][-1]] = sha(p)
    elif what == "stale-temp":
        t = os.path.join(w, lay["temps"][-1])
        with open(t, "wb") as fd:
            fd.write(b"stale junk")
        pre["__tmp__"] = sha(t)
    if what in ("alias-output", "same-path"):
        last = lay["ins"][-1]
        stem = last[:-len(".rtdc")] if last.endswith(".rtdc") else last
        lay = dict(lay, req=[stem if what == "alias-output" else last])
    if what == "temp-alias":
        shutil.copyfile(os.path.join(w, lay["ins"][-1]),
                        os.path.join(w, "zz.rtdc~"))
        pre["zz.rtdc~"] = sha(os.path.join(w, "zz.rtdc~"))
        lay = dict(lay, ins=["zz.rtdc~"], req=["zz.rtdc"],
                   all_inputs=list(lay["all_inputs"]) + ["zz.rtdc~"])
        case = dict(case, params=dict(case["params"], check_suffix=False,
                                      via_argv=False))
    before = sorted(os.path.relpath(os.path.join(dp, f), w)
                    for dp, _dn, fs in os.walk(w) for f in fs)
    failed = False
    exc = None
    try:
        run_task(case, lay, w)
    except BaseException as e:  # noqa
        failed = True
        exc = e
    fails = []
    if what in ("alias-output", "same-path", "temp-alias"):
        after = sorted(os.path.relpath(os.path.join(dp, f), w)
                       for dp, _dn, fs in os.walk(w) for f in fs)
        if not failed:
            fails.append("the task did not refuse an output/temporary path "
                         "that is its input (input %s, output %s)" % (
                             lay["ins"], lay["req"]))
        if after != before:
            fails.append("files changed although the task had to refuse: "
                         "%s -> %s" % (before, after))
    for i, o in enumerate(lay["outs"]):
        p = os.path.join(w, o)
        if not os.path.lexists(p):
            continue
        if case["stale_out"][i] and sha(p) == lay["stale_sha"].get(i):
            continue
        try:
            import dclab
            with dclab.new_dataset(p) as ds:
                n = len(ds)
                for feat in ds.features_innate:
                    if feat != "trace" and len(ds[feat]) != n:
                        raise ValueError("feature %s truncated" % feat)
                    _ = ds[feat][0] if feat != "trace" else None
            # (a complete, loadable output after a late failure satisfies
            # the property)
        except BaseException as e:  # noqa
            if type(e).__name__ == "OldFormatNotSupportedError":
                continue            # sandbox: untagged build
            fails.append("output %s is not loadable: %r" % (o, e))
    for p in lay["all_inputs"]:
        q = os.path.join(w, p)
        want = pre.get(p) or lay["in_sha"][p]
        if not (os.path.isfile(q) and sha(q) == want):
            fails.append("input %s was modified" % p)
    if what == "stale-temp" and not failed:
        # a task that now removes stale temporary files is fine as long as
        # the result is complete (checked above)
        pass
    shutil.rmtree(d, ignore_errors=True)
    return dict(job=job, failed=failed, fails=fails)


# --------------------------------------------------------------------------
# translator cross-check: system calls seen by strace vs recorded operations
# --------------------------------------------------------------------------
_SYS = re.compile(
    r'^\d+\s+(openat|open|creat|rename|renameat|renameat2|unlink|unlinkat)'
    r'\((.*)\)\s+=\s+(-?\d+)')


def strace_child(argv_json):
    """entry point of the traced subprocess"""
    a = json.load(open(argv_json))
    ct.install()
    rec = ct.Recorder(a["w"])
    ct.set_recorder(rec)
    err = None
    try:
        run_task(a["case"], a["lay"], a["w"])
    except BaseException as e:  # noqa
        err = repr(e)
    ct.set_recorder(None)
    with open(a["out"], "w") as fd:
        json.dump(dict(err=err, ops=[(o[0], o[1], o[2]) for o in rec.ops]),
                  fd)


def _dedupe(seq):
    out = []
    for x in seq:
        if not out or out[-1] != x:
            out.append(x)
    return out


def strace_job(idx):
    import subprocess
    case, info = CASES[idx], INFO[idx]
    d = _copy_template(idx)
    w = os.path.realpath(os.path.join(d, "w"))
    arg = os.path.join(d, "arg.json")
    outp = os.path.join(d, "rec.json")
    log = os.path.join(d, "strace.log")
    with open(arg, "w") as fd:
        json.dump(dict(case=case, lay=info["lay"], w=w, out=outp), fd)
    cmd = ["strace", "-f", "-qq", "-s", "4096", "-o", log, "-e",
           "trace=openat,open,creat,rename,renameat,renameat2,unlink,"
           "unlinkat", sys.executable, "-W", "ignore", "-c",
           "import sys; from harness import c10; c10.strace_child(sys.argv[1])",
           arg]
    try:
        r = subprocess.run(cmd, capture_output=True, text=True, timeout=600)
    except Exception as e:
        shutil.rmtree(d, ignore_errors=True)
        return dict(idx=idx, skipped="strace not usable: %r" % (e,))
    if not os.path.exists(outp) or not os.path.exists(log):
        shutil.rmtree(d, ignore_errors=True)
        return dict(idx=idx, skipped="strace run failed: %s" %
                    (r.stderr or "")[-300:])
    rec = json.load(open(outp))
    want = []
    for kind, p, p2 in rec["ops"]:
        if kind in ("open-w", "open-a"):
            want.append(("wopen", os.path.relpath(p, w)))
        elif kind == "rename":
            want.append(("rename", os.path.relpath(p, w),
                         os.path.relpath(p2, w)))
        elif kind == "unlink":
            want.append(("unlink", os.path.relpath(p, w)))
    seen = []
    for line in open(log, errors="replace"):
        m = _SYS.match(line)
        if not m or int(m.group(3)) < 0:
            continue
        call, args = m.group(1), m.group(2)
        paths = [os.path.realpath(x if os.path.isabs(x)
                                  else os.path.join(w, x))
                 for x in re.findall(r'"((?:[^"\\]|\\.)*)"', args)]
        paths = [x for x in paths if x.startswith(w + os.sep)]
        if not paths:
            continue
        if call in ("openat", "open", "creat"):
            if call == "creat" or re.search(
                    r"O_WRONLY|O_RDWR|O_CREAT|O_TRUNC|O_APPEND", args):
                seen.append(("wopen", os.path.relpath(paths[0], w)))
        elif call.startswith("rename"):
            if len(paths) == 2:
                seen.append(("rename", os.path.relpath(paths[0], w),
                             os.path.relpath(paths[1], w)))
            else:
                seen.append(("rename-across", [os.path.relpath(x, w)
                                               for x in paths]))
        else:
            if "AT_REMOVEDIR" in args:
                continue
            seen.append(("unlink", os.path.relpath(paths[0], w)))
    seen = [x for x in seen if x[1] not in ("arg.json", "rec.json")]
    shutil.rmtree(d, ignore_errors=True)
    want, seen = _dedupe(want), _dedupe(seen)
    return dict(idx=idx, ok=(want == seen), want=want, seen=seen,
                err=rec["err"])


def strace_crosscheck(run):
    """The wrapped entry points must account for every system call that
    creates, opens for writing, renames or removes a file of the task."""
    if shutil.which("strace") is None:
        run.notes.append("strace not installed: translator cross-check "
                         "skipped")
        return
    idxs = list(range(len(CASES)))
    if not run.thorough:
        # one case per task (random among the task's cases)
        by_task = {}
        for i in idxs:
            if INFO[i].get("err") is None:
                by_task.setdefault(CASES[i]["task"], []).append(i)
        idxs = [run.rng.choice(v) for _t, v in sorted(by_task.items())]
    for res in pmap("strace_job", idxs):
        if "crash" in res:
            res = dict(idx=res["idx"], skipped=res["crash"][-300:])
        if "skipped" in res:
            run.notes.append("strace cross-check of case %d skipped: %s" % (
                res["idx"], res["skipped"]))
            run.count("strace-skipped")
            continue
        run.count("strace-crosscheck")
        if not res["ok"]:
            diff = [(a, b) for a, b in zip(res["want"] + [None] * 99,
                                           res["seen"] + [None] * 99)
                    if a != b][:3]
            run.broken.append((
                "translator(C10)",
                "system calls on the task's files differ from the recorded "
                "operations for %s (recorded, strace): %s" % (
                    CASES[res["idx"]]["task"], diff)))


# --------------------------------------------------------------------------
# replay / shrink / search
# --------------------------------------------------------------------------
class _MiniRun:
    def __init__(self):
        self.scratch = tempfile.mkdtemp(
            prefix="verif-C10-replay-",
            dir=os.environ.get("VERIF_SCRATCH", "/var/tmp"))
        self.rng = random.Random(0)
        self.thorough = False


def _strip(case):
    c = dict(case)
    for key in ("k", "kind", "scenario", "exc", "rerun"):
        c.pop(key, None)
    return c


def replay(payload):
    case = payload.get("case")
    if case and str(case.get("kind", "")).startswith("names"):
        from dclab.cli import common as cli_common
        d = pathlib.Path(tempfile.mkdtemp(
            prefix="verif-C10-names-",
            dir=os.environ.get("VERIF_SCRATCH", "/var/tmp")))
        d = pathlib.Path(os.path.realpath(d))
        cwd = os.getcwd()
        try:
            (d / "A" / "_sub").mkdir(parents=True)
            (d / "B").mkdir()
            os.symlink(d / "A", d / "L")
            case = dict(dict(inputs=["in.rtdc"], form_in="A", form_out="A"),
                        **case)
            if case["kind"] == "names-list":
                res = names_run_list(cli_common, d, case, b"input data")
            elif case["kind"] == "names-symlink":
                res = dict(names_run_symlink(cli_common, d, case,
                                             b"input data"),
                           refused=None, flat=None)
            else:
                res = names_run(cli_common, d, case, b"input data")
            print("case:", json.dumps(case))
            print("refused:", res["refused"], "observation:", res["flat"])
            for f in res["fails"]:
                print("FAILS:", f)
        finally:
            os.chdir(cwd)
            shutil.rmtree(d, ignore_errors=True)
        if not res["fails"]:
            print("passes on the current tree")
        return 1 if res["fails"] else 0
    if not case or "task" not in case:
        print("replay: nothing executable in this file (kind=%s): %s" % (
            payload.get("kind"), json.dumps(payload.get("broken"))[:2000]))
        return 1
    mini = _MiniRun()
    try:
        prepare(mini, [_strip(case)])
        info = INFO[0]
        print("case:", json.dumps(case))
        print("fault-free run: %d operations, error: %s" % (
            len(info["trace"]), info["err"]))
        if "scenario" in case:
            res = natural_job((0, case["scenario"]))
            print("result:", res)
            bad = bool(res["fails"])
        elif case.get("k", -1) < 0:
            print("final state:", info["ref_obs"])
            ro = info["ref_obs"]
            bad = (not all(ro["inputs_same"]) or bool(ro["unexpected"])
                   or (info["err"] is None and (0 in ro["out"]
                                                or any(ro["tmp"]))))
            if case.get("out_name") and info["err"] is not None:
                bad = True
                print("FAILS: the task fails for the legal output name %r: "
                      "%s" % (case["out_name"], info["err"][:200]))
            elif not all(ro["inputs_same"]):
                print("FAILS: an input file was modified or removed "
                      "(requested output %s, expected at %s)" % (
                          info["lay"].get("req") or info["lay"]["outs"],
                          info["lay"]["outs"]))
            elif bad:
                print("FAILS: outputs/temporary files not as required")
        else:
            if case["kind"] in ("sigkill", "sigint", "sigterm"):
                res = sigkill_job((0, case["k"], case["kind"]))
            else:
                res = fault_job((0, case["k"], case["kind"], False,
                                 case.get("exc")))
            print("fault: %s at operation %d (%s)" % (
                case["kind"], case["k"],
                op_desc(info, case["k"], case["kind"])))
            print("child exit code:", res["code"], res["child"])
            print("observed:", res["obs"])

            class R:
                fails = []

                def oracle_failure(self, c, d, f):
                    self.fails.append(d)
            r = R()
            judge(r, 0, res)
            bad = bool(r.fails)
            for f in r.fails:
                print("FAILS:", f)
        if not bad:
            print("passes on the current tree")
        return 1 if bad else 0
    finally:
        shutdown()
        shutil.rmtree(mini.scratch, ignore_errors=True)


def shrink(run, failure):
    """Report the failing case as is (the earliest failing k of the same
    case and kind is preferred when several were seen)."""
    case = failure["case"]
    if case.get("kind") in ("sigkill", "sigint", "sigterm"):
        # prefer a failure that replays deterministically
        det = [f for f in run.oracle_fail
               if f["case"].get("kind") not in ("sigkill", "sigint",
                                                "sigterm")]
        if det:
            failure = det[0]
            case = failure["case"]
    same = [f for f in run.oracle_fail
            if _strip(f["case"]) == _strip(case)
            and f["case"].get("kind") == case.get("kind")
            and "k" in f["case"]]
    if same and "k" in case:
        best = min(same, key=lambda f: f["case"]["k"])
        return dict(case=best["case"], desc=best["desc"],
                    finding=best.get("finding"))
    return failure


def search(run, broken):
    """Proof / translator / correspondence broken and the sampled oracle was
    quiet: enumerate *every* operation of every case with both fault
    kinds."""
    global _POOL
    if not CASES or not INFO or any("ref" not in i for i in INFO):
        try:
            prepare(run, gen_cases(run.rng, run.thorough))
        except Exception:
            return None
    if _POOL is None:
        import multiprocessing
        _POOL = multiprocessing.get_context("fork").Pool(common.NCPU)
    try:
        def structural(j):
            kd = INFO[j[0]]["kinds"][j[1]]
            return kd in ("rename", "close", "open-a", "open-w", "unlink",
                          "raw-open")
        alljobs = [(idx, k, kind, False,
                    ct.EXC_KINDS[(idx + k) % len(ct.EXC_KINDS)]
                    if kind == "raise" else None)
                   for idx, info in enumerate(INFO)
                   if info.get("err") is None
                   for k in range(len(info["kinds"])) for kind in KINDS]
        floor = [j for j in alljobs if structural(j)]
        rest = [j for j in alljobs if not structural(j)]
        if not run.thorough:
            run.rng.shuffle(rest)
            rest = rest[:6000]

        class R:
            def __init__(self):
                self.found = None

            def oracle_failure(self, c, d, f):
                if self.found is None and f is None:
                    self.found = dict(case=c, desc=d)
        r = R()
        box = float(os.environ.get(
            "VERIF_C10_SEARCH_SECS", "900" if run.thorough else "30"))
        cap = float(os.environ.get("VERIF_C10_FLOOR_CAP",
                                   "1500" if run.thorough else "300"))
        for part, limit, is_floor in ((floor, cap, True), (rest, box, False)):
            t_end = time.time() + limit
            done = 0
            import multiprocessing
            it = _POOL.imap_unordered(
                _job, [("fault_job", j) for j in part], chunksize=1)
            while done < len(part):
                try:
                    res = it.next(timeout=max(0.1, t_end - time.time()))
                except (multiprocessing.TimeoutError, StopIteration):
                    break
                done += 1
                if "crash" in res:
                    continue
                judge(r, res["job"][0], res)
                if r.found:
                    return r.found
                if time.time() > t_end:
                    break
            if is_floor and done < len(part):
                run.broken.append((
                    "search-floor(C10)",
                    "only %d of %d structural fault runs finished within "
                    "%.0f s" % (done, len(part), limit)))
                restart_pool()
        # faulty tasks may also simply fail / misbehave without any fault
        for idx, info in enumerate(INFO):
            if info.get("err") is not None:
                return dict(case=case_desc(idx, -1, "none"),
                            desc="task fails without a fault: %s" %
                                 info["err"])
        return None
    finally:
        shutdown()
