"""C11 — metadata values are type-normalised and survive storage unchanged.

Correspondence: the real converter functions (dclab.definitions.meta_parse),
ConfigurationDict.__setitem__ / update / Configuration(cfg=..) /
Configuration(files=..) and RTDCWriter.store_metadata + parse_config against
Model/C11.v (instantiated with the generated Gen/MetaTable.v) evaluated by
vm_compute, over the product of all table keys + pattern keys + user keys
and a list of value representations.

Property oracle (model independent, evaluated on the real code):
  type       the stored value is an instance of the documented type
  idem       assigning the stored value again stores an equal value of the
             same type; f(f(v)) == f(v) for every converter function
  case       upper/title-case keys store the same value under the lower key
  routes     item assignment, update, constructor and (for text) a
             configuration file agree
  reject     unknown keys, "" and None: a warning, nothing stored, no error
  saveload   Configuration.save + load returns the stored value for text
             the .cfg syntax can carry (incl. "=", ":", "[", "]", commas)
  json/copy/order  as_dict/tojson keep the value, copy()/update(cfg) keep
             type and value, items()/tostring() are sorted by key
  carry      metadata pushed through writer, export, compress, repack, join,
             split and a hierarchy child equals the normalised original
  roundtrip  what RTDCWriter.store_metadata wrote is read back (parse_config,
             new_dataset, export.hdf5, dclab-compress) equal to the value
             normalised by Configuration, with a documented type
"""
import json
import math
import os
import warnings

from . import common

PROP = "C11"
RULE = ("keys: every (section, key) of the generated table, online_filter / "
        "filtering pattern keys built from scalar feature names (incl. "
        "malformed ones), user keys (blank, with colon, mixed case), unknown "
        "keys and sections; values: a fixed list of ~110 representations "
        "(str incl. numeric/bool/list text, bytes, int, float incl. nan/inf, "
        "bool, None, numpy scalars, lists/tuples, nested lists, numpy arrays "
        "of ndim 0-2) plus random ones; routes: assignment/update/constructor,"
        " configuration file line (values with = : [ ] # quotes blanks), "
        "save+load, store_metadata+parse_config, re-assignment. "
        "Audit round: non-dyadic/extreme floats, huge ints and exotic "
        "numpy scalars (oracle only); upper/mixed-case SECTION names on "
        "every Configuration route; reads/pop/del/setdefault/in with "
        "non-lower-case keys, ConfigurationDict(section, data), "
        "update(**kw); Configuration-level cases (item/update/constructor, "
        "KeyError for unknown sections); whole hand-written files (several "
        "sections, repeated keys, comments, entry before a header); "
        "attributes written with h5py directly; carry chain extended by a "
        "second store_metadata (append), filtered/child/dict export, "
        "condense and tdms2rtdc (fixtures of /repo/tests/data). "
        "Further routes: as_dict/tojson (normal form), copy and "
        "update(Configuration), several assignments to one section observed "
        "through the entries of the section, and 8 (thorough 30) random "
        "metadata sets (all file sections, pattern keys, user entries, numpy "
        "typed values) carried through RTDCWriter -> parse_config -> "
        "new_dataset -> hierarchy child -> export.hdf5 -> compress -> repack "
        "-> join(2) -> split, every entry compared after every hop. "
        "Quick tier: for the assignment route the full list of values for "
        "one key of every (section, converter) class and 15+4 sampled values "
        "for every other key, random samples of the product for the other "
        "routes; thorough tier: the full product. A case is "
        "non-trivial when the key is valid and the value is neither '' nor "
        "None (a conversion is attempted); distinct = different (route, "
        "section, key, value)")
TRUSTED_BASE = [
    "h5py attribute layer: modelled by Model/C11.v:h5 (Python scalar -> numpy "
    "scalar, sequence -> array, 0-d array -> scalar), tied to h5py only by "
    "the correspondence check (route 2)",
    "harness/translators/tables.py (dump of config_funcs/config_types/"
    "scalar_feature_names and the probes of meta_logic); the probes are "
    "re-checked against the model by theorem C11_probes_agree",
    "Python's float(str)/repr(float)/str.lower are modelled for ASCII text, "
    "decimal literals that are multiples of 1/8, |x| < 1e16; everything else "
    "is reported by the model as 'unmodelled' and only the oracle is "
    "evaluated for it",
    "binary64 rounding is not modelled: '%.12f' text of a float is exact "
    "for multiples of 1/8",
]
ASSUMPTIONS = [
    "keys are str (non-str keys are outside the quantifier)",
    "the model's floats are multiples of 1/8 below 1e16; other floats, "
    "integers beyond 2**53 and exotic numpy scalars are judged by the "
    "oracle only (model: unmodelled)",
    "Configuration.save/load: floats are compared within 5e-13 (text "
    "precision of '%.12f'); exact round trips are asserted only for text "
    "the .cfg syntax can carry (outside the property's storage sentence)",
    "configuration file text contains no '#', newline or tab (the file "
    "syntax gives them another meaning)",
    "setup:software version (branded by the writer), experiment:event count, "
    "imaging:roi size x/y, fluorescence:samples per event/channel count "
    "(rectified by the writer from the data) and section fmt_tdms (dropped "
    "by the writer) are excluded from the file round trip",
    "upper-case non-ASCII letters do not occur in keys or lcstr values",
    "documented overrides of the tools are excluded from the carry-over "
    "comparison: join sets experiment:run index, split rewrites "
    "experiment:sample and run identifier, a hierarchy child replaces "
    "filtering ranges/polygon filters/hierarchy parent and event count; "
    "inputs of join/split carry experiment date, time, run index, sample",
]

HEADER = ("From Coq Require Import ZArith List Bool.\nImport ListNotations.\n"
          "From Verif Require Import Model.C11 Gen.MetaTable.\n")

CONVS = ["str", "float", "fint", "fbool", "fboolorfloat", "fintlist",
         "f1dfloatduple", "f2dfloatarray", "lcstr", "fnumber"]

ERR = {"ValueError": 1, "TypeError": 2, "OverflowError": 3,
       "AttributeError": 4, "KeyError": 5}

# keys the writer always rewrites (our files hold no image, mask or trace, so
# roi size and samples per event must survive; the channel count may only be
# ADDED when it is missing)
RECTIFIED = {("setup", "software version"), ("experiment", "event count")}
TDMS_RECTIFIED = RECTIFIED | {
    ("imaging", "roi size x"), ("imaging", "roi size y"),
    ("fluorescence", "samples per event"), ("fluorescence", "channel count")}
MAY_APPEAR = {("fluorescence", "channel count")}


# --------------------------------------------------------------------------
# translator
# --------------------------------------------------------------------------
def pre_build(run):
    from .translators import tables
    data = tables.generate()
    run.extra["generated_table_rows"] = len(data["rows"])
    run.extra["generated_probes"] = len(data["probes"])


# --------------------------------------------------------------------------
# value specs: JSON-serialisable descriptions of Python/numpy values
#   fl: int m (the float m/8) | "nan" | "inf" | "-inf"
# --------------------------------------------------------------------------
def fl_py(m):
    if isinstance(m, str):
        return float(m)
    return m / 8.0


XNP = {"int32": "int32", "uint8": "uint8", "uint64": "uint64",
       "int16": "int16", "float16": "float16", "str_": "str_",
       "bytes_": "bytes_"}


def model_ok(v):
    """False for value kinds the Coq model cannot express (floats that are
    not multiples of 1/8, huge integers, exotic numpy scalars): only the
    oracle is evaluated for them"""
    if v[0] in ("xfloat", "xint", "xnp", "xarr1", "xarr2"):
        return False
    if v[0] in ("list", "tuple"):
        return all(model_ok(x) for x in v[1])
    if v[0] in ("list2", "tuple2"):
        return all(model_ok(x) for row in v[1] for x in row)
    return True


def build_scalar(s):
    import numpy as np
    t = s[0]
    if t == "xfloat":
        return float(s[1])
    if t == "xint":
        return int(s[1])
    if t == "xnp":
        return getattr(np, XNP[s[1]])(
            s[2].encode() if s[1] == "bytes_" else
            (s[2] if s[1] == "str_" else
             (int(s[2]) if "int" in s[1] else float(s[2]))))
    if t == "none":
        return None
    if t == "str":
        return s[1]
    if t == "bytes":
        return s[1].encode("ascii")
    if t == "bool":
        return bool(s[1])
    if t == "int":
        return int(s[1])
    if t == "float":
        return fl_py(s[1])
    if t == "npbool":
        return np.bool_(s[1])
    if t == "npint":
        return np.int64(s[1])
    if t == "npf64":
        return np.float64(fl_py(s[1]))
    if t == "npf32":
        return np.float32(fl_py(s[1]))
    raise ValueError(s)


DT = {"b": 0, "i": 1, "f": 2}


def build(v):
    import numpy as np
    t = v[0]
    if t in ("list", "tuple"):
        r = [build_scalar(x) for x in v[1]]
        return r if t == "list" else tuple(r)
    if t in ("list2", "tuple2"):
        r = [[build_scalar(x) for x in row] for row in v[1]]
        return r if t == "list2" else tuple(r)
    if t == "xarr1":
        return np.array([float(x) for x in v[1]], dtype=np.float64)
    if t == "xarr2":
        return np.array([[float(x) for x in r] for r in v[1]],
                        dtype=np.float64)
    if t in ("arr0", "arr1", "arr2"):
        dt = {"b": bool, "i": np.int64, "f": np.float64}[v[1]]
        el = (lambda m: m // 8) if v[1] == "i" else fl_py   # ints exactly
        if t == "arr0":
            return np.array(el(v[2]), dtype=dt)
        if t == "arr1":
            return np.array([el(x) for x in v[2]], dtype=dt)
        return np.array([[el(x) for x in row] for row in v[2]], dtype=dt)
    return build_scalar(v)


def r_fl(m):
    if m == "nan":
        return "FNaN"
    if m == "inf":
        return "FPInf"
    if m == "-inf":
        return "FNInf"
    return "(FFin %s)" % common.zlit(m)


def r_str(s):
    return common.zlist([ord(c) for c in s])


def r_scalar(s):
    t = s[0]
    if t == "none":
        return "SNone"
    if t == "str":
        return "(SStr %s)" % r_str(s[1])
    if t == "bytes":
        return "(SBytes %s)" % r_str(s[1])
    if t == "bool":
        return "(SBool %s)" % common.blit(s[1])
    if t == "int":
        return "(SInt %s)" % common.zlit(s[1])
    if t == "float":
        return "(SFloat %s)" % r_fl(s[1])
    if t == "npbool":
        return "(SNpBool %s)" % common.blit(s[1])
    if t == "npint":
        return "(SNpInt %s)" % common.zlit(s[1])
    if t == "npf64":
        return "(SNpF64 %s)" % r_fl(s[1])
    if t == "npf32":
        return "(SNpF32 %s)" % r_fl(s[1])
    raise ValueError(s)


def r_value(v):
    t = v[0]
    if t in ("list", "tuple"):
        return "(VSeq %s %s)" % (common.blit(t == "tuple"),
                                 common.clist([r_scalar(x) for x in v[1]]))
    if t in ("list2", "tuple2"):
        return "(VSeq2 %s %s)" % (
            common.blit(t == "tuple2"),
            common.clist([common.clist([r_scalar(x) for x in row])
                          for row in v[1]]))
    d = {"b": "DBool", "i": "DInt", "f": "DF64"}
    if t == "arr0":
        return "(VArr0 %s %s)" % (d[v[1]], r_fl(v[2]))
    if t == "arr1":
        return "(VArr1 %s %s)" % (d[v[1]], common.clist(
            [r_fl(x) for x in v[2]]))
    if t == "arr2":
        return "(VArr2 %s %s)" % (d[v[1]], common.clist(
            [common.clist([r_fl(x) for x in row]) for row in v[2]]))
    return "(VS %s)" % r_scalar(v)


# --------------------------------------------------------------------------
# flat encoding of what the implementation returned (mirrors enc_value)
# --------------------------------------------------------------------------
def e_fl(x):
    import numpy as np
    if isinstance(x, (int, np.integer)) and not isinstance(x, (bool,
                                                               np.bool_)):
        return [0, 8 * int(x)]          # integers exactly
    x = float(x)
    if math.isnan(x):
        return [1, 0]
    if math.isinf(x):
        return [2, 0] if x > 0 else [3, 0]
    m = x * 8
    if m != int(m):
        return [0, int(round(m * 1000003))]   # not a multiple of 1/8
    return [0, int(m)]


def e_scalar(x):
    import numpy as np
    if x is None:
        return [0]
    if isinstance(x, np.bool_):
        return [6, int(bool(x))]
    if isinstance(x, np.integer):
        return [7, int(x)]
    if isinstance(x, np.float64):
        return [8] + e_fl(x)
    if isinstance(x, np.floating):
        return [9] + e_fl(x)
    if isinstance(x, str):
        return [1, len(x)] + [ord(c) for c in x]
    if isinstance(x, bytes):
        return [2, len(x)] + list(x)
    if isinstance(x, bool):
        return [3, int(x)]
    if isinstance(x, int):
        return [4, x]
    if isinstance(x, float):
        return [5] + e_fl(x)
    return None


def e_value(x):
    import numpy as np
    if isinstance(x, np.ndarray):
        k = x.dtype.kind
        if k not in "biuf" or x.ndim > 2:
            return [-1]
        d = 0 if k == "b" else (1 if k in "iu" else 2)
        if x.ndim == 0:
            return [13, d] + e_fl(x)
        if x.ndim == 1:
            out = [14, d, len(x)]
            for y in x:
                out += e_fl(y)
            return out
        out = [15, d, x.shape[0]]
        for row in x:
            out.append(len(row))
            for y in row:
                out += e_fl(y)
        return out
    if isinstance(x, (list, tuple)):
        tup = int(isinstance(x, tuple))
        if all(isinstance(y, list) for y in x) and len(x) > 0:
            out = [12, tup, len(x)]
            for row in x:
                out.append(len(row))
                for y in row:
                    e = e_scalar(y)
                    if e is None:
                        return [-1]
                    out += e
            return out
        out = [11, tup, len(x)]
        for y in x:
            e = e_scalar(y)
            if e is None:
                return [-1]
            out += e
        return out
    e = e_scalar(x)
    if e is None:
        return [-1]
    return [10] + e


def norm_flat(flat, kind):
    """What the property speaks about: whether an assignment raises, warns
    or stores, and the stored value -- not the class of the exception, which
    warnings and how many, nor the dtype of an array (documented type:
    ndarray)"""
    if not flat:
        return flat
    if flat[0] == 2:
        return [2]
    out = list(flat)
    if kind in ("obs", "items") and out[0] == 1 and len(out) >= 2:
        nw = out[1]
        out = [1, int(nw > 0)] + out[2 + nw:]
        vstart = 3 if kind == "obs" else None
    elif kind == "res" and out[0] == 1:
        vstart = 1
    else:
        vstart = None
    if vstart is not None and len(out) > vstart + 1 and \
            out[vstart] in (13, 14, 15):
        out[vstart + 1] = 0
    return out


def e_exc(e):
    return [2, ERR.get(type(e).__name__, 9)]


def warn_codes(wlist):
    from dclab.rtdc_dataset import config as cm
    out = []
    for w in wlist:
        c = w.category
        if c is cm.WrongConfigurationTypeWarning:
            continue
        if c is cm.UnknownConfigurationKeyWarning:
            out.append(1)
        elif c is cm.EmptyConfigurationKeyWarning:
            out.append(2)
        elif c is cm.BadUserConfigurationValueWarning:
            out.append(3)
        elif c is cm.BadUserConfigurationKeyWarning:
            out.append(4)
        elif c is UserWarning:
            out.append(5)
    return out


# --------------------------------------------------------------------------
# model-independent comparison helpers
# --------------------------------------------------------------------------
def py_equal(a, b):
    """Python/numpy equality with NaN == NaN; str only equals str."""
    import numpy as np
    # (byte strings compare as their text: HDF5 returns them as str; the
    # type is judged separately)
    if isinstance(a, bytes):
        a = a.decode("utf-8", "replace")
    if isinstance(b, bytes):
        b = b.decode("utf-8", "replace")
    if isinstance(a, str) or isinstance(b, str):
        return isinstance(a, str) and isinstance(b, str) and a == b
    if a is None or b is None:
        return a is None and b is None
    try:
        try:
            aa = np.asarray(a)
            bb = np.asarray(b)
        except ValueError:       # ragged nesting
            return type(a) is type(b) and a == b
        if aa.shape != bb.shape:
            return False
        if aa.dtype.kind in "OUS" or bb.dtype.kind in "OUS":
            if aa.ndim == 0:
                return bool(aa == bb)
            # mixed content: element by element
            return all(py_equal(x, y) for x, y in zip(list(a), list(b)))
        if aa.dtype.kind in "iub" and bb.dtype.kind in "iub":
            # integers exactly (float64 has 53 bits)
            return bool(np.all(aa.astype(object) == bb.astype(object)))
        return bool(np.array_equal(aa.astype(float), bb.astype(float),
                                   equal_nan=True))
    except Exception:
        return False


def same_type_equal(a, b):
    return type(a) is type(b) and py_equal(a, b)


def short(x):
    r = repr(x)
    return r if len(r) < 80 else r[:77] + "..."


# --------------------------------------------------------------------------
# the implementation, route by route
# --------------------------------------------------------------------------
def _assign(sec, key, val, how):
    """Returns ("ok", stored-or-absent, warnings) / ("exc", e, warnings)."""
    from dclab.rtdc_dataset.config import Configuration
    lk = key.lower()
    with warnings.catch_warnings(record=True) as wl:
        warnings.simplefilter("always")
        try:
            if how == "item":
                c = Configuration()
                c[sec].pop(lk, None)
                c[sec][key] = val
            elif how == "update":
                c = Configuration()
                if sec in c:
                    c[sec].pop(lk, None)
                c.update({sec: {key: val}})
            else:
                c = Configuration(cfg={sec: {key: val}})
            stored = c[sec].get(lk, ABSENT) if sec in c else ABSENT
        except Exception as e:
            return "exc", e, warn_codes(wl), type_warned(wl)
    return "ok", stored, warn_codes(wl), type_warned(wl)


def type_warned(wl):
    from dclab.rtdc_dataset import config as cm
    return any(w.category is cm.WrongConfigurationTypeWarning for w in wl)


def has_converter(sec, lk):
    from dclab import definitions as dfn
    f = dfn.get_config_value_func(sec, lk)
    return getattr(f, "__name__", "") != "<lambda>"


class _Absent:
    def __repr__(self):
        return "<absent>"


ABSENT = _Absent()


def enc_obs(obs):
    kind, x, wl = obs[:3]
    if kind == "exc":
        return e_exc(x)
    out = [1, len(wl)] + wl
    if x is ABSENT:
        return out + [0]
    return out + [1] + e_value(x)


def obs_equal(a, b):
    if a[0] != b[0]:
        return False
    if a[0] == "exc":
        return True
    if bool(a[2]) != bool(b[2]):
        return False
    if a[1] is ABSENT or b[1] is ABSENT:
        return a[1] is b[1]
    return same_type_equal(a[1], b[1])


def section_known(sec):
    from dclab import definitions as dfn
    return sec.lower() in dfn.config_keys or sec.lower() == "user"


def impl_route0(case, val):
    """assignment / update / constructor; returns (flat, failures)"""
    from dclab import definitions as dfn
    sec, key = case["sec"], case["key"]
    fails = []
    hows = ["update", "ctor"]
    if section_known(sec):
        hows.insert(0, "item")
    obs = {h: _assign(sec, key, val, h) for h in hows}
    ref = obs[hows[0]]
    for h in hows[1:]:
        o = obs[h]
        if h == "ctor" and sec.lower() == "filtering" and o[0] == "ok" \
                and ref[0] == "ok" and ref[1] is ABSENT:
            # the constructor keeps the default value of a rejected entry
            if bool(o[2]) != bool(ref[2]):
                fails.append(("routes", "constructor warns %s, %s warns %s"
                              % (o[2], hows[0], ref[2])))
            continue
        if not obs_equal(ref, o):
            fails.append(("routes", "%s gives %s, %s gives %s" % (
                hows[0], short(ref[1:]), h, short(o[1:]))))
    lk = key.lower()
    valid_key = None
    try:
        from dclab.rtdc_dataset.config import verify_section_key
        with warnings.catch_warnings():
            warnings.simplefilter("ignore")
            valid_key = verify_section_key(sec.lower(), lk)
    except Exception:
        valid_key = None
    is_empty = isinstance(val, (str, bytes)) and len(val) == 0
    if valid_key is not True or is_empty or val is None:
        # rejection: a warning, nothing stored, no exception
        if ref[0] == "exc":
            fails.append(("reject", "raises %r instead of warning" %
                          (ref[1],)))
        elif ref[1] is not ABSENT:
            fails.append(("reject", "stores %s" % short(ref[1])))
        elif not ref[2]:
            fails.append(("reject", "no warning"))
    elif ref[0] == "ok":
        stored = ref[1]
        if stored is ABSENT:
            fails.append(("store", "valid key and value, nothing stored "
                          "(warnings %s)" % ref[2]))
        else:
            cn = conv_name_of(sec.lower(), lk)
            bad = value_check(cn, val, stored) if cn else None
            if bad:
                fails.append(("value", bad))
            typ = dfn.get_config_value_type(sec.lower(), lk)
            if typ is not None and not isinstance(stored, typ):
                fails.append(("type", "stored %s of type %s, documented "
                              "%s" % (short(stored),
                                      type(stored).__name__, typ)))
            # idempotence of the assignment
            o2 = _assign(sec, key, stored, hows[0])
            if o2[0] != "ok" or o2[1] is ABSENT or \
                    not same_type_equal(o2[1], stored):
                fails.append(("idem", "stored %s; assigning that stores %s" %
                              (short(stored), short(o2[1]))))
            # case insensitivity
            for k2 in (key.upper(), key.title()):
                if k2 == key:
                    continue
                o3 = _assign(sec, k2, val, hows[0])
                if not obs_equal(ref, o3):
                    fails.append(("case", "key %r gives %s, key %r gives %s" %
                                  (key, short(ref[1:]), k2, short(o3[1:]))))
            # ... of the section name, on every route
            for s2 in (sec.upper(), sec.title()):
                if s2 == sec or not case.get("deep"):
                    continue
                for h in hows:
                    o4 = _assign(s2, key, val, h)
                    if h == "ctor" and sec.lower() == "filtering":
                        continue
                    if not obs_equal(ref, o4):
                        fails.append(("case", "section %r gives %s, section "
                                      "%r (%s) gives %s" % (
                                          sec, short(ref[1:]), s2, h,
                                          short(o4[1:]))))
                        break
            # ... of every read access, and the other ways to fill a
            # ConfigurationDict: ConfigurationDict(section, data), **kwargs
            if case.get("deep"):
                fails += dict_access_check(sec.lower(), key, val, stored)
    return enc_obs(ref), fails, ref


def dict_access_check(sec, key, val, stored):
    from dclab.rtdc_dataset.config import ConfigurationDict
    fails = []
    lk = key.lower()
    alts = [k for k in (key.upper(), key.title(), key.swapcase(), lk)]
    with warnings.catch_warnings():
        warnings.simplefilter("ignore")
        try:
            for how in ("init", "kwargs", "setdefault"):
                if how == "init":
                    d = ConfigurationDict(sec, {key: val})
                elif how == "kwargs":
                    d = ConfigurationDict(section=sec)
                    d.update(**{key: val})
                else:
                    d = ConfigurationDict(section=sec)
                    d[alts[0]] = val
                    r = d.setdefault(alts[1], "other value")
                    if not same_type_equal(r, stored):
                        fails.append(("case", "setdefault(%r) returns %s, "
                                      "stored %s" % (alts[1], short(r),
                                                     short(stored))))
                if list(d.keys()) != [lk]:
                    fails.append(("routes", "%s: keys %s" % (how,
                                                             list(d.keys()))))
                    continue
                if not same_type_equal(d[lk], stored):
                    fails.append(("routes", "%s stores %s, assignment %s" % (
                        how, short(d[lk]), short(stored))))
                for k2 in alts:
                    if k2 not in d or not same_type_equal(d[k2], stored) or \
                            not same_type_equal(d.get(k2), stored):
                        fails.append(("case", "%s: lookup with %r fails" % (
                            how, k2)))
                        break
            # in-place and binary union go through the same verification
            d = ConfigurationDict(section=sec)
            d |= {key: val}
            e = ConfigurationDict(section=sec) | {key: val}
            g = {key: val} | ConfigurationDict(section=sec)
            for nm, dd in (("|=", d), ("|", e), ("reflected |", g)):
                if list(dd.keys()) != [lk] or \
                        not same_type_equal(dd[lk], stored) or \
                        getattr(dd, "section", None) != sec:
                    fails.append(("routes", "%s gives %s, assignment %s" % (
                        nm, short(dict(dd.data) if hasattr(dd, "data")
                                  else dd), short(stored))))
            # disable_checks=True: documented opt-out of verification and
            # conversion -- keys are still lower-cased, None is refused
            from dclab.rtdc_dataset.config import Configuration
            cn = Configuration(disable_checks=True)
            cn[sec][key] = val
            cn.update({sec: {"Some Other Key": None}})
            raw = val.decode("utf-8") if isinstance(val, bytes) else val
            if lk not in cn[sec] or "some other key" in cn[sec] or \
                    any(k2 != k2.lower() for k2 in cn[sec].keys()) or \
                    not same_type_equal(cn[sec][lk], raw):
                fails.append(("routes", "disable_checks: %s" %
                              short(dict(cn[sec]))))
            d = ConfigurationDict(section=sec)
            d[key] = val
            r = d.pop(alts[0])
            if not same_type_equal(r, stored) or len(d):
                fails.append(("case", "pop(%r) gives %s, left %s" % (
                    alts[0], short(r), list(d.keys()))))
            d[key] = val
            del d[alts[1]]
            if len(d) or alts[2] in d:
                fails.append(("case", "del [%r] leaves %s" % (
                    alts[1], list(d.keys()))))
        except Exception as e:
            fails.append(("case", "dictionary access raises %r" % (e,)))
    return fails


def impl_route3(case, val):
    sec, key = case["sec"], case["key"]
    how = "item" if section_known(sec) else "update"
    o = _assign(sec, key, val, how)
    if o[0] == "ok" and not o[2] and o[1] is not ABSENT:
        o2 = _assign(sec, key, o[1], how)
        return enc_obs(o2)
    if o[0] == "ok" and not o[2]:
        return [97]
    return enc_obs(o)


SAVE_LOAD_CONVS = ("str", "lcstr", "float", "fint", "fbool", "fintlist",
                   "fboolorfloat")


def saveload_equal(a, b):
    """same type; equal, floats within the precision of the .cfg text
    ("%.12f": absolute error at most 5e-13)"""
    if isinstance(a, str) and isinstance(b, str):
        return str(a) == str(b)        # (np.str_ is a str)
    if type(a) is not type(b):
        return False
    if isinstance(a, float):
        return py_equal(a, b) or abs(a - b) <= 5e-13
    return py_equal(a, b)


def impl_route4(case, val, scratch, idx):
    """assignment, Configuration.save, Configuration(files=[...])"""
    from dclab import definitions as dfn
    from dclab.rtdc_dataset.config import Configuration, load_from_file
    sec, key = case["sec"], case["key"]
    lk = key.lower()
    how = "item" if section_known(sec) else "update"
    fails = []
    with warnings.catch_warnings(record=True) as wl:
        warnings.simplefilter("always")
        try:
            c = Configuration()
            if sec in c:
                c[sec].pop(lk, None)
            if how == "item":
                c[sec][key] = val
            else:
                c.update({sec: {key: val}})
            stored = c[sec].get(lk, ABSENT) if sec in c else ABSENT
        except Exception as e:
            return e_exc(e), fails
        if warn_codes(wl) or stored is ABSENT:
            return [97], fails
    path = os.path.join(scratch, "r4_%d.cfg" % idx)
    lk2 = lk.strip()
    with warnings.catch_warnings(record=True) as wl:
        warnings.simplefilter("always")
        try:
            c.save(path)
            c2 = Configuration()
            if sec in c2:
                c2[sec].pop(lk2, None)
            c2.update(load_from_file(path))
            got = c2[sec].get(lk2, ABSENT) if sec in c2 else ABSENT
            obs = ("ok", got, warn_codes(wl))
            if sec != "filtering":
                c3 = Configuration(files=[path])
                g3 = c3[sec].get(lk2, ABSENT) if sec in c3 else ABSENT
                if (g3 is ABSENT) != (got is ABSENT) or (
                        g3 is not ABSENT and not same_type_equal(g3, got)):
                    fails.append(("routes", "Configuration(files=) gives %s,"
                                  " update(load_from_file()) gives %s" % (
                                      short(g3), short(got))))
        except Exception as e:
            obs = ("exc", e, warn_codes(wl))
    if os.path.exists(path):
        os.remove(path)
    # oracle: values whose text the syntax can carry come back unchanged
    f = dfn.get_config_value_func(sec, lk)
    fname = getattr(f, "__name__", "")
    claimed = False
    if isinstance(stored, str):
        claimed = cfg_safe_text(stored) and (
            fname in ("str", "lcstr") or sec == "user")
    elif fname in SAVE_LOAD_CONVS and lk == lk2:
        claimed = not (fname == "fboolorfloat" and
                       not isinstance(stored, bool))
    elif fname == "fnumber" and lk == lk2:
        claimed = type(stored) is float   # ("1" is read back as 1.0)
    def big(x):
        if isinstance(x, (list, tuple)):
            return any(big(y) for y in x)
        return isinstance(x, int) and abs(x) > 2 ** 53
    if big(stored):
        # (the text of an integer is read through float: 53 bits; the .cfg
        # file is outside the property's storage sentence)
        claimed = False
    if claimed:
        if obs[0] == "exc":
            fails.append(("saveload", "stored %s; loading the saved file "
                          "raises %r" % (short(stored), obs[1])))
        elif obs[1] is ABSENT:
            fails.append(("saveload", "stored %s; absent after save and load"
                          " (warnings %s)" % (short(stored), obs[2])))
        elif not saveload_equal(stored, obs[1]):
            fails.append(("saveload", "stored %s; after save and load %s" % (
                short(stored), short(obs[1]))))
    return enc_obs(obs), fails


def e_nf(x):
    """encoding of the normal form of a JSON value (mirrors enc_nf)"""
    def num(y):
        return isinstance(y, (bool, int, float))
    if x is None:
        return [0]
    if isinstance(x, str):
        return [1, len(x)] + [ord(c) for c in x]
    if num(x):
        return [3] + e_fl(x)
    if isinstance(x, list):
        if all(num(y) for y in x):
            out = [4, len(x)]
            for y in x:
                out += e_fl(y)
            return out
        if all(isinstance(y, list) and all(num(z) for z in y) for y in x):
            out = [5, len(x)]
            for y in x:
                out.append(len(y))
                for z in y:
                    out += e_fl(z)
            return out
    return [99]


def _assign_cfg(sec, key, val):
    """(Configuration, stored) after one assignment; raises what it raises;
    stored is None when the entry was rejected"""
    from dclab.rtdc_dataset.config import Configuration
    lk = key.lower()
    with warnings.catch_warnings(record=True) as wl:
        warnings.simplefilter("always")
        c = Configuration()
        if sec in c:
            c[sec].pop(lk, None)
        if section_known(sec):
            c[sec][key] = val
        else:
            c.update({sec: {key: val}})
        stored = c[sec].get(lk, ABSENT) if sec in c else ABSENT
        if warn_codes(wl):
            stored = ABSENT
    return c, stored


def impl_route5(case, val):
    """Configuration.as_dict / tojson"""
    sec, key = case["sec"], case["key"]
    lk = key.lower()
    fails = []
    try:
        c, stored = _assign_cfg(sec, key, val)
    except Exception as e:
        return e_exc(e), fails
    if stored is ABSENT:
        return [97], fails
    try:
        with warnings.catch_warnings():
            warnings.simplefilter("ignore")
            j1 = c.as_dict()[sec.lower()][lk]
            j2 = json.loads(c.tojson())[sec.lower()][lk]
            j3 = c.as_dict(pop_filtering=True)
    except Exception as e:
        def has_bytes(x):
            return isinstance(x, bytes) or (
                isinstance(x, (list, tuple)) and any(has_bytes(y) for y in x))
        if has_converter(sec, lk) or not has_bytes(stored):
            # (a sequence with byte strings under a key without converter is
            # kept as it is; JSON cannot carry it)
            fails.append(("json", "stored %s; as_dict/tojson raises %r" % (
                short(stored), e)))
        return [99], fails
    if "filtering" in j3:
        fails.append(("json", "as_dict(pop_filtering=True) keeps filtering"))
    if e_nf(j1) != e_nf(j2):
        fails.append(("json", "as_dict %s, tojson %s" % (short(j1),
                                                         short(j2))))
    def to_lists(x):
        if isinstance(x, (list, tuple)):
            return [to_lists(y) for y in x]
        return x
    if not py_equal(j1, to_lists(stored)):
        fails.append(("json", "stored %s; as_dict gives %s" % (
            short(stored), short(j1))))
    return e_nf(j1), fails


def impl_route6(case, val):
    """Configuration.copy and Configuration.update(Configuration)"""
    from dclab.rtdc_dataset.config import Configuration
    sec, key = case["sec"], case["key"]
    lk = key.lower()
    fails = []
    o = _assign(sec, key, val, "item" if section_known(sec) else "update")
    if not (o[0] == "ok" and not o[2] and o[1] is not ABSENT):
        flat = [97] if (o[0] == "ok" and not o[2]) else enc_obs(o)
        return ("multi", [flat, flat]), fails
    c, stored = _assign_cfg(sec, key, val)
    flats = []
    for how in ("copy", "update"):
        with warnings.catch_warnings(record=True) as wl:
            warnings.simplefilter("always")
            try:
                if how == "copy":
                    c2 = c.copy()
                else:
                    c2 = Configuration()
                    if sec in c2:
                        c2[sec].pop(lk, None)
                    c2.update(c)
                got = c2[sec].get(lk, ABSENT) if sec in c2 else ABSENT
                obs = ("ok", got, warn_codes(wl))
            except Exception as e:
                obs = ("exc", e, warn_codes(wl))
        flats.append(enc_obs(obs))
        if obs[0] == "exc" or obs[1] is ABSENT or \
                not same_type_equal(obs[1], stored):
            fails.append(("copy", "stored %s; after %s %s" % (
                short(stored), how, short(obs[1]))))
        elif how == "copy" and sorted(c2.keys()) != sorted(c.keys()):
            fails.append(("copy", "sections %s -> %s" % (
                sorted(c.keys()), sorted(c2.keys()))))
    return ("multi", flats), fails


def enc_items(its, wc):
    its = sorted(its, key=lambda kv: kv[0])
    flat = [1, len(wc)] + wc + [len(its)]
    for k, v in its:
        flat += [len(k)] + [ord(ch) for ch in k] + e_value(v)
    return flat


def impl_multi(case):
    """Configuration level: several assignments to one section (any case of
    the section name) with update / the constructor (how 0), or one item
    assignment cfg[sec][key] = v (how 1); observed through the entries of
    the section"""
    from dclab.rtdc_dataset.config import Configuration
    sec = case["sec"]
    how = case.get("how", 0)
    items = [(k, build(v)) for k, v in case["items"]]
    fails = []
    with warnings.catch_warnings(record=True) as wl:
        warnings.simplefilter("always")
        try:
            c = Configuration()
            c["filtering"].clear()
            if how == 0:
                c.update({sec: dict(items)})
            elif how == 1:
                c[sec][items[0][0]] = items[0][1]
            elif how == 2:
                c.update({sec: dict(items[:-1])})
                c[sec][items[-1][0]] = items[-1][1]
            else:
                c.update({sec: dict(items[:1])})
                c[sec] = dict(items[1:])
            its = c[sec].items() if sec in c else []
            wc = warn_codes(wl)
        except Exception as e:
            return e_exc(e), fails
    flat = enc_items(its, wc)
    keys = [k for k, _ in its]
    if any(k != k.lower() for k in keys) or len(set(keys)) != len(keys):
        fails.append(("case", "keys of the section: %s" % keys))
    if sorted(keys) != sorted(c[sec].keys()) or any(
            not same_type_equal(v, c[sec][k]) for k, v in its):
        fails.append(("routes", "items() differs from keys()/getitem"))
    if [s2 for s2 in c.keys() if s2 != s2.lower()]:
        fails.append(("case", "sections %s" % list(c.keys())))
    if how == 3 and any(not isinstance(c[s2], type(c["filtering"]))
                        for s2 in c.keys()):
        fails.append(("routes", "cfg[sec] = {...} stores a %s" %
                      type(c[sec]).__name__))
    if how == 0 and sec.lower() != "filtering":
        with warnings.catch_warnings():
            warnings.simplefilter("ignore")
            try:
                c2 = Configuration(cfg={sec: dict(items)})
                its2 = c2[sec].items() if sec in c2 else []
                if sorted(k for k, _ in its2) != sorted(keys) or any(
                        not same_type_equal(dict(its)[k], v)
                        for k, v in its2):
                    fails.append(("routes", "constructor gives %s, update "
                                  "%s" % (short(its2), short(its))))
            except Exception as e:
                fails.append(("routes", "constructor raises %r, update does "
                              "not" % (e,)))
    return flat, fails


def impl_file(case, scratch, idx):
    """a whole hand-written configuration file (several sections, repeated
    keys, comments, invalid lines), loaded with Configuration(files=[...])
    semantics; observed through the entries of one section"""
    from dclab.rtdc_dataset.config import Configuration, load_from_file
    sec = case["sec"]
    path = os.path.join(scratch, "file_%d.cfg" % idx)
    with open(path, "w", encoding="utf-8") as fd:
        fd.write("\n".join(case["lines"]) + "\n")
    fails = []
    with warnings.catch_warnings(record=True) as wl:
        warnings.simplefilter("always")
        try:
            c = Configuration()
            c["filtering"].clear()
            c.update(load_from_file(path))
            its = c[sec].items() if sec in c else []
            flat = enc_items(its, warn_codes(wl))
        except Exception as e:
            flat = e_exc(e)
            its = None
    if its is not None and sec.lower() != "filtering":
        with warnings.catch_warnings():
            warnings.simplefilter("ignore")
            try:
                c2 = Configuration(files=[path])
                its2 = c2[sec].items() if sec in c2 else []
                if sorted(k for k, _ in its2) != sorted(k for k, _ in its) \
                        or any(not same_type_equal(dict(its)[k], v)
                               for k, v in its2):
                    fails.append(("routes", "Configuration(files=) gives %s,"
                                  " update(load_from_file) %s" % (
                                      short(its2), short(its))))
            except Exception as e:
                fails.append(("routes", "Configuration(files=) raises %r" %
                              (e,)))
    os.remove(path)
    return flat, fails


def impl_foreign(case, val, scratch, idx):
    """an attribute written with h5py directly (as acquisition software
    does, not canonicalised by RTDCWriter), read with parse_config; must
    agree with assigning the same value"""
    import h5py
    from dclab.rtdc_dataset.fmt_hdf5 import RTDC_HDF5
    sec, key = case["sec"], case["key"]
    lk = key.lower()
    path = os.path.join(scratch, "fo_%d.rtdc" % idx)
    fails = []
    try:
        with h5py.File(path, "w") as h5:
            h5.attrs["%s:%s" % (sec, key)] = val
            back = h5.attrs["%s:%s" % (sec, key)]
    except Exception:
        if os.path.exists(path):
            os.remove(path)
        return [99], fails        # h5py cannot hold the value
    if isinstance(back, bytes):
        back = back.decode("utf-8")
    with warnings.catch_warnings(record=True) as wl:
        warnings.simplefilter("always")
        try:
            c = RTDC_HDF5.parse_config(path)
            got = c[sec].get(lk, ABSENT) if sec in c else ABSENT
            obs = ("ok", got, warn_codes(wl))
        except Exception as e:
            obs = ("exc", e, warn_codes(wl))
    os.remove(path)
    ref = _assign(sec, key, back, "item" if section_known(sec) else "update")
    if not obs_equal(ref, obs):
        fails.append(("routes", "attribute %s: parse_config gives %s, "
                      "assignment gives %s" % (short(back), short(obs[1:]),
                                               short(ref[1:3]))))
    elif obs[0] == "ok" and obs[1] is not ABSENT and has_converter(sec, lk):
        from dclab import definitions as dfn
        typ = dfn.get_config_value_type(sec, lk)
        if typ is not None and not isinstance(obs[1], typ):
            fails.append(("type", "attribute %s read as %s of type %s" % (
                short(back), short(obs[1]), type(obs[1]).__name__)))
    return enc_obs(obs), fails


def impl_route1(case, scratch, idx):
    """configuration file with the single entry `key = text`"""
    from dclab.rtdc_dataset.config import Configuration
    sec, key, text = case["sec"], case["key"], case["val"][1]
    path = os.path.join(scratch, "r1_%d.cfg" % idx)
    with open(path, "w", encoding="utf-8") as fd:
        fd.write("[%s]\n%s = %s\n" % (sec, key, text))
    lk = key.strip().lower()
    with warnings.catch_warnings(record=True) as wl:
        warnings.simplefilter("always")
        try:
            c = Configuration()
            if sec in c:
                c[sec].pop(lk, None)
            from dclab.rtdc_dataset.config import load_from_file
            c.update(load_from_file(path))
            stored = c[sec].get(lk, ABSENT) if sec in c else ABSENT
            obs = ("ok", stored, warn_codes(wl))
        except Exception as e:
            obs = ("exc", e, warn_codes(wl))
    os.remove(path)
    fails = []
    # the text assigned directly must give the same result (when the file
    # syntax does not alter it)
    val = text.strip().strip("' ").strip('" ').strip()
    if val == text and "#" not in text and key == lk and \
            section_known(sec) and val:
        from dclab import definitions as dfn
        try:
            known = dfn.config_key_exists(sec, lk)
        except Exception as e:
            known = False
            fails.append(("reject", "config_key_exists raises %r" % (e,)))
        if known:
            o = _assign(sec, key, val, "item")
            if not obs_equal(o, obs):
                fails.append(("routes", "file gives %s, assignment of the "
                              "text gives %s" % (short(obs[1:]),
                                                 short(o[1:]))))
    return enc_obs(obs), fails


def dfn_meta_sections():
    """sections that are written to .rtdc files (the writer refuses the
    analysis sections with a ValueError)"""
    from dclab import definitions as dfn
    return set(dfn.CFG_METADATA) - {"fmt_tdms"}


def representable(x):
    """values of keys without a converter that an HDF5 attribute can hold
    without coercion: text, numbers, homogeneous numeric sequences/arrays
    (a list mixing text and numbers is turned into a string array by numpy;
    that is the caller's business)"""
    import numpy as np

    def plain(y):
        if isinstance(y, np.ndarray):
            return y.tolist() if y.dtype.kind in "biuf" else None
        if isinstance(y, np.generic):
            return y.item()
        if isinstance(y, (list, tuple)):
            return [plain(z) for z in y]
        return y
    return e_nf(plain(x)) != [99]


def impl_route2(case, val, scratch, idx):
    """RTDCWriter.store_metadata, then RTDC_HDF5.parse_config"""
    from dclab import RTDCWriter
    from dclab.rtdc_dataset.fmt_hdf5 import RTDC_HDF5
    sec, key = case["sec"], case["key"]
    lk = key.lower()
    path = os.path.join(scratch, "r2_%d.rtdc" % idx)
    fails = []
    wrote = False
    with warnings.catch_warnings(record=True) as wl:
        warnings.simplefilter("always")
        try:
            with RTDCWriter(path, mode="reset") as hw:
                hw.store_metadata({sec: {key: val},
                                   "setup": {"software version": "verif 1"}}
                                  if sec != "setup" else
                                  {sec: {key: val,
                                         "software version": "verif 1"}})
            wrote = True
            c = RTDC_HDF5.parse_config(path)
            stored = c[sec].get(lk, ABSENT) if sec in c else ABSENT
            obs = ("ok", stored, warn_codes(wl))
        except Exception as e:
            obs = ("exc", e, warn_codes(wl))
    # oracle: compare with the value normalised by a Configuration
    ref = _assign(sec, key, val, "item" if section_known(sec) else "update")
    conv_key = has_converter(sec, lk)
    if isinstance(ref[1], int) and not isinstance(ref[1], bool) and \
            not -2 ** 63 <= ref[1] < 2 ** 63:
        ref = ("ok", ABSENT, [], False)     # HDF5 has 64 bit integers
    if ref[0] == "ok" and ref[1] is not ABSENT and not ref[2] and \
            (sec == "user" or (key == lk and sec in dfn_meta_sections())) \
            and (conv_key or (wrote and representable(ref[1]))):
        # (store_metadata takes the keys as they are: a key that is not
        # lower-case is refused with a ValueError; values of keys without a
        # converter that HDF5 cannot represent are the caller's business)
        from dclab import definitions as dfn
        if obs[0] == "exc":
            fails.append(("roundtrip", "Configuration stores %s; %s the file "
                          "raises %r" % (short(ref[1]),
                                         "reading" if wrote else "writing",
                                         obs[1])))
        elif obs[1] is ABSENT:
            fails.append(("roundtrip", "Configuration stores %s; absent "
                          "after write/read" % short(ref[1])))
        else:
            if not py_equal(ref[1], obs[1]):
                fails.append(("roundtrip", "Configuration stores %s; read "
                              "back %s" % (short(ref[1]), short(obs[1]))))
            cn = conv_name_of(sec, lk)
            bad = value_check(cn, val, obs[1], True) if cn else None
            if bad:
                fails.append(("value", "after write/read: " + bad))
            typ = dfn.get_config_value_type(sec, lk)
            if typ is not None and conv_key and not isinstance(obs[1], typ):
                fails.append(("type", "read back %s of type %s, documented "
                              "%s" % (short(obs[1]), type(obs[1]).__name__,
                                      typ)))
    if os.path.exists(path):
        os.remove(path)
    return enc_obs(obs), fails


# --------------------------------------------------------------------------
# code-independent expected values (plain Python, nothing of dclab): what the
# documented converter of a key must make of a NUMERIC input, bit for bit
# --------------------------------------------------------------------------
class NoExpectation(Exception):
    pass


def _plain_number(x):
    """Python bool/int/float with the exact value of a Python/numpy number"""
    import numpy as np
    if isinstance(x, (bool, np.bool_)):
        return bool(x)
    if isinstance(x, (int, np.integer)):
        return int(x)
    if isinstance(x, (float, np.floating)):
        return float(x)            # widening float16/32 -> 64 is exact
    if isinstance(x, np.ndarray) and x.ndim == 0 and x.dtype.kind in "biuf":
        return _plain_number(x[()])
    raise NoExpectation


def _as_float(x):
    if isinstance(x, (str, bytes)):
        t = x.decode() if isinstance(x, bytes) else x
        try:
            return float(t)        # Python's own text -> binary64
        except ValueError:
            raise NoExpectation
    return float(_plain_number(x))


def _elements(x):
    import numpy as np
    if isinstance(x, np.ndarray):
        if x.dtype.kind not in "biuf":
            raise NoExpectation
        return x.tolist()
    if isinstance(x, (list, tuple)):
        return list(x)
    raise NoExpectation


def expected_value(fname, x):
    """expected stored value, or raises NoExpectation when this
    re-statement does not cover the input"""
    import numpy as np
    if isinstance(x, bytes):
        x = x.decode("utf-8")
    if fname in ("str", "lcstr"):
        if not isinstance(x, str):
            raise NoExpectation
        if fname == "lcstr" and not x.isascii():
            raise NoExpectation
        return str(x).lower() if fname == "lcstr" else str(x)
    if fname == "float":
        return _as_float(x)
    if fname in ("fint", "fbool"):
        if isinstance(x, str):
            t = x.lower()
            if t in ("true", "false"):
                v = 1.0 if t == "true" else 0.0
            else:
                v = _as_float(t)
        else:
            p = _plain_number(x)
            if fname == "fint" and isinstance(p, int):
                return int(p)
            v = float(p)
        if fname == "fbool":
            return bool(v)
        if v != v or v in (float("inf"), float("-inf")):
            raise NoExpectation
        return int(v)
    if fname == "fnumber":
        if isinstance(x, str):
            return _as_float(x)
        if isinstance(x, (np.bool_, np.ndarray)):
            return float(_plain_number(x))     # not a numbers.Number
        _plain_number(x)
        return x                    # any number is kept as it is
    if fname == "fboolorfloat":
        if isinstance(x, str):
            return expected_value("fbool", x)
        p = _plain_number(x)
        if isinstance(p, bool) or p == 0:
            return bool(p)
        return float(p)
    if fname == "f1dfloatduple":
        el = _elements(x)
        if len(el) != 2:
            raise NoExpectation
        return tuple(_as_float(e) for e in el)
    if fname == "f2dfloatarray":
        if isinstance(x, (list, tuple, np.ndarray)) and \
                not (isinstance(x, np.ndarray) and x.ndim == 0):
            el = _elements(x)
            if el and all(isinstance(r, (list, tuple)) for r in el):
                if len({len(r) for r in el}) != 1:
                    raise NoExpectation
                return np.array([[_as_float(e) for e in r] for r in el],
                                dtype=np.float64).reshape(len(el), -1)
            if any(isinstance(r, (list, tuple)) for r in el):
                raise NoExpectation
            return np.array([_as_float(e) for e in el], dtype=np.float64)
        return np.array(_as_float(x), dtype=np.float64)
    if fname == "fintlist":
        if not isinstance(x, (list, tuple)):
            raise NoExpectation
        out = []
        for e in x:
            if isinstance(e, (str, bytes)) and len(e) == 0:
                continue
            out.append(expected_value("fint", e))
        return out
    raise NoExpectation


def bits_equal(a, b):
    """same type family and the same value, floats bit for bit (NaN = NaN)"""
    import numpy as np
    import struct
    if isinstance(b, np.ndarray) or isinstance(a, np.ndarray):
        if not (isinstance(a, np.ndarray) and isinstance(b, np.ndarray)):
            return False
        if a.shape != b.shape or a.dtype != b.dtype:
            return False
        if a.dtype.kind == "f":
            an, bn = np.isnan(a), np.isnan(b)
            return bool(np.all(an == bn) and
                        np.all(a[~an].view(np.uint64) ==
                               b[~bn].view(np.uint64))) \
                if a.dtype == np.float64 else bool(np.all(a[~an] == b[~bn]))
        return bool(np.all(a == b))
    if isinstance(b, (list, tuple)):
        return isinstance(a, (list, tuple)) and len(a) == len(b) and \
            isinstance(a, tuple) == isinstance(b, tuple) and \
            all(bits_equal(x, y) for x, y in zip(a, b))
    if isinstance(b, bool) or isinstance(a, (bool, np.bool_)):
        return isinstance(a, (bool, np.bool_)) and isinstance(b, bool) \
            and bool(a) == b
    if isinstance(b, float) and not isinstance(b, np.floating):
        if not isinstance(a, float):
            return False
        return struct.pack("<d", float(a)) == struct.pack("<d", b) or \
            (a != a and b != b)
    if isinstance(b, int) and not isinstance(b, np.integer):
        return isinstance(a, (int, np.integer)) and \
            not isinstance(a, (bool, np.bool_)) and int(a) == b
    if isinstance(b, str):
        return isinstance(a, str) and str(a) == str(b)
    # numbers kept as they are (fnumber): same type and value
    return type(a) is type(b) and (a == b or (a != a and b != b))


def value_check(fname, val, got, stored_in_file=False):
    """None, or a description of how `got` differs from what plain Python
    says the converter `fname` must store for the input `val`"""
    try:
        want = expected_value(fname, val)
    except NoExpectation:
        return None
    except Exception:
        return None
    if stored_in_file and fname == "fnumber":
        # a number kept as it is comes back from HDF5 as numpy scalar (a
        # bool as float): the value must be equal, the type is Number
        import numbers
        ok = isinstance(got, numbers.Number) and py_equal(want, got)
    else:
        ok = bits_equal(got, want)
    if not ok:
        return "%s of %s must be %s (%s), got %s (%s)" % (
            fname, short(val), short(want), type(want).__name__,
            short(got), type(got).__name__)
    return None


def conv_name_of(sec, lk):
    from dclab import definitions as dfn
    f = dfn.get_config_value_func(sec, lk)
    n = getattr(f, "__name__", "")
    return None if n == "<lambda>" else n


def impl_conv(ci, val):
    """direct call of a converter; returns (flat once, flat twice, fails)"""
    from dclab.definitions import meta_parse
    name = CONVS[ci]
    f = {"str": str, "float": float}.get(name) or getattr(meta_parse, name)
    fails = []
    try:
        with warnings.catch_warnings():
            warnings.simplefilter("ignore")
            w = f(val)
    except Exception as e:
        return e_exc(e), e_exc(e), fails
    once = [1] + e_value(w)
    try:
        with warnings.catch_warnings():
            warnings.simplefilter("ignore")
            w2 = f(w)
        twice = [1] + e_value(w2)
        if not same_type_equal(w, w2):
            fails.append(("idem", "%s(%s) = %s but %s of that = %s" % (
                name, short(val), short(w), name, short(w2))))
    except Exception as e:
        twice = e_exc(e)
        fails.append(("idem", "%s(%s) = %s but %s of that raises %r" % (
            name, short(val), short(w), name, e)))
    bad = None if isinstance(val, bytes) else value_check(name, val, w)
    if bad:
        fails.append(("value", bad))
    typ = meta_parse.func_types.get(f)
    if typ is None and f in (str, float):
        typ = f
    if typ is not None and not isinstance(w, typ) and \
            not isinstance(val, bytes):
        # (byte strings are decoded by ConfigurationDict and RTDCWriter
        # before the converter is called)
        fails.append(("type", "%s(%s) = %s of type %s, documented %s" % (
            name, short(val), short(w), type(w).__name__, typ)))
    return once, twice, fails


# --------------------------------------------------------------------------
# generators
# --------------------------------------------------------------------------
def fixed_values():
    S = lambda s: ["str", s]           # noqa: E731
    B = lambda s: ["bytes", s]         # noqa: E731
    vals = []
    for s in ["1", "0", "7", "1.5", "-2.75", "0.0", "0.125", " 3 ", "1e3",
              "2.5E1", "+4", ".5", "5.", "-0", "12345678", "true", "True",
              "TRUE", "false", "False", "fALSE", "nan", "NaN", "inf", "-inf",
              "Infinity", "abc", "Channel", "CellCarrier B", "0.49% MC-PBS",
              "µm x", "", " ", "[1, 2]", "[0, 1]", "[0]", "[]", "1,2",
              "0,0", "1,,2", "[1.5, 0]", "[1, abc]", "(1.0, 2.0)", "y", "n",
              "deform", "1 2", "e5", "1e", "--1", "1.2.3", "a:b",
              # characters that are structural in the .cfg syntax
              "thresh:t=-6:cle=1^f=1^clo=2", "dilution c=0.5 mg/mL", "a = b",
              "=", "x=", "=y", "a==b", "k = v = w", "[sec]", "[a = b]",
              "a # b", "#", "c=1 # d=2", "'quoted'", '"dq"', "it's", "'",
              '"a" = "b"', " lead", "trail ", " = ", "a,b = c", "k: v=1",
              "x=[1, 2]", "1=1", "true=false"]:
        vals.append(S(s))
    for s in ["1", "0", "true", "abc", "Channel", "", "1.5", "[1, 2]"]:
        vals.append(B(s))
    vals += [["none"], ["bool", True], ["bool", False]]
    for n in [0, 1, -3, 42, 2 ** 40, -1]:
        vals.append(["int", n])
    for m in [0, 8, 20, -22, 1, 8000000, "nan", "inf", "-inf"]:
        vals.append(["float", m])
    vals += [["npbool", True], ["npbool", False], ["npint", 0], ["npint", 4],
             ["npint", -7], ["npf64", 20], ["npf64", 0], ["npf64", "nan"],
             ["npf32", 12], ["npf32", 0]]
    I = lambda n: ["int", n]           # noqa: E731
    F = lambda m: ["float", m]         # noqa: E731
    for t in ("list", "tuple"):
        vals += [[t, []], [t, [I(0)]], [t, [I(1), I(2)]],
                 [t, [I(0), I(1), I(2)]], [t, [F(12), I(2)]],
                 [t, [F(0), F(0)]], [t, [I(1), I(2), I(3)]]]
    vals += [["list", [["bool", True], ["bool", False]]],
             ["list", [S("1"), S("2")]], ["list", [S("0")]],
             ["list", [S(""), I(1)]], ["list", [I(1), S("abc")]],
             ["list", [["none"], I(1)]], ["list", [S("1.5"), F(4)]],
             ["list", [["npint", 1], ["npf64", 20]]],
             ["list", [["npint", 0], ["npint", 3]]],
             ["tuple", [F("nan"), F("inf")]],
             ["list", [B("1"), I(2)]],
             ["list", [S("true"), S("False")]],
             ["list2", [[I(1), I(2)], [I(3), I(4)]]],
             ["list2", [[F(12), I(2)], [I(3), I(4)], [I(5), I(6)]]],
             ["list2", [[I(1), I(2)], [I(3)]]],
             ["list2", [[]]],
             ["list2", [[I(1)], []]],
             ["tuple2", [[I(1), I(2)], [F(4), F(36)]]],
             ["list2", [[I(0), I(0)]]]]
    # outside the model (oracle only): floats that are not multiples of 1/8,
    # extreme magnitudes, integers beyond 2**53, other numpy scalar types
    for r in ["0.1", "0.34", "0.3333333333333333", "1e-13", "1e+20",
              "2.5e-07", "123456.789", "-0.04", "1e-300"]:
        vals.append(["xfloat", r])
        vals.append(S(r))
    # values that need more than 24 bits (float32 would change them)
    vals += [["int", 16777217], ["npint", 16777217], ["float", 8 * 16777217],
             ["xfloat", "123456789.123"], ["xfloat", "1.0000001e-07"],
             S("16777217"), S("123456789.123"),
             ["xarr1", ["0.1", "0.34"]],
             ["xarr1", ["0.3333333333333333", "16777217.0"]],
             ["xarr2", [["0.1", "2"], ["3", "1e-13"]]],
             ["list", [["xfloat", "0.1"], ["int", 16777217]]],
             ["tuple", [["int", 16777217], ["xfloat", "1.0000001e-07"]]],
             ["list2", [[["int", 16777217], ["xfloat", "0.34"]],
                        [["xfloat", "123456789.123"], I(0)]]],
             ["arr1", "i", [8 * 16777217, 8]],
             ["arr2", "i", [[8 * 16777217, 8], [16, 24]]]]
    vals += [["int", 2 ** 53 + 1], ["int", -(2 ** 62) - 3],
             ["int", 2 ** 63 - 1], ["int", -(2 ** 63)],
             ["npint", 2 ** 53 + 1], ["npint", 2 ** 63 - 1],
             ["npint", -(2 ** 60) - 1], ["xint", 2 ** 70 + 1],
             ["xnp", "uint64", str(2 ** 63 + 5)],
             ["xnp", "uint64", str(2 ** 53 + 1)],
             ["xnp", "int32", str(2 ** 31 - 1)],
             ["list", [["npint", 2 ** 53 + 1], ["int", 2 ** 60 + 1]]],
             ["arr1", "i", [8 * (2 ** 53 + 1), 8]],
             ["xnp", "int32", "5"], ["xnp", "uint8", "3"],
             ["xnp", "uint64", "7"], ["xnp", "int16", "-2"],
             ["xnp", "float16", "1.5"], ["xnp", "str_", "Abc"],
             ["xnp", "str_", "0.5"], ["xnp", "bytes_", "Abc"],
             ["list", [["xfloat", "0.1"], ["xfloat", "0.34"]]],
             ["tuple", [["xfloat", "0.3333333333333333"], I(2)]],
             ["list", [["xint", 2 ** 53 + 1], I(0)]],
             ["list2", [[["xfloat", "0.1"], I(1)], [F(4), ["xfloat", "1e-13"]]]]]
    vals += [["arr0", "i", 24], ["arr0", "f", 20], ["arr0", "i", 0],
             ["arr0", "f", 0], ["arr0", "b", 8], ["arr0", "f", "nan"],
             ["arr1", "i", [8, 16]], ["arr1", "f", [12, 20]],
             ["arr1", "f", [0, 0]], ["arr1", "b", [8, 0]],
             ["arr1", "i", [8, 16, 24]], ["arr1", "i", [0, 8]],
             ["arr1", "f", [12, "nan"]],
             ["arr2", "f", [[8, 16], [24, 36]]],
             ["arr2", "i", [[8, 16], [24, 32]]],
             ["arr2", "f", [[8, 16, 24], [32, 40, 48]]],
             ["arr2", "f", [[8, 16]]]]
    return vals


def random_value(rng):
    def rint():
        return rng.choice([0, 1, rng.randint(-50, 50),
                           rng.randint(-10 ** 9, 10 ** 9)])

    def rfl():
        return rng.choice([0, rng.randint(-400, 400),
                           8 * rng.randint(-100, 100),
                           rng.randint(-10 ** 7, 10 ** 7)])

    def fl_text(m):
        s = repr(m / 8.0)
        c = rng.random()
        if c < 0.2 and m % 8 == 0:
            s = str(m // 8)
        elif c < 0.3:
            s = " " + s + " "
        elif c < 0.4:
            s = s.upper()
        return s

    def rscalar():
        c = rng.random()
        if c < 0.2:
            return ["int", rint()]
        if c < 0.4:
            return ["float", rfl()]
        if c < 0.5:
            return ["bool", rng.random() < 0.5]
        if c < 0.6:
            return ["str", fl_text(rfl())]
        if c < 0.7:
            return ["npint", rint()]
        if c < 0.8:
            return ["npf64", rfl()]
        if c < 0.85:
            return ["npbool", rng.random() < 0.5]
        if c < 0.9:
            return ["str", rng.choice(["", "abc", "true", "0"])]
        if c < 0.95:
            return ["npf32", rfl()]
        return ["none"]
    c = rng.random()
    if c < 0.3:
        return rscalar()
    if c < 0.4:
        m = rfl()
        return ["str", fl_text(m)]
    if c < 0.5:
        n = rng.randint(0, 4)
        items = [fl_text(8 * rng.randint(-3, 9)) if rng.random() < 0.8
                 else rng.choice(["", " ", "x"]) for _ in range(n)]
        s = rng.choice([", ", ",", " ,"]).join(items)
        if rng.random() < 0.6:
            s = "[" + s + "]"
        return ["str", s]
    if c < 0.55:
        return ["str", "".join(rng.choice("abcXYZ 019_-.%") for _ in
                               range(rng.randint(1, 8)))]
    if c < 0.75:
        n = rng.choice([0, 1, 2, 2, 2, 3, 5])
        return [rng.choice(["list", "tuple"]), [rscalar() for _ in range(n)]]
    if c < 0.82:
        nr = rng.randint(1, 3)
        nc = rng.randint(1, 3)
        rows = [[rng.choice([["int", rint()], ["float", rfl()]])
                 for _ in range(nc if rng.random() < 0.9 else nc + 1)]
                for _ in range(nr)]
        return [rng.choice(["list2", "list2", "tuple2"]), rows]
    d = rng.choice("bif")

    def el():
        if d == "b":
            return rng.choice([0, 8])
        if d == "i":
            return 8 * rng.randint(-20, 20)
        return rng.choice([rfl(), rfl(), "nan", "inf"])
    if c < 0.87:
        return ["arr0", d, el()]
    if c < 0.95:
        return ["arr1", d, [el() for _ in range(rng.choice([0, 1, 2, 2, 3]))]]
    nc = rng.randint(1, 3)
    return ["arr2", d, [[el() for _ in range(nc)]
                        for _ in range(rng.randint(1, 3))]]


def all_keys(rng):
    """[(sec, key, class)]"""
    from dclab import definitions as dfn
    keys = []
    for sec in sorted(dfn.config_funcs):
        for key in sorted(dfn.config_funcs[sec]):
            keys.append((sec, key, "table"))
    feats = sorted(dfn.scalar_feature_names)
    pick = ["deform", "area_um"] + rng.sample(feats, 4) + ["ml_score_a1z"]
    for i, f in enumerate(pick):
        keys += [("online_filter", f + " min", "pattern"),
                 ("online_filter", f + " max", "pattern"),
                 ("online_filter", f + " soft limit", "pattern"),
                 ("filtering", f + " min", "pattern"),
                 ("filtering", f + " max", "pattern")]
        g = pick[(i + 1) % len(pick)]
        keys += [("online_filter", "%s,%s soft limit" % (f, g), "pattern"),
                 ("online_filter", "%s,%s polygon points" % (f, g),
                  "pattern")]
    keys += [("online_filter", "Deform Min", "pattern"),
             ("online_filter", "deform", "pattern"),
             ("online_filter", "deform foo", "pattern"),
             ("Setup" if False else "setup", "Channel Width", "table"),
             ("imaging", "PIXEL SIZE", "table"),
             ("qpi", "Scale To Filter", "table")]
    keys += [("Setup", "Channel Width", "table"),
             ("IMAGING", "pixel size", "table"),
             ("Online_Filter", "Deform Min", "pattern"),
             ("FILTERING", "Polygon Filters", "table"),
             ("User", "My Key", "user"), ("Peter", "x", "bad"),
             ("online_filter", "deform xmin", "pattern"),
             ("online_filter", "area_um climax", "pattern")]
    for k in ["a", "My Key", "a:b", "x y z", "deform min", "channel width",
              "k%d" % rng.randint(0, 99), "A1:B2:c3", "with.dot-and_more"]:
        keys.append(("user", k, "user"))
    # keys that must be rejected
    keys += [("user", " ", "bad"), ("user", "", "bad"),
             ("setup", "peter", "bad"), ("setup", "deform min", "bad"),
             ("imaging", "channel width", "bad"),
             ("online_filter", "peter min", "bad"),
             ("online_filter", "peter soft limit", "bad"),
             ("online_filter", "area_um,deform,bright_avg soft limit", "bad"),
             ("online_filter", "area_um,peter polygon points", "bad"),
             ("online_filter", "area_um,deform min", "bad"),
             ("online_filter", "image min", "bad"),
             ("online_filter", "ml_score_abcd max", "bad"),
             ("filtering", "peter min", "bad"),
             ("filtering", "limit events auto", "bad"),
             ("filtering", "peter", "bad"),
             ("plotting", "contour color", "bad"),
             ("peter", "channel width", "bad"),
             ("analysis", "x", "bad"),
             ("calculation", "emodulus peter", "bad")]
    return keys


def key_ok_for_model(sec, key):
    return all(32 <= ord(c) < 127 for c in sec + key)


def key_ok_for_file(text):
    """keys that the .cfg syntax can express"""
    return all(c not in text for c in "#\n\t\r=") and text == text.strip()


def val_ok_for_file(text):
    """text that can stand right of "=" on one line (every character that is
    structural in the syntax is allowed: = : [ ] # quotes blanks commas)"""
    return all(c not in text for c in "\n\t\r\x0b\x0c")


def cfg_safe_text(s):
    """strings that the .cfg syntax can represent literally: no comment
    character, no newline, no leading/trailing blanks or quotes"""
    return (len(s) > 0 and all(c not in s for c in "#\n\r")
            and s == s.strip().strip("' ").strip('" ').strip())


def render_case(route, sec, key, vspec):
    return "(%d, %s, %s, %s)" % (route, r_str(sec), r_str(key),
                                 r_value(vspec))


MODEL_FN = "run_case table feats meta_sections"


def load_corpus():
    d = os.path.join(common.VERIF, "corpus", PROP)
    cases = []
    if os.path.isdir(d):
        for fn in sorted(os.listdir(d)):
            if fn.endswith(".json"):
                cases.append(json.load(open(os.path.join(d, fn)))["case"])
    return cases


# --------------------------------------------------------------------------
# finding classification (the defects this check rediscovered; all have a
# proposed repair in fixes_proposed/, so none is listed as a finding)
# --------------------------------------------------------------------------
def classify(case, kind, desc):
    return None


def run_one(case, scratch, idx):
    """Execute one case on the implementation: (flat, [(kind, desc)])."""
    route = case["route"]
    if route == "conv":
        val = build(case["val"])
        once, twice, fails = impl_conv(case["conv"], val)
        return [once, twice], fails
    if route == "multi":
        return impl_multi(case)
    if route == "file":
        return impl_file(case, scratch, idx)
    if route == "foreign":
        return impl_foreign(case, build(case["val"]), scratch, idx)
    if route in ("carry", "carry2"):      # replay of one entry: a single write/read hop
        return impl_route2(case, build(case["val"]), scratch, idx)
    val = build(case["val"])
    if route == 0:
        flat, fails, _ = impl_route0(case, val)
        return flat, fails
    if route == 1:
        return impl_route1(case, scratch, idx)
    if route == 2:
        return impl_route2(case, val, scratch, idx)
    if route == 3:
        return impl_route3(case, val), []
    if route == 4:
        return impl_route4(case, val, scratch, idx)
    if route == 5:
        return impl_route5(case, val)
    if route == 6:
        return impl_route6(case, val)
    raise ValueError(route)


def make_cases(run):
    rng = run.rng
    keys = all_keys(rng)
    fixed = fixed_values()
    nrand = 250 if run.thorough else 60
    rand_vals = [random_value(rng) for _ in range(nrand)]
    cases = list(load_corpus())
    run.count("corpus", len(cases))
    # converter level: every converter x every value
    for ci in range(len(CONVS)):
        for v in fixed + rand_vals:
            cases.append(dict(route="conv", conv=ci, val=v))
    # route 0: full product keys x fixed values (+ random values)
    # (quick tier: the full list of values for the first key of every
    # (section, converter) class, a sample of 45 of them for the other keys)
    from dclab import definitions as dfn
    seen_cls = set()
    for sec, key, cls in keys:
        kc = (sec, cls, getattr(dfn.get_config_value_func(sec, key.lower()),
                                "__name__", "?"))
        full = run.thorough or kc not in seen_cls
        seen_cls.add(kc)
        for v in (fixed if full else rng.sample(fixed, 15)):
            cases.append(dict(route=0, sec=sec, key=key, val=v, cls=cls,
                              deep=int(full or rng.random() < 0.1)))
        for v in (rand_vals if run.thorough else rng.sample(rand_vals, 4)):
            cases.append(dict(route=0, sec=sec, key=key, val=v, cls=cls,
                              deep=int(rng.random() < 0.1)))
    # route 1 (file): all keys x all str values (thorough) / a sample
    strs = [v for v in fixed + rand_vals if v[0] == "str"
            and val_ok_for_file(v[1])]
    r1 = [(s, k, c, v) for (s, k, c) in keys for v in strs
          if key_ok_for_file(k) and k and not k.startswith("[")]
    # route 2 (rtdc file): metadata sections and user
    r2 = [(s, k, c, v) for (s, k, c) in keys for v in fixed + rand_vals
          if (s in dfn.CFG_METADATA or s == "user") and s != "fmt_tdms"
          and (s, k.lower()) not in RECTIFIED and k.strip()]
    r3 = [(s, k, c, v) for (s, k, c) in keys for v in fixed + rand_vals
          if c != "bad"]
    # route 4 (save + load): string values for every key, all values for a
    # third of the keys
    r4 = [(s, k, c, v) for (s, k, c) in keys for v in fixed + rand_vals
          if c != "bad" and key_ok_for_file(k) and k
          and (v[0] != "str" or val_ok_for_file(v[1]))]
    if not run.thorough:
        r1 = rng.sample(r1, min(len(r1), 800))
        r2 = rng.sample(r2, min(len(r2), 1000))
        r3 = rng.sample(r3, min(len(r3), 800))
        r4s = [x for x in r4 if x[3][0] == "str"]
        r4 = rng.sample(r4s, min(len(r4s), 600)) + \
            rng.sample(r4, min(len(r4), 300))
    else:
        r1 = rng.sample(r1, min(len(r1), 12000))
        r2 = rng.sample(r2, min(len(r2), 12000))
        r3 = rng.sample(r3, min(len(r3), 12000))
        r4 = rng.sample(r4, min(len(r4), 10000))
    r5 = rng.sample(r3, min(len(r3), 6000 if run.thorough else 500))
    r6 = rng.sample(r3, min(len(r3), 6000 if run.thorough else 500))
    good = [(s, k, c) for (s, k, c) in keys if key_ok_for_model(s, k)]
    by_sec = {}
    for s, k, c in good:
        by_sec.setdefault(s, []).append(k)
    for _ in range(4000 if run.thorough else 450):
        sec = rng.choice(sorted(by_sec))
        ks = rng.sample(by_sec[sec], min(len(by_sec[sec]),
                                         rng.randint(2, 7)))
        ks = [rng.choice([k, k, k.upper(), k.title()]) for k in ks]
        if rng.random() < 0.2:
            ks.append(rng.choice(ks).swapcase())
        its, seen = [], set()
        for k in ks:
            if k not in seen:
                seen.add(k)
                its.append([k, rng.choice(fixed + rand_vals)])
        sec = rng.choice([sec, sec, sec.upper(), sec.title()])
        r = rng.random()
        if r < 0.2:
            cases.append(dict(route="multi", sec=sec, how=1, items=its[:1]))
        elif r < 0.4 and len(its) >= 2:
            # duplicates of a key differing by case are possible: the dict
            # passed to update holds them in order
            cases.append(dict(route="multi", sec=sec, how=2, items=its))
        elif r < 0.6 and len(its) >= 2 and len(
                {k.lower() for k, _ in its}) == len(its):
            cases.append(dict(route="multi", sec=sec, how=3, items=its))
        else:
            cases.append(dict(route="multi", sec=sec, how=0, items=its))
    # whole hand-written files
    ftexts = [v[1] for v in strs if v[1].strip()]
    fkeys = {s: [k for k in ks if key_ok_for_file(k) and k
                 and not k.startswith("[")] for s, ks in by_sec.items()}
    fkeys = {s: ks for s, ks in fkeys.items() if ks}
    for _ in range(3000 if run.thorough else 300):
        secs = rng.sample(sorted(fkeys), rng.randint(1, 3))
        lines = []
        if rng.random() < 0.04:
            lines.append("stray = 1")
        for rep in range(rng.randint(1, 2)):
            for s in secs:
                if rep and rng.random() < 0.5:
                    continue
                lines.append("[%s]" % rng.choice([s, s, s.upper(),
                                                  s.title()]))
                for _k in range(rng.randint(0, 4)):
                    r = rng.random()
                    if r < 0.1:
                        lines.append(rng.choice(["# a comment = 1", "",
                                                 "   ", "no equal sign",
                                                 "#[setup]"]))
                    else:
                        k = rng.choice(fkeys[s])
                        k = rng.choice([k, k, k.upper(), k.title()])
                        lines.append("%s%s=%s%s" % (
                            k, rng.choice([" ", "", "  "]),
                            rng.choice([" ", "", "  "]),
                            rng.choice(ftexts)))
        cases.append(dict(route="file", sec=rng.choice(
            [secs[0], secs[0].upper()]), lines=lines))
    # attributes written with h5py directly
    fvals = [v for v in fixed + rand_vals
             if v[0] in ("npint", "npf64", "npf32", "npbool", "str", "arr1",
                         "arr2", "xnp")]
    rf = [(s, k, c, v) for (s, k, c) in keys for v in fvals
          if (s in dfn.CFG_METADATA or s == "user") and k.strip()
          and ":" not in k[:1]]
    rf = rng.sample(rf, min(len(rf), 6000 if run.thorough else 300))
    for s, k, c, v in rf:
        cases.append(dict(route="foreign", sec=s, key=k, val=v, cls=c))
    for route, lst in ((1, r1), (2, r2), (3, r3), (4, r4), (5, r5), (6, r6)):
        for s, k, c, v in lst:
            cases.append(dict(route=route, sec=s, key=k, val=v, cls=c))
    return cases


def run(run):
    import dclab  # noqa: F401
    cases = make_cases(run)
    impl = [None] * len(cases)
    scr = os.path.join(run.scratch, "files")
    os.makedirs(scr, exist_ok=True)
    def run_impl(order):
        for idx, c in order:
            try:
                flat, fails = run_one(c, scr, idx)
            except Exception as e:   # harness problem, not a verdict
                flat, fails = [-2], [("harness", "crashed: %r" % (e,))]
            impl[idx] = flat
            nontrivial = c["route"] in ("conv", "multi", "file") or (
                c.get("cls") != "bad" and c["val"] not in (["str", ""],
                                                           ["none"],
                                                           ["bytes", ""]))
            run.record_case(c, nontrivial)
            run.count("route:%s" % c["route"])
            if "val" in c:
                run.count("value:%s" % c["val"][0])
            if "cls" in c:
                run.count("key:%s" % c["cls"])
            seen = set()
            for kind, desc in fails:
                if kind in seen:
                    continue
                seen.add(kind)
                run.count("oracle-fail:%s" % kind)
                run.oracle_failure(c, "%s: %s" % (kind, desc),
                                   classify(c, kind, desc))
    # HDF5 files are written and re-opened before any coqc subprocess is
    # spawned (a forked child briefly shares the file locks)
    run_impl([(i, c) for i, c in enumerate(cases) if c["route"] == 2])
    carry_chains(run, cases, impl)
    tdms_carry(run)
    # the model: keys and values are shared definitions, a case is a triple
    # of indices (keeps the generated Coq files small)
    conv_cases = [(i, c) for i, c in enumerate(cases) if c["route"] == "conv"]
    conv_cases = [(i, c) for (i, c) in conv_cases if model_ok(c["val"])]
    cfg_cases = [(i, c) for i, c in enumerate(cases)
                 if c["route"] not in ("conv", "multi", "file")
                 and key_ok_for_model(c["sec"], c["key"])
                 and model_ok(c["val"])]
    multi_cases = [(i, c) for i, c in enumerate(cases)
                   if c["route"] == "multi"
                   and all(model_ok(v) for _, v in c["items"])]
    file_cases = [(i, c) for i, c in enumerate(cases)
                  if c["route"] == "file" and all(
                      key_ok_for_model("", ln) for ln in c["lines"])]
    model_route = {"carry": 2, "carry2": 7, 6: 3, "foreign": 0}
    vidx, vlist, kidx, klist = {}, [], {}, []

    def vi(v):
        k = json.dumps(v)
        if k not in vidx:
            vidx[k] = len(vlist)
            vlist.append(r_value(v))
        return vidx[k]

    def ki(sec, key):
        k = (sec, key)
        if k not in kidx:
            kidx[k] = len(klist)
            klist.append("(%s, %s)" % (r_str(sec), r_str(key)))
        return kidx[k]
    r1 = ["(%d, %d)" % (c["conv"], vi(c["val"])) for _, c in conv_cases]
    r2 = ["(%d, %d, %d)" % (
        model_route.get(c["route"], c["route"]), ki(c["sec"], c["key"]),
        vi(c["val"])) for _, c in cfg_cases]
    r4 = ["(%s, %s)" % (r_str(c["sec"]), common.clist(
        [r_str(ln) for ln in c["lines"]])) for _, c in file_cases]
    r3 = ["(%d, %s, %s)" % (c.get("how", 0), r_str(c["sec"]), common.clist(
        ["(%s, %s)" % (r_str(k), r_value(v)) for k, v in c["items"]]))
        for _, c in multi_cases]
    header = (HEADER + "Open Scope Z_scope.\n"
              "Definition K_ : list (list Z * list Z) := [\n%s].\n"
              "Definition V_ : list value := [\n%s].\n"
              "Definition cfg_ (c : Z * Z * Z) : list Z :=\n"
              "  let '(r, k, v) := c in\n"
              "  let kv := nth (Z.to_nat k) K_ ([], []) in\n"
              "  run_case table feats meta_sections\n"
              "           (r, fst kv, snd kv, nth (Z.to_nat v) V_ (VS SNone)).\n"
              "Definition conv_ (c : Z * Z) : list (list Z) :=\n"
              "  let (n, v) := c in\n"
              "  let x := nth (Z.to_nat v) V_ (VS SNone) in\n"
              "  [conv_case (n, x); conv_twice_case (n, x)].\n"
              % (";\n".join(klist), ";\n".join(vlist)))
    # the model is evaluated in the background while the implementation runs
    import concurrent.futures
    pool = concurrent.futures.ThreadPoolExecutor(max_workers=4)
    f1 = pool.submit(common.coq_map, run.scratch, "c11conv", header, "conv_",
                     r1, 600)
    f2 = pool.submit(common.coq_map, run.scratch, "c11cfg", header, "cfg_",
                     r2, 1200)
    f3 = pool.submit(common.coq_map, run.scratch, "c11multi", HEADER,
                     "cfg_case table feats sections", r3, 150)
    f4 = pool.submit(common.coq_map, run.scratch, "c11file", HEADER,
                     "file_case table feats", r4, 150)
    run_impl([(i, c) for i, c in enumerate(cases)
              if c["route"] not in (2, "carry", "carry2")])
    try:
        m1 = f1.result()
        m2 = f2.result()
        m3 = f3.result()
        m4 = f4.result()
    finally:
        pool.shutdown(wait=True)
    unmod = 0
    for (i, c), m in list(zip(conv_cases, m1)) + list(zip(cfg_cases, m2)) \
            + list(zip(multi_cases, m3)) + list(zip(file_cases, m4)):
        got = impl[i]
        if c["route"] == "conv":
            pairs = list(zip(m, got))
        elif isinstance(got, tuple) and got[0] == "multi":
            pairs = [(m, g) for g in got[1]]
        else:
            pairs = [(m, got)]
        kind = ("res" if c["route"] == "conv" else
                "items" if c["route"] in ("multi", "file") else
                "nf" if c["route"] == 5 else "obs")
        for mm, gg in pairs:
            if mm == [99]:
                unmod += 1
                continue
            run.corr_checked += 1
            if norm_flat(mm, kind) != norm_flat(gg, kind):
                run.mismatch(c, mm, gg)
    run.extra["unmodelled_cases_skipped"] = unmod


# --------------------------------------------------------------------------
# whole-file round trips: new_dataset, export.hdf5, dclab-compress
# --------------------------------------------------------------------------
def random_meta_spec(rng):
    """{section: {key: value spec}}: one valid representation per key, for
    all sections that are written to .rtdc files, pattern keys and the user
    section"""
    from dclab import definitions as dfn
    S = lambda x: ["str", x]           # noqa: E731
    I = lambda x: ["int", x]           # noqa: E731
    F = lambda x: ["float", x]         # noqa: E731
    meta = {}
    for sec in sorted(dfn.CFG_METADATA):
        if sec == "fmt_tdms":
            continue
        for key in sorted(dfn.config_funcs[sec]):
            if (sec, key) in RECTIFIED or rng.random() < 0.3:
                continue
            f = dfn.config_funcs[sec][key].__name__
            n = rng.choice([0, 1, 3, rng.randint(-40, 4000)])
            m = rng.choice([0, 8, 12, -20, rng.randint(-4000, 4000)])
            X = lambda r: ["xfloat", r]     # noqa: E731
            xf = rng.choice(["0.1", "0.34", "0.3333333333333333",
                             "123456789.123", "1.0000001e-07", "16777217.0",
                             "1e-13", "-2.7182818284590455"])
            if f == "str":
                v = rng.choice([S("Abc"), S("x y"), S("1"), S("True"),
                                S("\u00b5m \u00e4\u00f6\u00fc \u4e2d "
                                  * 12),
                                S("long " * 60 + "end"),
                                S("µm"), S("a:b"), ["bytes", "Bytes"],
                                S("0.5"), S("k=v, [x]"), I(n), F(m)])
            elif f == "lcstr":
                v = rng.choice([S("Channel"), S("ABC-1"), ["bytes", "Res"],
                                S("x=Y")])
            elif f == "float":
                v = rng.choice([F(m), S(repr(m / 8)), I(n), ["bool", True],
                                ["npf32", m], ["npf64", m], ["npint", n],
                                ["arr0", "f", m], F("nan"), X(xf), X(xf),
                                S(xf), I(16777217),
                                ["xnp", "float16", "0.0999755859375"]])
            elif f == "fint":
                v = rng.choice([I(n), F(m), S(str(n)), S("true"),
                                ["bool", False], ["npint", n], ["npf64", m],
                                ["arr0", "i", 8 * n], I(2 ** 53 + 1),
                                ["npint", 2 ** 60 + 1], I(2 ** 63 - 1),
                                S(str(2 ** 53 + 1))])
            elif f == "fbool":
                v = rng.choice([["bool", True], ["bool", False], S("true"),
                                S("False"), I(0), I(1), S("0"), F(0),
                                ["npbool", True], ["npbool", False]])
            elif f == "fboolorfloat":
                v = rng.choice([["bool", True], ["bool", False], S("true"),
                                F(m), I(n), I(0), ["npbool", True],
                                ["npf64", m], ["npint", n], ["npf32", m],
                                X(xf), I(16777217)])
            elif f == "f1dfloatduple":
                v = rng.choice([["tuple", [F(m), F(12)]],
                                ["list", [X(xf), I(16777217)]],
                                ["xarr1", [xf, "0.1"]],
                                ["list", [S(xf), X("0.34")]],
                                ["list", [I(1), I(n)]],
                                ["list", [S("1"), S("2.5")]],
                                ["arr1", "f", [m, 20]],
                                ["arr1", "i", [8, 8 * n]]])
            else:
                continue
            meta.setdefault(sec, {})[key] = v
    # stated counts that differ from what the stored features suggest
    # (fl1_max, fl2_max, fl3_max are stored; no trace, no image)
    fl = meta.setdefault("fluorescence", {})
    if rng.random() < 0.75:
        fl["channel count"] = rng.choice([I(1), I(2), S("2"), I(3), F(16),
                                          ["npint", 1]])
    fl["samples per event"] = rng.choice([I(100), S("177"), ["npint", 566]])
    fl["channels installed"] = rng.choice([I(3), I(2), F(8)])
    fl["laser count"] = rng.choice([I(1), I(3), S("2")])
    im = meta.setdefault("imaging", {})
    im["roi size x"] = rng.choice([I(250), S("64"), F(800)])
    im["roi size y"] = rng.choice([I(80), ["npint", 96]])
    ex = meta.setdefault("experiment", {})
    # (dclab-join sorts its inputs by date, time and run index, dclab-split
    # reads the sample name: these four are always present)
    ex.setdefault("run index", rng.choice([I(1), S("2"), F(24)]))
    ex["date"] = S("2024-03-05")
    ex["time"] = S("12:10:11")
    ex["sample"] = rng.choice([S("verif sample"), S("c=0.5 mg/mL")])
    feats = ["deform", "area_um"] + rng.sample(
        sorted(dfn.scalar_feature_names), 2)
    of = meta.setdefault("online_filter", {})
    for ft in feats:
        if rng.random() < 0.7:
            of[ft + " min"] = rng.choice([I(0), F(1), I(1), ["npf64", 4],
                                          ["npint", 2], ["xfloat", "0.1"],
                                          S("0.34"), I(16777217)])
            of[ft + " max"] = rng.choice([I(1), F(4), F(800), ["npf32", 12]])
        if rng.random() < 0.6:
            of[ft + " soft limit"] = rng.choice(
                [["bool", True], S("False"), I(0), ["npbool", True]])
    of["area_um,deform soft limit"] = rng.choice(
        [["bool", False], S("true"), I(1)])
    of["area_um,deform polygon points"] = rng.choice(
        [["list2", [[I(1), I(2)], [I(3), F(36)], [I(5), I(6)]]],
         ["tuple2", [[I(0), I(0)], [I(1), I(0)], [I(1), I(1)]]],
         ["arr2", "f", [[8, 16], [24, 36], [40, 48]]],
         ["arr2", "i", [[8, 16], [24, 32]]],
         ["xarr2", [["0.1", "0.34"], ["16777217.0", "1e-13"],
                    ["0.3333333333333333", "2"]]],
         ["list2", [[["xfloat", "0.1"], I(16777217)], [I(3), F(36)]]]])
    meta["user"] = {
        "pi": ["xfloat", "3.141592653589793"],
        "unicode": S("\u00b5 \u00e4\u00f6\u00fc \u4e2d\u6587 " * 8),
        "xvec": rng.choice([["xarr1", ["0.1", "0.2", "0.30000000000000004"]],
                            ["list", [["xfloat", "0.1"], I(16777217)]]]),
        "My Key": rng.choice([I(1), F(20), S("text"), ["bool", True]]),
        "a:b": rng.choice([["list", [I(1), I(2), I(3)]],
                           ["tuple", [F(12), F(20)]], I(7)]),
        "flag": ["bool", rng.random() < 0.5],
        "arr": rng.choice([["list2", [[I(1), I(2)], [I(3), I(4)]]],
                           ["arr2", "f", [[8, 12], [0, "nan"]]]]),
        "s p a c e": S("x = y # z"), "zero": I(0),
        "f32": ["npf32", 12], "np": rng.choice([["npint", 5], ["npf64", 4],
                                                 ["npbool", False]]),
        "vec": rng.choice([["arr1", "i", [0, 8, 16]],
                           ["arr1", "b", [8, 0]],
                           ["list", [["bool", True], ["bool", False]]]])}
    return meta


HOP_EXCLUDED = {
    "join": {("experiment", "run index")},
    "split": {("experiment", "sample"), ("experiment", "run identifier")},
    "export_filtered": {("experiment", "run identifier")},
    "append": {("setup", "medium"), ("user", "zero")},
}
FIRST_HOPS = ("parse_config", "new_dataset", "hierarchy", "append")


def carry_chains(run, cases, impl):
    """Random metadata sets pushed through RTDCWriter -> parse_config ->
    new_dataset -> hierarchy child -> export.hdf5 -> compress -> repack ->
    join (2 inputs) -> split.  After every hop every entry is compared with
    the value normalised by Configuration (oracle) and, through the cases
    appended here, with the model's write/read result (correspondence)."""
    import contextlib
    import io
    import numpy as np
    import dclab
    from dclab import RTDCWriter, definitions as dfn
    from dclab.cli import compress, repack, join, split, condense
    from dclab.rtdc_dataset.config import Configuration
    from dclab.rtdc_dataset.fmt_hdf5 import RTDC_HDF5
    n = 30 if run.thorough else 8
    if globals().get("_REPLAY_ONE"):
        n = 1
    for ci in range(n):
        spec = random_meta_spec(run.rng)
        meta = {s: {k: build(v) for k, v in spec[s].items()} for s in spec}
        entries = [(s, k) for s in sorted(spec) for k in sorted(spec[s])]
        flats = {e: [] for e in entries}
        flats2 = {e: [] for e in entries}
        hops_done = []
        fails = []
        d = os.path.join(run.scratch, "carry%d" % ci)
        os.makedirs(d, exist_ok=True)

        def observe(hop, cfg):
            hops_done.append(hop)
            excl = RECTIFIED | HOP_EXCLUDED.get(hop, set())
            for (s, k) in entries:
                lk = k.lower()
                if (s, lk) in excl:
                    continue
                got = cfg[s].get(lk, ABSENT) if s in cfg else ABSENT
                (flats if hop in FIRST_HOPS else flats2)[(s, k)].append(
                    enc_obs(("ok", got, [])))
                want = ref[s].get(lk, ABSENT) if s in ref else ABSENT
                if want is ABSENT:
                    continue
                if got is ABSENT:
                    fails.append("%s: %s:%s lost" % (hop, s, k))
                elif not py_equal(want, got):
                    fails.append("%s: %s:%s %s -> %s" % (
                        hop, s, k, short(want), short(got)))
                elif conv_name_of(s, lk) and value_check(
                        conv_name_of(s, lk), meta[s][k], got, True):
                    fails.append("%s: %s:%s %s" % (hop, s, k, value_check(
                        conv_name_of(s, lk), meta[s][k], got, True)))
                elif not conv_name_of(s, lk) and not py_equal(meta[s][k],
                                                               got):
                    fails.append("%s: %s:%s input %s -> %s" % (
                        hop, s, k, short(meta[s][k]), short(got)))
                else:
                    typ = dfn.get_config_value_type(s, lk)
                    if typ is not None and has_converter(s, lk) and \
                            not isinstance(got, typ):
                        fails.append("%s: %s:%s has type %s" % (
                            hop, s, k, type(got).__name__))
        def write(path, m, tshift=0):
            import copy
            m2 = {s: dict(m[s]) for s in m}
            m2.setdefault("setup", {})["software version"] = "verif 1"
            m2["fmt_tdms"] = {"video frame offset": 1}
            before = copy.deepcopy(m2)
            with RTDCWriter(path, mode="reset") as hw:
                hw.store_metadata(m2)
                # the caller's dictionary is left alone
                if sorted(m2) != sorted(before) or any(
                        sorted(m2[s_]) != sorted(before[s_]) or any(
                            not same_type_equal(m2[s_][k_], before[s_][k_])
                            for k_ in m2[s_]) for s_ in m2):
                    fails.append("store_metadata changed its argument")
                if any(a.startswith("fmt_tdms") for a in hw.h5file.attrs):
                    fails.append("store_metadata wrote the fmt_tdms section")
                hw.store_feature("deform", np.linspace(.01, .02, 7) + tshift)
                hw.store_feature("area_um", np.linspace(20, 90, 7))
                for ii in (1, 2, 3):
                    hw.store_feature("fl%d_max" % ii,
                                     np.arange(7) * 10.0 + ii)

        out = io.StringIO()
        try:
            with warnings.catch_warnings(), contextlib.redirect_stdout(out):
                warnings.simplefilter("ignore")
                ref = Configuration(cfg=meta)
                known = {(s, k.lower()) for (s, k) in entries} | RECTIFIED
                pa = os.path.join(d, "a.rtdc")
                pb = os.path.join(d, "b.rtdc")
                write(pa, meta)
                mb = {s: dict(meta[s]) for s in meta}
                mb["experiment"]["time"] = "12:20:11"
                mb["experiment"]["sample"] = "the other input"
                mb["user"] = dict(mb["user"], zero=1)
                write(pb, mb, 0.5)
                observe("parse_config", RTDC_HDF5.parse_config(pa))
                # a second store_metadata call on the existing file replaces
                # exactly the entries it is given
                import shutil
                pa2 = os.path.join(d, "a2.rtdc")
                shutil.copy(pa, pa2)
                with RTDCWriter(pa2, mode="append") as hw:
                    hw.store_metadata({"setup": {"medium": b"Other"},
                                       "user": {"zero": "9", "added": [1, 2]}})
                c2 = RTDC_HDF5.parse_config(pa2)
                known.add(("user", "added"))
                observe("append", c2)
                known.discard(("user", "added"))
                if c2["setup"].get("medium") != "Other" or \
                        c2["user"].get("zero") != "9" or \
                        not py_equal(c2["user"].get("added"), [1, 2]):
                    fails.append("append: second store_metadata gives %s %s" %
                                 (dict(c2["setup"]), dict(c2["user"])))
                p1 = os.path.join(d, "export.rtdc")
                pf = os.path.join(d, "export_filtered.rtdc")
                pc = os.path.join(d, "export_child.rtdc")
                pd = os.path.join(d, "export_dict.rtdc")
                with dclab.new_dataset(pa) as ds:
                    observe("new_dataset", ds.config)
                    ds.export.hdf5(p1, features=["deform", "area_um", "fl1_max", "fl2_max", "fl3_max"],
                                   filtered=False)
                    ds.export.hdf5(pf, features=["deform", "area_um",
                                                 "fl1_max"],
                                   filtered=True)
                    hierarchy_check(ds, observe, fails)
                    child = dclab.new_dataset(ds)
                    child.export.hdf5(pc, features=["deform", "area_um",
                                                    "fl2_max", "fl3_max"],
                                      filtered=False)
                dsd = dclab.new_dataset({"deform": np.linspace(.01, .02, 7),
                                         "area_um": np.linspace(20, 90, 7),
                                         "fl2_max": np.arange(7) * 1.0})
                dsd.config.update(meta)
                dsd.config["setup"]["software version"] = "verif 1"
                dsd.export.hdf5(pd, features=["deform", "area_um", "fl2_max"],
                                filtered=False)
                for hop, pp in (("export_filtered", pf),
                                ("export_child", pc), ("export_dict", pd)):
                    with dclab.new_dataset(pp) as dsx:
                        observe(hop, dsx.config)
                with dclab.new_dataset(p1) as ds1:
                    observe("export", ds1.config)
                p2 = os.path.join(d, "compressed.rtdc")
                compress(path_in=p1, path_out=p2, force=True)
                with dclab.new_dataset(p2) as ds2:
                    observe("compress", ds2.config)
                p3 = os.path.join(d, "repacked.rtdc")
                repack(path_in=p2, path_out=p3)
                with dclab.new_dataset(p3) as ds3:
                    observe("repack", ds3.config)
                p5 = os.path.join(d, "condensed.rtdc")
                condense(path_in=p3, path_out=p5)
                with dclab.new_dataset(p5) as ds5:
                    observe("condense", ds5.config)
                p4 = os.path.join(d, "joined.rtdc")
                ins = [p3, pb] if run.rng.random() < 0.5 else [pb, p3]
                join(paths_in=ins, path_out=p4)
                with dclab.new_dataset(p4) as ds4:
                    observe("join", ds4.config)
                    if len(ds4) != 14:
                        fails.append("join: %d events" % len(ds4))
                sd = os.path.join(d, "split")
                os.makedirs(sd, exist_ok=True)
                outs = split(path_in=p3, path_out=sd, split_events=4,
                             ret_out_paths=True)
                if len(outs) != 2:
                    fails.append("split: %d files" % len(outs))
                for po in outs:
                    with dclab.new_dataset(po) as ds5:
                        observe("split", ds5.config)
        except Exception as e:
            fails.append("after %s: raised %r" % (
                hops_done[-1] if hops_done else "start", e))
        case = dict(route="dataset", meta=spec, hops=hops_done)
        run.record_case(case, True, sample=False)
        run.count("route:dataset")
        run.count("dataset-hops", len(hops_done))
        for f in fails[:1]:
            run.count("oracle-fail:carry")
            run.oracle_failure(case, "carry: " + "; ".join(fails[:4]),
                               classify(case, "carry", f))
        # correspondence cases: one per entry, all hops against the model
        for (s, k) in entries:
            if not flats[(s, k)] or not key_ok_for_model(s, k):
                continue
            cases.append(dict(route="carry", sec=s, key=k, val=spec[s][k],
                              cls="carry", hops=len(flats[(s, k)])))
            impl.append(("multi", flats[(s, k)]))
            run.record_case(cases[-1], True, sample=False)
            run.count("route:carry")
            if flats2[(s, k)]:
                # export and the tools: against two modelled hops
                cases.append(dict(route="carry2", sec=s, key=k,
                                  val=spec[s][k], cls="carry",
                                  hops=len(flats2[(s, k)])))
                impl.append(("multi", flats2[(s, k)]))
                run.record_case(cases[-1], True, sample=False)
                run.count("route:carry2")


def tdms_carry(run):
    """dclab-tdms2rtdc: the configuration read from a .tdms measurement
    (para.ini/camera.ini through load_from_file, user entries added) equals
    the configuration of the converted .rtdc file"""
    import contextlib
    import io
    import zipfile
    import dclab
    from dclab import definitions as dfn
    from dclab.cli import tdms2rtdc
    names = ["fmt-tdms_minimal_2016.zip",
             "fmt-tdms_shapein-2.0.1-no-image_2017.zip",
             "fmt-tdms_fl-image_2016.zip", "fmt-tdms_2fl-no-image_2017.zip"]
    for nm in names:
        src = os.path.join(common.REPO, "tests", "data", nm)
        if not os.path.exists(src):
            run.notes.append("tdms fixture missing: " + nm)
            continue
        d = os.path.join(run.scratch, "tdms_" + nm[:-4])
        case = dict(route="dataset", meta={"tdms": nm}, hops=["tdms2rtdc"])
        fails = []
        try:
            with warnings.catch_warnings(), \
                    contextlib.redirect_stdout(io.StringIO()):
                warnings.simplefilter("ignore")
                zipfile.ZipFile(src).extractall(d)
                tdms = [os.path.join(r_, f) for r_, _, fs in os.walk(d)
                        for f in fs if f.endswith(".tdms")
                        and not f.endswith("_traces.tdms")]
                po = os.path.join(d, "out.rtdc")
                import pathlib
                tdms2rtdc(path_tdms=pathlib.Path(tdms[0]),
                          path_rtdc=pathlib.Path(po))
                from dclab.rtdc_dataset.fmt_hdf5 import RTDC_HDF5

                class DO:      # (the untagged sandbox build cannot re-open
                    config = RTDC_HDF5.parse_config(po)   # its own files)
                do = DO()
                with dclab.new_dataset(tdms[0]) as ds:
                    for sec in list(dfn.CFG_METADATA) + ["user"]:
                        if sec == "fmt_tdms" or sec not in ds.config:
                            continue
                        for k, want in ds.config[sec].items():
                            if (sec, k) in TDMS_RECTIFIED:
                                continue
                            got = do.config[sec].get(k, ABSENT) \
                                if sec in do.config else ABSENT
                            if got is ABSENT:
                                fails.append("%s:%s lost" % (sec, k))
                            elif not py_equal(want, got):
                                fails.append("%s:%s %s -> %s" % (
                                    sec, k, short(want), short(got)))
                            else:
                                typ = dfn.get_config_value_type(sec, k)
                                if typ is not None and has_converter(sec, k) \
                                        and not isinstance(got, typ):
                                    fails.append("%s:%s type %s" % (
                                        sec, k, type(got).__name__))
                        for k in (do.config[sec] if sec in do.config else []):
                            if k not in ds.config[sec] and \
                                    (sec, k) not in TDMS_RECTIFIED and \
                                    (sec, k) != ("experiment",
                                                 "run identifier"):
                                fails.append("%s:%s appeared" % (sec, k))
        except BaseException as e:
            fails.append("raised %r" % (e,))
        run.record_case(case, True, sample=False)
        run.count("route:tdms2rtdc")
        if fails:
            run.count("oracle-fail:carry")
            run.oracle_failure(case, "carry: tdms2rtdc %s: %s" % (
                nm, "; ".join(fails[:4])), None)


def hierarchy_check(ds, observe, fails):
    """RTDC_Hierarchy._create_config/_update_config: the child's metadata is
    the parent's, except the documented overrides"""
    import numpy as np
    import dclab
    ds.config["filtering"]["deform min"] = 0.0
    ds.config["filtering"]["deform max"] = 0.0175
    ds.config["filtering"]["limit events"] = 5
    pf = dclab.PolygonFilter(axes=("area_um", "deform"),
                             points=[[0, 0], [100, 0], [100, 1], [0, 1]])
    ds.config["filtering"]["polygon filters"] = [pf.unique_id]
    try:
        _hierarchy_check(ds, observe, fails, pf)
    finally:
        ds.config["filtering"]["polygon filters"] = []
        ds.apply_filter()
        dclab.PolygonFilter.remove(pf.unique_id)


def _hierarchy_check(ds, observe, fails, pf):
    import numpy as np
    import dclab
    if list(ds.config["filtering"]["polygon filters"]) != [pf.unique_id]:
        fails.append("hierarchy: parent polygon filters %s, id %s" % (
            ds.config["filtering"]["polygon filters"], pf.unique_id))
    ds.config["calculation"]["emodulus medium"] = "CellCarrier"
    ds.config["calculation"]["crosstalk fl21"] = "0.125"
    ds.apply_filter()
    child = dclab.new_dataset(ds)
    observe("hierarchy", child.config)
    cf, pf = child.config["filtering"], ds.config["filtering"]
    for k in cf:
        if k.endswith(" min") or k.endswith(" max"):
            fails.append("hierarchy: child inherits filter range %r" % k)
    if cf["polygon filters"] != [] or \
            cf["hierarchy parent"] != ds.identifier:
        fails.append("hierarchy: polygon filters/hierarchy parent %s %s" % (
            cf["polygon filters"], cf["hierarchy parent"]))
    for k in pf:
        if k.endswith(" min") or k.endswith(" max") or \
                k in ("polygon filters", "hierarchy parent"):
            continue
        if k not in cf or not same_type_equal(cf[k], pf[k]):
            fails.append("hierarchy: filtering:%s %s -> %s" % (
                k, short(pf[k]), short(cf.get(k, ABSENT))))
    if int(child.config["experiment"]["event count"]) != \
            int(np.sum(ds.filter.all)) or len(child) != np.sum(ds.filter.all):
        fails.append("hierarchy: event count %s" %
                     child.config["experiment"]["event count"])
    ds.config["calculation"]["crosstalk fl21"] = 0.25
    ds.config["calculation"].pop("emodulus medium")
    child.rejuvenate()
    a, b = dict(ds.config["calculation"]), dict(child.config["calculation"])
    if sorted(a) != sorted(b) or any(not same_type_equal(a[k], b[k])
                                     for k in a):
        fails.append("hierarchy: calculation %s -> %s" % (a, b))
    for s in ds.config:
        if s in ("filtering", "calculation"):
            continue
        for k in ds.config[s]:
            if (s, k) == ("experiment", "event count"):
                continue
            if k not in child.config[s] or not same_type_equal(
                    ds.config[s][k], child.config[s][k]):
                fails.append("hierarchy: %s:%s %s -> %s" % (
                    s, k, short(ds.config[s][k]),
                    short(child.config[s].get(k, ABSENT))))


# --------------------------------------------------------------------------
def shrink(run, failure):
    """Minimise the value of a failing case: drop elements of sequences,
    shorten strings, keeping the kind of oracle failure."""
    case = failure["case"]
    if case.get("route") == "dataset" or "val" not in case:
        return failure
    kind = failure["desc"].split(":")[0]
    scr = os.path.join(run.scratch, "shrink")
    os.makedirs(scr, exist_ok=True)

    def fails(c):
        try:
            for k, d in run_one(c, scr, 0)[1]:
                if k == kind:
                    return d
        except Exception:
            pass
        return None
    desc = fails(case)
    if desc is None:
        return failure
    changed = True
    while changed:
        changed = False
        v = case["val"]
        cands = []
        if v[0] in ("list", "tuple", "list2", "tuple2") or \
                (v[0] in ("arr1", "arr2")):
            seq = v[-1]
            for i in range(len(seq)):
                cands.append(v[:-1] + [seq[:i] + seq[i + 1:]])
        elif v[0] in ("str", "bytes") and len(v[1]) > 1:
            for i in range(len(v[1])):
                cands.append([v[0], v[1][:i] + v[1][i + 1:]])
        for cv in cands:
            c2 = dict(case, val=cv)
            d2 = fails(c2)
            if d2 is not None:
                case, desc, changed = c2, d2, True
                break
    return dict(case=case, desc="%s: %s" % (kind, desc), finding=None)


def search(run, broken):
    """Proofs or correspondence broken and the oracle quiet: sweep the
    oracle over random values for every key and converter."""
    rng = run.rng
    keys = all_keys(rng)
    scr = os.path.join(run.scratch, "search")
    os.makedirs(scr, exist_ok=True)
    for k in range(40000 if run.thorough else 8000):
        v = random_value(rng)
        r = rng.random()
        if r < 0.25:
            c = dict(route="conv", conv=rng.randrange(len(CONVS)), val=v)
        else:
            s, key, cls = rng.choice(keys)
            route = 0 if r < 0.7 else 2
            if route == 2 and not key.strip():
                route = 0
            c = dict(route=route, sec=s, key=key, val=v, cls=cls)
        try:
            _, fails = run_one(c, scr, k)
        except Exception:
            continue
        for kind, desc in fails:
            if kind != "harness" and classify(c, kind, desc) is None:
                return dict(case=c, desc="%s: %s" % (kind, desc))
    return None


def replay_dataset(case):
    """re-run one metadata carry-over chain with the recorded metadata"""
    import random
    import tempfile

    class R:
        pass
    r = R()
    r.thorough = False
    r.rng = random.Random(0)
    r.fails = []
    r.scratch = tempfile.mkdtemp(dir=os.environ.get("VERIF_SCRATCH",
                                                    "/var/tmp"))
    r.record_case = lambda *a, **k: None
    r.count = lambda *a, **k: None
    r.oracle_failure = lambda c, d, f=None: r.fails.append(d)
    global random_meta_spec
    orig = random_meta_spec
    random_meta_spec = lambda rng: case["meta"]     # noqa: E731
    try:
        import shutil
        carry_one = carry_chains
        r.thorough = False
        # a single chain
        globals()["_REPLAY_ONE"] = True
        carry_one(r, [], [])
    finally:
        random_meta_spec = orig
        globals().pop("_REPLAY_ONE", None)
        shutil.rmtree(r.scratch, ignore_errors=True)
    print("metadata:", json.dumps(case["meta"])[:1500])
    if r.fails:
        for d in r.fails[:3]:
            print("FAILS", d)
        return 1
    print("passes on the current tree")
    return 0


def replay(payload):
    case = payload.get("case")
    if not case or "route" not in case:
        print("replay: nothing executable in this file (kind=%s): %s" % (
            payload.get("kind"), json.dumps(payload.get("broken"))[:2000]))
        return 1
    import tempfile
    if case["route"] == "dataset":
        return replay_dataset(case)
    with tempfile.TemporaryDirectory(dir=os.environ.get(
            "VERIF_SCRATCH", "/var/tmp")) as d:
        flat, fails = run_one(case, d, 0)
    print("case:", json.dumps(case))
    print("value:", repr(build(case["val"])))
    print("implementation (flat encoding):", flat)
    fails = [f for f in fails if f[0] != "harness"]
    if fails:
        for kind, desc in fails:
            print("FAILS %s: %s" % (kind, desc))
        return 1
    print("passes on the current tree")
    return 0
