"""C12 - statistics and density estimates are computed from exactly the
filtered events.

Four passes (all on the real dclab code, datasets are RTDC_Dict instances):

 stats   correspondence  dclab.statistics.get_statistics on dyadic data vs the
                         exact values of Model/C12.v (stats_flat)
 fake    correspondence  RTDCBase.get_kde_scatter + kde_methods.ignore_nan_inf
                         + _apply_scale with an exact stand-in estimator vs
                         Model/C12.v (scatter_flat)
 qreal   correspondence  get_quantile_levels on real KDE grids of the meta
                         cases vs perc_lin of the model on the bilinearly
                         interpolated densities (exact dyadic integers)
 cfake   correspondence  get_kde_contour (explicit accuracies, linear scale,
                         stand-in estimator, also kde_type "none") vs
                         kde_contour of the model (contour_flat)
 dfake   correspondence  get_downsampled_scatter(ret_mask=True) with a
                         stand-in for downsample_grid vs downsampled /
                         scatter_mask of the model (down_flat)
 history property oracle  one dataset object re-filtered 2-4 times (manual,
                         box set/removed, disabled/enabled): statistics, tsv,
                         contour, quantile levels after every apply_filter()
                         vs definitions and a fresh restricted dataset
 backend property oracle  HDF5-backed float32 dataset and hierarchy child vs
                         the plain dataset of the selected events
 dtype   property oracle  features / positions stored as integer arrays
                         (int64 ... int8) must give the results of the same
                         values stored as float64 (every KDE function and
                         RTDCBase entry point, statistics, downsampling)
 warm    property oracle  a few datasets of 1200-3000 events, 2-4 filter
                         states each (interior exclusions, partly of equal
                         count) analysed in ONE process WITHOUT clearing
                         dclab's memo cache: must equal the fresh computation
                         on the selected events and the reference estimators
 adjust  correspondence  statsmodels _adjust_shape (how kde_multivariate's
                         positions reach the estimator) vs adjust_shape
 perc    correspondence  np.percentile / np.nanpercentile and
                         kde_contours.get_quantile_levels (affine density) vs
                         perc_lin / quantile_level of the model
 meta    property oracle (model independent): every analysis entry point on
                         (A) a dataset with an active filter,
                         (B) a dataset built from the selected events only,
                         (C) A's data with adversarial values (huge, NaN, inf)
                             on the excluded events and a manual filter,
                         must agree bit for bit; statistics must equal their
                         definitions; the density estimates must equal
                         reference estimators called independently of dclab's
                         wrappers; quantile levels must leave the fraction q
                         of the events below them.
"""
import concurrent.futures
import fractions
import json
import math
import os

from . import common

PROP = "C12"
RULE = ("datasets of 0..150 events with 2-3 float features (dyadic values "
        "k/8; styles: spread, heavy ties, constant, non-positive values, "
        "NaN/inf among the selected events), filters of every kind (manual, "
        "box, polygon, remove-invalid, limit events, none, filtering "
        "disabled, nothing selected, one event selected), adversarial values "
        "(+-2^70, NaN, +-inf, 0) on the excluded events; per dataset every "
        "statistics method x feature, every KDE type x linear/log scale x "
        "implicit/explicit positions, contour grids with default and "
        "explicit accuracies, quantile levels, downsampling sizes around "
        "the selected count, tsv export, get_statistics(ds) over every "
        "registered method x every scalar feature (incl. index, emodulus), "
        "find_contours_level at the reported levels (open and closed); "
        "explicit contour accuracies on every scale, kde_kwargs (bins, bw), "
        "xax == yax, positions as one (2,N) array, methods=, tsv with "
        "filtered=False, ret_mask=False, features <= 0 with maximum 0; "
        "box filters that exclude exactly the non-positive values before a "
        "log scale; plus a few datasets of 1200-3000 "
        "events with sequences of 2-4 filter states analysed with a warm "
        "memo cache. A case is non-trivial when the "
        "filter excludes at least one and selects at least one event; "
        "distinct = different (data, filter, parameters)")
TRUSTED_BASE = [
    "PARTIAL (DESIGN.md 5/C12, 8): the estimators' numerics are NOT modelled "
    "and no theorem relates them to a reference: in the Coq model the "
    "histogram-spline / gaussian_kde / product-kernel estimators, the Doane "
    "spacing, linspace/meshgrid, grid interpolation (interpn), "
    "downsample_grid and np.log/np.exp are universally quantified Section "
    "variables (core, spacing, mesh, interp, dsgrid, logf, expf); the "
    "theorems hold for every such function",
    "estimator numerics = DIFFERENTIAL TESTING only: dclab on the filtered "
    "dataset vs numpy.histogram2d + scipy RectBivariateSpline with "
    "independently computed Doane bins and bin centres (rtol 1e-6), "
    "scipy.stats.gaussian_kde (rtol 1e-9), a direct product-kernel sum with "
    "bandwidth Doane/2 (rtol 1e-9); absolute tolerance 1e-9 (histogram) / "
    "1e-12 (others) * largest density at the events",
    "metamorphic equality filtered / restricted / adversarial dataset is "
    "tested on generated cases, bit-exact (NaN == NaN), same exception class",
    "binary64 rounding is not modelled: statistics are compared exactly for "
    "median, event count, inter-quartile range; within 1 ulp-scale "
    "tolerance (rel 1e-12) for mean and %-gated (one division), rel 1e-9 for "
    "SD (sqrt) and the mode value k*bin+bin/2; the mode comparison is "
    "skipped when some data/bin lies within 1e-9 of a rounding tie",
    "mode: the float bin size 2*iqr/n**(1/3) is recomputed by the harness "
    "from an exact (fractions) inter-quartile range and given to the model "
    "as an exact dyadic rational",
    "mask = ds.filter.all is an input of the model; how it is computed from "
    "the filter settings is property C03; downsample_grid itself is C16; "
    "the memoisation of the kde functions (dclab/cached.py) is C17 - the "
    "cache is cleared before every evaluated dataset of the meta pass; the "
    "warm-cache pass analyses sequences of filter states of datasets with "
    "> 1000 events without clearing it",
    "kde_multivariate: statsmodels' _adjust_shape is modelled and compared "
    "exactly (adjust_flat); that kde_multivariate hands it an (N,2) array "
    "(fix e62c3b0) is established only by the differential oracle",
    "statistics method inventory: harness/translators/stat_methods.py "
    "lists the Statistics(...) registrations of the tree under test by ast "
    "(name, req_feature, order) into coq/Gen/StatMethods.v; "
    "C12_statistics_method_inventory compares it with the model's table "
    "(fail closed); how a method computes its value is not part of the table",
    "find_contours_level is an oracle check only (vertices on the level "
    "within 1e-9 * max density by independent bilinear interpolation, inside "
    "the grid, closed when closed=True); skimage's marching squares is not "
    "modelled",
    "exceptions are judged: a KDE / contour / quantile call that raises "
    "although the reference estimator returns numbers is a failure, except "
    "for (a) an empty selection or no jointly finite event, (b) the "
    "multivariate KDE with <= 2 events (statsmodels needs more observations "
    "than variables), (c) a contour of < 3 events or of a constant axis (no "
    "positive finite Doane spacing), (d) get_quantile_levels on a grid with "
    "a single line or on a density containing NaN; everything else must "
    "return values (e.g. the LinAlgError fallback of kde_gauss)",
    "downsampling, tsv and statistics raises are judged too: a "
    "non-negative downsampling request, a tsv export or get_statistics on "
    "any selection must answer (only listed exception: C16's finding "
    "C16-grid-constant-axis, IndexError of the Cython downsample_grid for a "
    "constant axis); downsampling has a definitional oracle on every scale "
    "pair: downsample_grid called directly on the scaled selected events "
    "with the request capped at their number",
    "ties through stand-ins registered in the harness process: fake_kde "
    "(kde_methods.methods['veriffake'], for get_kde_scatter and "
    "get_kde_contour with dyadic grids on a linear scale) and "
    "fake_downsample_grid (patched into dclab.rtdc_dataset.core."
    "downsampling for get_downsampled_scatter), both on linear and log "
    "scales (log contour axes with 2 nodes: interior nodes of a logarithmic "
    "grid are not dyadic), and a stand-in for bin_width_doane; stand-ins "
    "are patched into every dclab module namespace that refers to the real "
    "function (a `from x import y` refactoring does not break the tie); the "
    "@Cache layer and the three real estimators are outside these ties "
    "(differential oracle)",
    "backend pass: an HDF5 file (float32, values k/7, adversarial values on "
    "the excluded events), a hierarchy child and a hierarchy child with a "
    "manual filter of its own are compared with the plain dataset of the "
    "selected events (statistics rel 1e-5: float32 accumulation; densities, "
    "quantile levels rtol 1e-6; tsv rows equal); basin features are not "
    "exercised (C07)",
    "results of the filtered / restricted / adversarial datasets are "
    "compared at rtol 1e-12 (not bit for bit); the contour grid must run "
    "from the minimum to the maximum of the selected events with a node "
    "distance in the band the requested accuracy defines (the exact node "
    "count is not demanded); the tsv format %.10e and the sorted column "
    "order are what the docstring of Export.tsv fixes",
    "quantile oracle: densities at the events are recomputed with an "
    "independent bilinear interpolation; counts use a tolerance of 1e-9 * "
    "max density; events within 1e-9 (relative) of the border of the grid "
    "count as ambiguous (log-scale grids end at exp(log(x)))",
]
ASSUMPTIONS = [
    "all features of a dataset have len(ds) entries and the mask has "
    "len(ds) entries (numpy raises otherwise)",
    "config changes take effect at ds.apply_filter(), which is called "
    "before every analysis call",
    "percentile theorems: 0 <= q <= 1, at least one finite event",
]

FEATURES = ["area_um", "deform", "bright_avg", "aspect", "pos_x", "userdef1"]
KDE_TYPES = ["histogram", "gauss", "multivariate", "none"]
SCALES = ["linear", "log"]
HUGE = 2 ** 70            # in units of 1/8; 2^67 as a float, exact

# cases per pass: meta, stats, fake, perc, quant
SIZES = {"quick": (64, 160, 160, 160, 80),
         "thorough": (800, 2000, 2000, 2000, 1000)}
N_WARM = {"quick": 6, "thorough": 24}
N_DTYPE = {"quick": 24, "thorough": 200}
N_HIST = {"quick": 12, "thorough": 120}
N_BACKEND = {"quick": 4, "thorough": 40}

HEADER = ("From Coq Require Import ZArith List.\nImport ListNotations.\n"
          "From Verif Require Import Model.C12.\n")


# --------------------------------------------------------------------------
# value encoding: (tag, k): (0,k)=k/8, (1,0)=nan, (2,0)=+inf, (3,0)=-inf
# --------------------------------------------------------------------------
def dec(pairs):
    import numpy as np
    out = np.zeros(len(pairs), dtype=np.float64)
    for i, (t, k) in enumerate(pairs):
        if t == 0:
            out[i] = k / 8
        elif t == 1:
            out[i] = np.nan
        elif t == 2:
            out[i] = np.inf
        else:
            out[i] = -np.inf
    return out


def fvl(pairs):
    return "[" + "; ".join("(%d, %s)" % (t, common.zlit(k))
                           for t, k in pairs) + "]"


def gen_values(rng, n, style, positive):
    lo = 1 if positive else -60
    if style == "const":
        v = rng.randint(lo, 300)
        vals = [v] * n
    elif style == "ties":
        pool = [rng.randint(lo, 200) for _ in range(rng.randint(2, 4))]
        vals = [rng.choice(pool) for _ in range(n)]
    elif style == "wide":
        vals = [rng.choice([1, 1, 2, 5, 9]) * 8 ** rng.randint(0, 5) +
                rng.randint(0, 7) for _ in range(n)]
        if not positive:
            vals = [v if rng.random() < .8 else -v for v in vals]
    elif style == "nonpos":
        # values <= 0 with the maximum exactly 0 (a contour grid that ends
        # at 0)
        vals = [-rng.randint(0, 400) for _ in range(n)]
        if n:
            vals[rng.randrange(n)] = 0
    elif style == "cluster":
        c = [rng.randint(max(lo, 40), 800) for _ in range(2)]
        vals = [max(lo, rng.choice(c) + int(rng.gauss(0, 30)))
                for _ in range(n)]
    else:
        vals = [rng.randint(lo, 800) for _ in range(n)]
    return [[0, int(v)] for v in vals]


def inject(rng, pairs, p):
    out = []
    for t, k in pairs:
        r = rng.random()
        if r < p * .6:
            out.append([1, 0])
        elif r < p * .8:
            out.append([2, 0])
        elif r < p:
            out.append([3, 0])
        else:
            out.append([t, k])
    return out


def gen_dataset(rng, nmax=150, nfeat=None):
    # most datasets are large enough for non-degenerate estimates; the tiny
    # ones (boundary cases of the quantifier) are a quarter
    if rng.random() < .25:
        n = rng.choice([0, 1, 2, 3, 4, 5, 7, 8, 9])
    else:
        n = rng.choice([12, 20, 27, 40, 40, 64, 64, 90, nmax])
    n = min(n, nmax)
    names = list(FEATURES)
    rng.shuffle(names)
    names = sorted(names[:nfeat or rng.choice([2, 2, 3])])
    feats = {}
    for nm in names:
        style = rng.choice(["spread", "spread", "cluster", "ties", "wide",
                            "const", "nonpos"] if rng.random() < .45 else
                           ["spread", "cluster"])
        positive = rng.random() < .75
        vals = gen_values(rng, n, style, positive)
        if rng.random() < .4:
            vals = inject(rng, vals, rng.choice([.05, .1, .1, .3]))
        feats[nm] = vals
    return n, feats


# every kind appears in a fixed rotation, so that also a quick run has at
# least four cases of each (64 cases / 16)
FILTER_KINDS = ["manual", "box", "polygon", "disabled", "invalid", "mixed",
                "limit", "single", "manual", "none", "posbox", "disabled",
                "box", "mixed", "empty", "manual"]


def gen_filter(rng, n, feats, kind=None):
    """filter description; the mask is whatever dclab computes from it"""
    names = sorted(feats)
    kind = kind or rng.choice(FILTER_KINDS)
    f = dict(kind=kind)
    if kind == "posbox" and n:
        # non-positive values (log -> nan / -inf) on events that a box filter
        # then excludes: the selected events are all positive
        nm = rng.choice(names)
        feats[nm] = gen_values(rng, n, rng.choice(["spread", "cluster"]),
                               False)
        for i in range(n):
            if rng.random() < .1:
                feats[nm][i] = [0, 0]
        top = max([k for t, k in feats[nm]] + [8])
        f["box"] = [nm, 1, max(top, 2)]
    if kind in ("manual", "mixed", "disabled"):
        p = rng.choice([.15, .5, .7, .9])
        f["manual"] = [1 if rng.random() < p else 0 for _ in range(n)]
    if kind == "empty":
        f["manual"] = [0] * n
    if kind == "single":
        f["manual"] = [0] * n
        if n:
            f["manual"][rng.randrange(n)] = 1
    if kind in ("box", "mixed"):
        nm = rng.choice(names)
        fin = sorted(k for t, k in feats[nm] if t == 0)
        if fin:
            a = rng.choice(fin)
            b = rng.choice(fin)
            a, b = min(a, b), max(a, b)
            if a == b:
                b = a + 8
        else:
            a, b = 0, 8
        f["box"] = [nm, a, b]
    if kind == "polygon" and len(names) >= 2:
        f["poly"] = [names[0], names[1],
                     [[rng.randint(-80, 900), rng.randint(-80, 900)]
                      for _ in range(rng.randint(3, 6))]]
    if kind == "invalid":
        f["invalid"] = True
    if kind == "limit":
        f["limit"] = rng.randint(1, max(1, n))
    return f


def acc_for(rng, pairs):
    """explicit contour accuracy (1/8 units): the range of the finite values
    divided into 2..40 steps, so that grids stay small"""
    fin = [k for t, k in pairs if t == 0]
    span = (max(fin) - min(fin)) if fin else 8
    return max(1, span // rng.choice([2, 7, 40]))


def gen_params(rng, n, feats):
    names = sorted(feats)
    xax, yax = rng.sample(names, 2)
    if rng.random() < .08:
        yax = xax
    npos = rng.choice([0, 1, 2, 2, 3, 10])
    pos = [inject(rng, gen_values(rng, npos, "spread", rng.random() < .7), .1),
           inject(rng, gen_values(rng, npos, "spread", rng.random() < .7), .1)]
    return dict(
        xax=xax, yax=yax, pos=pos,
        acc=rng.choice([None, None, [acc_for(rng, feats[xax]),
                                     acc_for(rng, feats[yax])]]),
        q=rng.choice([[1, 2], [1, 4], [3, 4], [1, 10], [19, 20], [9, 10],
                      [0, 1], [1, 1], [1, 8]]),
        normalize=rng.random() < .5,
        down=[rng.choice([0, 1, 2, 5]),
              rng.choice([-1, 0, 1]), rng.choice([10, 1000])],
        rm_invalid=rng.random() < .5,
        adv_seed=rng.randrange(1 << 30),
        flow=rng.choice([None, 0.04, 0.16]),
        # explicit contour accuracy on EVERY scale: span / (k - 0.5)
        acck=rng.choice([None, [rng.choice([3, 8, 20]),
                                rng.choice([3, 8, 20])]]),
        # which of the two accuracies is explicit; the other one is not
        # passed ("x", "y") or passed as 0 ("x0", "y0")
        accmode=rng.choice(["both", "both", "x", "y", "x0", "y0"]),
        # kde_kwargs: bins of the histogram KDE, bandwidth span/k of the
        # multivariate KDE
        bins=rng.choice([None, None, [rng.choice([5, 7, 12]),
                                      rng.choice([5, 9, 15])]]),
        bwk=rng.choice([None, None, [rng.choice([4, 10]),
                                     rng.choice([4, 10])]]),
        methods=rng.choice([None, None, ["Median", "Events"],
                            ["SD", "Mean", "%-gated"], ["Mode"],
                            ["Flow rate", "Mean"]]),
        pos2d=rng.random() < .3)


def derived_kwargs(par, xsel, ysel, xs, ys, kt):
    """contour accuracies and kde_kwargs of one call; they depend on the
    selected events only (so they are the same for the filtered, restricted
    and adversarial dataset)"""
    import numpy as np
    x1, y1 = sc(xsel, xs), sc(ysel, ys)
    good = np.isfinite(x1) & np.isfinite(y1)
    ex, ey = x1[good], y1[good]
    sx = float(np.ptp(ex)) if ex.size else 0.0
    sy = float(np.ptp(ey)) if ey.size else 0.0
    ckw, kkw = {}, {}
    if par.get("acck") and sx > 0 and sy > 0:
        ckw = dict(xacc=sx / (par["acck"][0] - .5),
                   yacc=sy / (par["acck"][1] - .5))
        mode = par.get("accmode", "both")
        if mode in ("x", "x0"):
            ckw.pop("yacc")
            if mode == "x0":
                ckw["yacc"] = 0
        elif mode in ("y", "y0"):
            ckw.pop("xacc")
            if mode == "y0":
                ckw["xacc"] = 0
    elif par.get("acc") is not None and xs == "linear" and ys == "linear":
        ckw = dict(xacc=par["acc"][0] / 8, yacc=par["acc"][1] / 8)
    if kt == "histogram" and par.get("bins"):
        kkw = dict(bins=(int(par["bins"][0]), int(par["bins"][1])))
    if kt == "multivariate" and par.get("bwk") and sx > 0 and sy > 0:
        kkw = dict(bw=(sx / par["bwk"][0], sy / par["bwk"][1]))
    return ckw, kkw


def gen_meta_case(rng, nmax=150, kind=None):
    """most cases keep >= 3 jointly finite events on the two axes (judged on
    the data before filtering; the degenerate rest stays as boundary cases)"""
    for attempt in range(4):
        n, feats = gen_dataset(rng, nmax)
        filt = gen_filter(rng, n, feats, kind)
        par = gen_params(rng, n, feats)
        both = sum(1 for (t1, _), (t2, _) in zip(feats[par["xax"]],
                                                 feats[par["yax"]])
                   if t1 == 0 and t2 == 0)
        if both >= 6 or rng.random() < .15:
            break
    return dict(kind="meta", n=n, feats=feats, filt=filt, par=par)


# --------------------------------------------------------------------------
# building datasets
# --------------------------------------------------------------------------
_POLY = []


def build_filtered(case):
    """Dataset A: the generated data with the described filter applied."""
    import dclab
    import numpy as np
    data = {k: dec(v) for k, v in case["feats"].items()}
    ds = dclab.new_dataset(data)
    flt = case["filt"]
    configure(ds, case["par"].get("flow"))
    if "manual" in flt:
        ds.filter.manual[:] = np.array(flt["manual"], dtype=bool)
    if "box" in flt:
        nm, a, b = flt["box"]
        ds.config["filtering"][nm + " min"] = a / 8
        ds.config["filtering"][nm + " max"] = b / 8
    if "poly" in flt:
        xa, ya, pts = flt["poly"]
        pf = dclab.PolygonFilter(axes=(xa, ya),
                                 points=np.array(pts, dtype=float) / 8)
        _POLY.append(pf)
        ds.polygon_filter_add(pf)
    ds.config["filtering"]["remove invalid events"] = bool(flt.get("invalid"))
    if "limit" in flt:
        ds.config["filtering"]["limit events"] = int(flt["limit"])
    if flt["kind"] == "disabled":
        ds.config["filtering"]["enable filters"] = False
    ds.apply_filter()
    return ds


def configure(ds, flow):
    """metadata that makes the ancillary scalar features (emodulus, ...)
    available; identical for the filtered/restricted/adversarial datasets"""
    if flow is not None:
        ds.config["setup"]["flow rate"] = flow
        ds.config["setup"].update({"channel width": 20.0,
                                   "medium": "CellCarrier",
                                   "temperature": 23.0})
        ds.config["imaging"]["pixel size"] = 0.34
        ds.config["calculation"].update({
            "emodulus lut": "LE-2D-FEM-19",
            "emodulus medium": "CellCarrier",
            "emodulus temperature": 23.0,
            "emodulus viscosity model": "buyukurganci-2022"})


def build_from_arrays(data, mask=None, flow=None):
    import dclab
    import numpy as np
    ds = dclab.new_dataset({k: np.array(v) for k, v in data.items()})
    configure(ds, flow)
    if mask is not None:
        ds.filter.manual[:] = mask
    ds.apply_filter()
    return ds


def adversarial(case, data, mask):
    import random
    import numpy as np
    rng = random.Random(case["par"]["adv_seed"])
    pool = [np.nan, np.inf, -np.inf, float(2 ** 67), -float(2 ** 67), 0.0,
            1e300, -1e300]
    out = {}
    for k, v in data.items():
        w = np.array(v, dtype=np.float64)
        for i in range(len(w)):
            if not mask[i]:
                w[i] = rng.choice(pool)
        out[k] = w
    return out


# --------------------------------------------------------------------------
# observation of every entry point
# --------------------------------------------------------------------------
def canon(x):
    """canonical, comparable form of a result"""
    import numpy as np
    if isinstance(x, (tuple, list)):
        return ["seq"] + [canon(v) for v in x]
    if isinstance(x, np.ndarray):
        return ["arr", list(x.shape), x.dtype.kind,
                x.astype(np.float64).tobytes().hex()
                if x.dtype.kind in "fiub" else repr(x.tolist())]
    if isinstance(x, (float, np.floating)):
        return ["f", np.float64(x).tobytes().hex()]
    if isinstance(x, (int, np.integer)):
        return ["i", int(x)]
    return ["o", repr(x)]


LOGWARN = []      # warnings about np.log that escaped from dclab


def guarded(fn):
    import warnings
    try:
        with warnings.catch_warnings(record=True) as w:
            warnings.simplefilter("always")
            res = fn()
        for x in w:
            if "np.log" in str(x.message) or "in log" in str(x.message):
                LOGWARN.append("%s: %s" % (x.category.__name__,
                                           str(x.message)[:60]))
        return ("ok", res)
    except Exception as e:                     # noqa: compare error classes
        return ("exc", type(e).__name__)


def tsv_rows(ds, feats, scratch, tag, filtered=True):
    path = os.path.join(scratch, "c12_%d_%s.tsv" % (os.getpid(), tag))
    ds.export.tsv(path, feats, filtered=filtered, override=True)
    with open(path, "rb") as fd:
        rows = [ln for ln in fd.read().decode("utf-8").split("\n")
                if ln and not ln.startswith("#")
                and not ln.startswith("\ufeff#")]
    os.unlink(path)
    return rows


def observe(ds, case, scratch, tag, sel_of=None, light=False):
    """All observables of the property for one dataset -> dict key->value.
    light: statistics, tsv and one contour + quantile level only (used by
    the filter-history pass)."""
    import numpy as np
    from dclab import statistics, kde_contours
    from dclab.cached import Cache
    Cache.clear_cache()
    del LOGWARN[:]
    par = case["par"]
    names = sorted(case["feats"])
    xax, yax = par["xax"], par["yax"]
    obs = {}
    obs["stats"] = guarded(lambda: statistics.get_statistics(
        ds, features=names))
    # every registered method x every scalar feature of the dataset
    # (innate and ancillary ones, e.g. index, emodulus)
    obs["stats_all"] = guarded(lambda: statistics.get_statistics(ds))
    if par.get("methods"):
        obs["stats_methods"] = guarded(lambda: statistics.get_statistics(
            ds, methods=list(par["methods"]), features=names))
    pos = [dec(par["pos"][0]), dec(par["pos"][1])]
    xsel = np.asarray(ds[xax][ds.filter.all], dtype=np.float64)
    ysel = np.asarray(ds[yax][ds.filter.all], dtype=np.float64)

    def positions():
        if par.get("pos2d"):
            return np.array([pos[0], pos[1]])
        return [pos[0].copy(), pos[1].copy()]
    for kt in (["histogram"] if light else KDE_TYPES):
        for xs in (["linear"] if light else SCALES):
            for ys in SCALES:
                key = "%s/%s/%s" % (kt, xs, ys)
                ckw, kkw = derived_kwargs(par, xsel, ysel, xs, ys, kt)
                kk = dict(kde_kwargs=kkw) if kkw else {}
                if not light:
                    obs["scatter/" + key] = guarded(
                        lambda: ds.get_kde_scatter(
                            xax=xax, yax=yax, kde_type=kt, xscale=xs,
                            yscale=ys, **kk))
                    obs["scatterpos/" + key] = guarded(
                        lambda: ds.get_kde_scatter(
                            xax=xax, yax=yax, kde_type=kt, xscale=xs,
                            yscale=ys, positions=positions(), **kk))
                cont = guarded(lambda: ds.get_kde_contour(
                    xax=xax, yax=yax, kde_type=kt, xscale=xs, yscale=ys,
                    **ckw, **kk))
                obs["contour/" + key] = cont
                if cont[0] == "ok" and kt != "none":
                    X, Y, Z = cont[1]
                    q = par["q"][0] / par["q"][1]
                    obs["quantile/" + key] = guarded(
                        lambda: kde_contours.get_quantile_levels(
                            Z, X, Y, ds[xax][ds.filter.all],
                            ds[yax][ds.filter.all], q=[q, 0.5],
                            normalize=par["normalize"]))
    m = int(np.sum(ds.filter.all))
    sizes = sorted(set([par["down"][0], max(0, m + par["down"][1]),
                        par["down"][2]]))
    for dsz in (sizes[:1] if light else sizes):
        for xs, ys in (("linear", "linear"), ("log", "linear"),
                       ("linear", "log"), ("log", "log")):
            key = "down/%d/%s/%s" % (dsz, xs, ys)
            r = guarded(lambda: ds.get_downsampled_scatter(
                xax=xax, yax=yax, downsample=dsz, xscale=xs, yscale=ys,
                remove_invalid=par["rm_invalid"], ret_mask=True))
            if r[0] == "ok":
                x, y, mk = r[1]
                # the mask must identify the returned points in the dataset
                okm = (np.array_equal(ds[xax][mk], x, equal_nan=True) and
                       np.array_equal(ds[yax][mk], y, equal_nan=True) and
                       len(mk) == len(ds))
                obs[key + "/maskok"] = ("ok", bool(okm))
                r = ("ok", (x, y))
            obs[key] = r
            if dsz == sizes[0]:
                obs[key + "/nomask"] = guarded(
                    lambda: ds.get_downsampled_scatter(
                        xax=xax, yax=yax, downsample=dsz, xscale=xs,
                        yscale=ys, remove_invalid=par["rm_invalid"]))
    # a requested feature the dataset lacks (NaN, not an error), upper-case
    # feature names, unusable accuracies (an error, not a wrong grid)
    obs["stats_lacking"] = guarded(lambda: statistics.get_statistics(
        ds, features=[names[0].upper(), "fl3_width"]))
    for tagacc, acc in (("neg", -1.0), ("nan", float("nan"))):
        obs["contour_badacc/" + tagacc] = guarded(lambda: ds.get_kde_contour(
            xax=xax, yax=yax, xacc=acc, yacc=1.0))
    obs["tsv"] = guarded(lambda: tsv_rows(ds, names, scratch, tag))
    obs["tsv_all"] = guarded(lambda: tsv_rows(ds, names, scratch, tag,
                                              filtered=False))
    # warnings of the log transformation that reach the caller (recorded,
    # not compared: message texts are not part of the property)
    obs["logwarn"] = ("ok", sorted(set(LOGWARN)))
    return obs


def compare_obs(oa, ob, la, lb, skip=()):
    fails = []
    for k in sorted(oa):
        if k in skip:
            continue
        a, b = oa[k], ob.get(k)
        if b is None:
            continue
        if a[0] != b[0]:
            fails.append("%s: %s dataset gives %s, %s dataset gives %s" % (
                k, la, short(a), lb, short(b)))
        elif a[0] == "exc":
            if a[1] != b[1]:
                fails.append("%s: %s raises %s, %s raises %s" % (
                    k, la, a[1], lb, b[1]))
        elif k in ("logwarn",) or (k == "tsv_all" and lb == "restricted") \
                or (k == "tsv_all" and lb == "adversarial"):
            continue      # all events: differs by construction
        elif k in ("stats", "stats_all", "stats_methods", "stats_lacking"):
            ha, va = a[1]
            hb, vb = b[1]
            if ha != hb:
                fails.append("%s: headers differ: %r vs %r" % (k, ha, hb))
                continue
            for h, x, y in zip(ha, va, vb):
                if h == "%-gated":
                    continue
                if lb.startswith("restricted") and "Index" in h:
                    continue       # event numbers are renumbered there
                # same selected values -> same statistic; one part in 1e12
                # is left to the summation order
                if not close(float(x), float(y), 1e-12, 0):
                    fails.append("statistic %r: %s dataset %r, %s dataset %r"
                                 % (h, la, float(x), lb, float(y)))
        elif not same_result(a[1], b[1]):
            fails.append("%s: result on the %s dataset differs from the "
                         "result on the %s dataset (%s vs %s)" % (
                             k, la, lb, short(a), short(b)))
    return fails


def same_result(a, b, rtol=1e-12):
    """same shapes and values (NaN == NaN); numbers may differ by one part
    in 1e12 (summation order is not part of the property)"""
    import numpy as np
    if isinstance(a, (tuple, list)) or isinstance(b, (tuple, list)):
        if not (isinstance(a, (tuple, list)) and isinstance(b, (tuple, list))
                and len(a) == len(b)):
            return False
        return all(same_result(u, v, rtol) for u, v in zip(a, b))
    if isinstance(a, str) or isinstance(b, str):
        return a == b
    try:
        u = np.asarray(a)
        v = np.asarray(b)
        if u.shape != v.shape:
            return False
        if u.dtype.kind in "fiub" and v.dtype.kind in "fiub":
            uf, vf = u.astype(np.float64), v.astype(np.float64)
            fin = np.isfinite(vf)
            top = float(np.max(np.abs(vf[fin]))) if fin.any() else 0.0
            return bool(np.allclose(uf, vf, rtol=rtol, atol=1e-14 * top,
                                    equal_nan=True))
    except Exception:
        pass
    return canon(a) == canon(b)


def short(r):
    import numpy as np
    if r[0] == "exc":
        return "exception " + r[1]
    v = r[1]

    def s(x):
        if isinstance(x, np.ndarray):
            return "array%s%s" % (list(x.shape),
                                  np.array2string(x.ravel()[:4], precision=6))
        if isinstance(x, (tuple, list)):
            return "(" + ", ".join(s(y) for y in x[:4]) + ")"
        return repr(x)[:60]
    return s(v)[:200]


# --------------------------------------------------------------------------
# definitions and reference estimators (independent of dclab's wrappers)
# --------------------------------------------------------------------------
def frac_percentile(sorted_fr, a, b):
    n = len(sorted_fr)
    h = fractions.Fraction(a * (n - 1), b)
    lo = h.numerator // h.denominator
    fr = h - lo
    v = sorted_fr[lo]
    if fr:
        v = v + (sorted_fr[lo + 1] - sorted_fr[lo]) * fr
    return v


def ref_statistics(case, mask):
    """definitions on the finite selected values, exact arithmetic"""
    import numpy as np
    out = {}
    enable = case["filt"]["kind"] != "disabled"
    for nm in sorted(case["feats"]):
        ks = [k for (t, k), mk in zip(case["feats"][nm], mask)
              if t == 0 and (mk or not enable)]
        n = len(ks)
        if n == 0:
            out[nm] = None
            continue
        fr = sorted(fractions.Fraction(k, 8) for k in ks)
        mean = sum(fr) / n
        med = fr[n // 2] if n % 2 else (fr[n // 2 - 1] + fr[n // 2]) / 2
        var = sum((x - mean) ** 2 for x in fr) / n
        iqr = frac_percentile(fr, 3, 4) - frac_percentile(fr, 1, 4)
        out[nm] = dict(n=n, mean=mean, median=med, var=var, iqr=iqr,
                       data=np.array([k / 8 for k in ks]))
    return out


def mode_reference(d):
    """mode by definition: Freedman-Diaconis bin, fullest bin, lowest on a
    tie; returns (value, reliable)"""
    import numpy as np
    fr = sorted(fractions.Fraction(float(v)) for v in d["data"])
    iqr = d["iqr"]
    if iqr == 0:
        return float("nan"), True, 0.0
    n = d["n"]
    bs = 2 * float(iqr) / n ** (1 / 3)
    ratio = d["data"] / bs
    near_tie = bool(np.any(np.abs(np.abs(ratio - np.floor(ratio)) - .5)
                           < 1e-9))
    keys = np.round(ratio)
    best, bc = None, 0
    for k in sorted(set(keys.tolist())):
        c = int(np.sum(keys == k))
        if c > bc:
            best, bc = k, c
    return best * bs + bs / 2, not near_tie, bs


def check_statistics(case, obs, mask):
    """get_statistics against the definitions"""
    import numpy as np
    fails = []
    if obs["stats"][0] != "ok":
        return ["get_statistics raised " + obs["stats"][1]]
    head, vals = obs["stats"][1]
    vals = [float(v) for v in vals]
    n = case["n"]
    m = int(np.sum(mask))
    ref = ref_statistics(case, mask)
    flow = case["par"].get("flow")
    exp = [("Events", float(m) if n else math.nan, 0),
           ("%-gated", 100 * m / n if n else math.nan, 1e-12),
           ("Flow rate", (flow if flow is not None else math.nan)
            if n else math.nan, 0)]
    for (h, e, tol), hh, v in zip(exp, head[:3], vals[:3]):
        if hh != h:
            fails.append("header %r instead of %r" % (hh, h))
        elif not close(v, e, tol):
            fails.append("%s = %r, definition gives %r" % (h, v, e))
    i = 3
    for nm in sorted(case["feats"]):
        d = ref[nm]
        got = dict(zip(["Mean", "Median", "Mode", "SD"], vals[i:i + 4]))
        i += 4
        if d is None:
            for k2, v in got.items():
                if not math.isnan(v):
                    fails.append("%s %s = %r with no finite selected value"
                                 % (k2, nm, v))
            continue
        scale = 1 + float(np.max(np.abs(d["data"])))
        if not close(got["Mean"], float(d["mean"]), 1e-12, 1e-15 * scale):
            fails.append("Mean %s = %r, definition %r" % (
                nm, got["Mean"], float(d["mean"])))
        if got["Median"] != float(d["median"]):
            fails.append("Median %s = %r, definition %r" % (
                nm, got["Median"], float(d["median"])))
        if not close(got["SD"], math.sqrt(d["var"]), 1e-9, 1e-9 * scale):
            fails.append("SD %s = %r, definition %r" % (
                nm, got["SD"], math.sqrt(d["var"])))
        mv, reliable, bs = mode_reference(d)
        if reliable and not close(got["Mode"], mv, 1e-9, 1e-12 * scale):
            fails.append("Mode %s = %r, definition %r" % (
                nm, got["Mode"], mv))
    return fails


def check_misc(case, obs):
    """a requested feature the dataset lacks gives NaN (the other one is
    found whatever its letter case); unusable contour accuracies are refused"""
    fails = []
    r = obs.get("stats_lacking")
    if r is not None:
        if r[0] != "ok" or obs["stats"][0] != "ok":
            fails.append("get_statistics with a feature the dataset lacks: "
                         + short(r))
        else:
            head, vals = r[1]
            full = dict(zip(obs["stats"][1][0],
                            [float(v) for v in obs["stats"][1][1]]))
            if len(head) != 3 + 8:
                fails.append("get_statistics(features=[UPPER, lacking]) "
                             "reports %d values" % len(head))
            else:
                for h, v in list(zip(head, vals))[3:7]:
                    if h not in full or not close(float(v), full[h], 1e-12):
                        fails.append("upper-case feature name: %r = %r, "
                                     "lower-case %r" % (h, float(v),
                                                        full.get(h)))
                for h, v in list(zip(head, vals))[7:]:
                    if not math.isnan(float(v)):
                        fails.append("%r = %r for a feature the dataset "
                                     "lacks" % (h, float(v)))
    for k, r in obs.items():
        if k.startswith("contour_badacc/") and r[0] == "ok" and \
                r[1][0].size > 0:
            fails.append("%s: a %s grid is returned for an unusable "
                         "accuracy" % (k, list(r[1][0].shape)))
    return fails


def check_stats_methods(case, obs):
    """get_statistics(ds, methods=...) reports exactly the requested methods
    (feature-free ones first, then per feature) with the values of the full
    report"""
    par = case["par"]
    r = obs.get("stats_methods")
    if r is None or obs["stats"][0] != "ok":
        return []
    if r[0] != "ok":
        return ["get_statistics(methods=%r) raised %s" % (par["methods"],
                                                         r[1])]
    head, vals = obs["stats"][1]
    full = dict(zip(head, [float(v) for v in vals]))
    labels = [h[5:] for h in head if h.startswith("Mean ")]
    free = ("Events", "%-gated", "Flow rate")
    want = [m for m in par["methods"] if m in free]
    for lb in labels:
        want += ["%s %s" % (m, lb) for m in par["methods"] if m not in free]
    h2, v2 = r[1]
    if list(h2) != want:
        return ["get_statistics(methods=%r) reports %r, expected %r" % (
            par["methods"], list(h2), want)]
    return ["get_statistics(methods=...): %r = %r, full report %r" % (
        h, float(v), full[h]) for h, v in zip(h2, v2)
        if not close(float(v), full[h], 1e-12, 0)]


def check_statistics_all(ds, obs, mask, enable):
    """get_statistics(ds) (all registered methods x all scalar features)
    against the definitions evaluated on the finite selected values of
    ds[feature]"""
    import numpy as np
    from dclab import definitions as dfn
    r = obs["stats_all"]
    if r[0] != "ok":
        return ["get_statistics(ds) raised " + r[1]]
    head, vals = r[1]
    got = dict(zip(head, [float(v) for v in vals]))
    fails = []
    nfeat = 0
    for feat in ds.features_scalar:
        label = dfn.get_feature_label(feat, rtdc_ds=ds)
        arr = np.asarray(ds[feat], dtype=np.float64)
        sel = arr[mask] if enable else arr
        sel = sel[np.isfinite(sel)]
        nfeat += 1
        for mt in ("Mean", "Median", "Mode", "SD"):
            if "%s %s" % (mt, label) not in got:
                fails.append("no statistic %r %r reported" % (mt, label))
        if fails:
            continue
        g = {mt: got["%s %s" % (mt, label)]
             for mt in ("Mean", "Median", "Mode", "SD")}
        if sel.size == 0:
            for mt, v in g.items():
                if not math.isnan(v):
                    fails.append("%s %s = %r with no finite selected value"
                                 % (mt, feat, v))
            continue
        if float(np.max(np.abs(sel))) > 1e150:
            continue                      # squares overflow in binary64
        fr = sorted(fractions.Fraction(float(v)) for v in sel)
        n = len(fr)
        mean = sum(fr) / n
        med = fr[n // 2] if n % 2 else (fr[n // 2 - 1] + fr[n // 2]) / 2
        var = sum((x - mean) ** 2 for x in fr) / n
        iqr = frac_percentile(fr, 3, 4) - frac_percentile(fr, 1, 4)
        scale = float(np.max(np.abs(sel))) + 1e-300
        if not close(g["Mean"], float(mean), 1e-12, 1e-13 * scale):
            fails.append("Mean %s = %r, definition %r" % (
                feat, g["Mean"], float(mean)))
        if not close(g["Median"], float(med), 1e-15, 1e-15 * scale):
            fails.append("Median %s = %r, definition %r" % (
                feat, g["Median"], float(med)))
        if not close(g["SD"], math.sqrt(var), 1e-9, 1e-9 * scale):
            fails.append("SD %s = %r, definition %r" % (
                feat, g["SD"], math.sqrt(var)))
        if float(iqr) <= 1e-12 * scale:
            if iqr == 0 and not math.isnan(g["Mode"]):
                # np.percentile may leave a rounding residue in the iqr
                if not (abs(g["Mode"]) <= scale * 2):
                    fails.append("Mode %s = %r for a zero inter-quartile "
                                 "range" % (feat, g["Mode"]))
            continue
        mv, reliable, bs = mode_reference(dict(data=sel, iqr=iqr, n=n))
        if reliable and not close(g["Mode"], mv, 1e-9, 1e-9 * scale):
            fails.append("Mode %s = %r, definition %r" % (
                feat, g["Mode"], mv))
    return fails, nfeat


def close(a, b, rtol=0.0, atol=0.0):
    if math.isnan(a) or math.isnan(b):
        return math.isnan(a) and math.isnan(b)
    if a == b:
        return True
    if math.isinf(a) or math.isinf(b):
        return False
    return abs(a - b) <= atol + rtol * max(abs(a), abs(b))


def ref_doane_width(a):
    import numpy as np
    from scipy.stats import skew
    n = a.size
    g1 = skew(a)
    sg = np.sqrt(6 * (n - 2) / ((n + 1) * (n + 3)))
    k = 1 + np.log2(n) + np.log2(1 + np.abs(g1) / sg)
    return (a.max() - a.min()) / k


def ref_doane_num(a):
    import numpy as np
    acc = ref_doane_width(a)
    if acc == 0 or np.isnan(acc):
        return 5
    return int(np.round((a.max() - a.min()) / acc))


def ref_density(kt, ex, ey, xo, yo, bins=None, bw=None):
    """reference estimator on finite events (ex, ey) at finite (xo, yo)"""
    import numpy as np
    from scipy.interpolate import RectBivariateSpline
    from scipy.stats import gaussian_kde
    if kt == "none":
        return np.ones(xo.shape)
    if kt == "histogram":
        if bins is None:
            bins = (max(5, ref_doane_num(ex)), max(5, ref_doane_num(ey)))
        h, xe, ye = np.histogram2d(ex, ey, bins=bins, density=True)
        xc = (xe[:-1] + xe[1:]) / 2
        yc = (ye[:-1] + ye[1:]) / 2
        d = RectBivariateSpline(xc, yc, h).ev(xo, yo)
        return np.where(d < 0, 0, d)
    if kt == "gauss":
        try:
            return gaussian_kde(np.vstack([ex, ey])).evaluate(
                np.vstack([xo, yo]))
        except np.linalg.LinAlgError:
            return np.full(xo.shape, np.nan)
    if kt == "multivariate":
        if bw is None:
            hx = ref_doane_width(ex) / 2
            hy = ref_doane_width(ey) / 2
        else:
            hx, hy = bw
        ux = (xo[:, None] - ex[None, :]) / hx
        uy = (yo[:, None] - ey[None, :]) / hy
        kk = np.exp(-.5 * (ux ** 2 + uy ** 2)) / (2 * np.pi)
        return kk.sum(axis=1) / (ex.size * hx * hy)
    raise ValueError(kt)


def sc(a, scale):
    import numpy as np
    if scale == "linear":
        return np.array(a, dtype=np.float64)
    with np.errstate(all="ignore"):
        return np.log(a)


TWO_POS = "[multivariate KDE at exactly two positions] "
RTOL = {"histogram": 1e-6, "gauss": 1e-9, "multivariate": 1e-9, "none": 0}


ATOL = {"histogram": 1e-9, "gauss": 1e-12, "multivariate": 1e-12, "none": 0}


def dens_close(kt, got, ref, peak=0.0):
    """peak: largest reference density at the events themselves (scale of
    the absolute tolerance)"""
    import numpy as np
    got = np.asarray(got, dtype=np.float64)
    ref = np.asarray(ref, dtype=np.float64)
    if got.shape != ref.shape:
        return "shape %s vs reference %s" % (got.shape, ref.shape)
    if got.size == 0:
        return None
    nn = np.isnan(got)
    if not np.array_equal(nn, np.isnan(ref)):
        return "NaN pattern differs from the reference"
    fin = ~nn
    if not fin.any():
        return None
    top = max(float(np.max(np.abs(ref[fin]))), peak)
    if not np.isfinite(top):
        return None
    err = np.abs(got[fin] - ref[fin])
    lim = RTOL[kt] * np.abs(ref[fin]) + ATOL[kt] * top + 1e-300
    if np.any(err > lim):
        j = int(np.argmax(err - lim))
        return "value %r vs reference %r (max density %r)" % (
            float(got[fin][j]), float(ref[fin][j]), top)
    return None


def may_raise(kt, ex, ey, what):
    """inputs for which an exception is a legitimate answer although the
    harness' reference estimator returns numbers: the statsmodels estimator
    needs more observations than variables; a contour grid needs a positive
    finite spacing on both axes (>= 3 events, no constant axis)"""
    import numpy as np
    if ex.size == 0:
        return True
    if kt == "multivariate" and ex.size <= 2:
        return True
    if what == "contour" and (ex.size < 3 or np.ptp(ex) == 0
                              or np.ptp(ey) == 0):
        return True
    return False


def check_reference(case, obs, mask):
    """dclab on the filtered dataset vs reference estimators evaluated on
    the selected events taken directly from the case.  A call that raises
    although the reference returns numbers is a failure (see may_raise)."""
    import numpy as np
    par = case["par"]
    fails = []
    counts = {}
    qreal = []

    def cnt(k, n=1):
        counts[k] = counts.get(k, 0) + n
    xsel = dec(case["feats"][par["xax"]])[mask]
    ysel = dec(case["feats"][par["yax"]])[mask]
    pos = [dec(par["pos"][0]), dec(par["pos"][1])]
    for kt in KDE_TYPES:
        for xs in SCALES:
            for ys in SCALES:
                key = "%s/%s/%s" % (kt, xs, ys)
                x1, y1 = sc(xsel, xs), sc(ysel, ys)
                good = np.isfinite(x1) & np.isfinite(y1)
                ex, ey = x1[good], y1[good]
                ckw, kkw = derived_kwargs(par, xsel, ysel, xs, ys, kt)
                peak = 0.0
                if ex.size and kt != "none":
                    try:
                        with np.errstate(all="ignore"):
                            pk = np.abs(ref_density(kt, ex, ey, ex, ey,
                                                    **kkw))
                        pk = pk[np.isfinite(pk)]
                        peak = float(pk.max()) if pk.size else 0.0
                    except Exception:
                        peak = 0.0
                for which in ("scatter", "scatterpos"):
                    r = obs[which + "/" + key]
                    if which == "scatter":
                        ox, oy = x1, y1
                    else:
                        ox, oy = sc(pos[0], xs), sc(pos[1], ys)
                    if len(xsel) == 0:
                        if r[0] != "ok" or np.asarray(r[1]).size != 0:
                            fails.append("%s/%s: %s for an empty selection"
                                         % (which, key, short(r)))
                        continue
                    og = np.isfinite(ox) & np.isfinite(oy)
                    ref = None
                    if kt == "none":
                        ref = np.ones(ox.shape)
                    else:
                        try:
                            with np.errstate(all="ignore"):
                                val = ref_density(kt, ex, ey, ox[og], oy[og],
                                                  **kkw)
                            ref = np.full(ox.shape, np.nan)
                            ref[og] = val
                        except Exception:
                            cnt("ref-raises")
                    if r[0] != "ok":
                        cnt("impl-raises")
                        if ref is not None and not may_raise(kt, ex, ey,
                                                             which):
                            fails.append(
                                "%s/%s raises %s for %d jointly finite "
                                "selected events; the reference estimator "
                                "returns values" % (which, key, r[1],
                                                    ex.size))
                        else:
                            cnt("raise-legitimate")
                        continue
                    if ref is None:
                        continue
                    dd = dens_close(kt, r[1], ref, peak)
                    cnt("ref-compared")
                    if dd:
                        tag = TWO_POS if (kt == "multivariate" and
                                          int(og.sum()) == 2) else ""
                        fails.append("%s%s/%s: %s" % (tag, which, key, dd))
                # contour: grid spans the selected events; density = the
                # reference estimator on dclab's own grid nodes
                r = obs["contour/" + key]
                if ex.size == 0:
                    continue
                if r[0] != "ok":
                    cnt("impl-raises")
                    if may_raise(kt, ex, ey, "contour"):
                        cnt("raise-legitimate")
                        continue
                    # the spacing is computed per axis (own purge)
                    try:
                        with np.errstate(all="ignore"):
                            xa = ckw.get("xacc") or ref_doane_width(
                                x1[np.isfinite(x1)]) / 5
                            ya = ckw.get("yacc") or ref_doane_width(
                                y1[np.isfinite(y1)]) / 5
                            nx = int(np.ceil(np.ptp(ex) / xa))
                            ny = int(np.ceil(np.ptp(ey) / ya))
                        okgrid = nx >= 1 and ny >= 1 and nx * ny < 10 ** 7
                    except Exception:
                        okgrid = False
                    if okgrid:
                        fails.append(
                            "contour/%s raises %s for %d jointly finite "
                            "selected events (a %d x %d grid by definition)"
                            % (key, r[1], ex.size, nx, ny))
                    else:
                        cnt("raise-legitimate")
                    continue
                X, Y, Z = r[1]
                lx = np.log(X) if xs == "log" else X
                ly = np.log(Y) if ys == "log" else Y
                okg = (X.shape == Y.shape == np.shape(Z) and X.ndim == 2
                       and X.size > 0
                       and np.all(lx == lx[:, :1]) and np.all(ly == ly[:1, :])
                       and np.all(np.diff(lx[:, 0]) > 0)
                       and np.all(np.diff(ly[0, :]) > 0))
                if okg:
                    tolx = 1e-9 * (abs(ex).max() + np.ptp(ex))
                    toly = 1e-9 * (abs(ey).max() + np.ptp(ey))
                    okg = (abs(lx[0, 0] - ex.min()) <= tolx and
                           abs(ly[0, 0] - ey.min()) <= toly and
                           (X.shape[0] == 1 or
                            abs(lx[-1, 0] - ex.max()) <= tolx) and
                           (X.shape[1] == 1 or
                            abs(ly[0, -1] - ey.max()) <= toly))
                if not okg and X.size == 0 and may_raise(kt, ex, ey,
                                                          "contour"):
                    cnt("raise-legitimate")
                    continue
                if not okg:
                    fails.append("contour/%s: not a rectilinear ascending "
                                 "grid from the minimum to the maximum of "
                                 "the selected events (shape %s)" % (
                                     key, list(X.shape)))
                    continue
                if kt != "none" or ckw:
                    # the grid the request defines: node distance <= the
                    # requested accuracy (in the scaled domain) and not
                    # finer than half of it; an accuracy that is not given
                    # (or 0) is a fifth of the Doane bin width of that axis
                    with np.errstate(all="ignore"):
                        accs = [ckw.get("xacc") or ref_doane_width(
                                    x1[np.isfinite(x1)]) / 5,
                                ckw.get("yacc") or ref_doane_width(
                                    y1[np.isfinite(y1)]) / 5]
                    for g, acc in ((lx[:, 0], accs[0]),
                                   (ly[0, :], accs[1])):
                        if g.size > 2 and np.isfinite(acc) and acc > 0 \
                                and not (
                                acc / 2.5 <= np.diff(g).max() <= acc * (
                                    1 + 1e-9) * g.size / (g.size - 1)):
                            fails.append(
                                "contour/%s: node distance %r for the "
                                "requested accuracy %r" % (
                                    key, float(np.diff(g).max()), acc))
                try:
                    with np.errstate(all="ignore"):
                        ref = ref_density(kt, ex, ey, lx.ravel(), ly.ravel(),
                                          **kkw).reshape(X.shape)
                except Exception:
                    cnt("ref-raises")
                    continue
                cnt("ref-contour")
                dd = dens_close(kt, Z, ref, peak)
                if dd:
                    tag = TWO_POS if (kt == "multivariate" and
                                      Z.size == 2) else ""
                    fails.append("%scontour/%s: %s" % (tag, key, dd))
                if kt == "none":
                    continue
                # quantile level: fraction of events below it
                qr = obs.get("quantile/" + key)
                fin = np.isfinite(xsel) & np.isfinite(ysel)
                if qr is None:
                    continue
                if qr[0] != "ok":
                    if X.shape[0] >= 2 and X.shape[1] >= 2 and fin.any() \
                            and np.all(np.isfinite(Z)):
                        fails.append(
                            "quantile/%s: get_quantile_levels raises %s on "
                            "a %d x %d grid with %d finite events" % (
                                key, qr[1], X.shape[0], X.shape[1],
                                int(fin.sum())))
                    else:
                        cnt("raise-legitimate")
                    continue
                dd = check_quantile(X, Y, Z, xsel, ysel, par, qr[1])
                cnt("quantile")
                if dd:
                    fails.append("quantile/%s: %s" % (key, dd))
                # contours at the reported levels
                levs = [float(v) for v in np.atleast_1d(qr[1])] \
                    if par["normalize"] else [0.5, 0.1]
                dd, nc = check_contours(X, Y, Z, levs[:2])
                cnt("contours", nc)
                if dd:
                    fails.append("contours/%s: %s" % (key, dd))
                if xs == "linear" and ys == "linear":
                    rec = quantile_record(X, Y, Z, xsel, ysel, par["q"][0],
                                          par["q"][1], par["normalize"])
                    for rc in (rec or []):
                        rc["key"] = key
                        qreal.append(rc)
    counts["qreal"] = qreal
    return fails, counts


def check_tsv_down(case, obs, mask):
    """definitions: the tsv rows are '%.10e' of the selected (or all) events
    in sorted feature order; downsampled points are a subsequence of the
    selected events, all of them for downsample=0"""
    import numpy as np
    fails = []
    names = sorted(case["feats"])
    cols = [dec(case["feats"][k]) for k in names]
    for key, sel in (("tsv", mask), ("tsv_all", np.ones(len(mask), bool))):
        r = obs.get(key)
        if r is None:
            continue
        if r[0] != "ok":
            fails.append("%s export raises %s" % (key, r[1]))
            continue
        want = ["\t".join("%.10e" % c[i] for c in cols)
                for i in np.where(sel)[0]]
        if list(r[1]) != want:
            fails.append("%s: %d rows written, %d events selected; first "
                         "difference at row %d" % (
                             key, len(r[1]), len(want),
                             next((i for i, (u, v) in enumerate(
                                 zip(r[1], want)) if u != v),
                                 min(len(r[1]), len(want)))))
    xs = dec(case["feats"][case["par"]["xax"]])[mask]
    ys = dec(case["feats"][case["par"]["yax"]])[mask]
    pairs = list(zip(xs.tolist(), ys.tolist()))

    def same(a, b):
        return (a == b) or (a != a and b != b)
    from dclab import downsampling
    m = len(pairs)
    for k, r in obs.items():
        if not k.startswith("down/") or k.endswith("/maskok"):
            continue
        parts = k.split("/")
        if r[0] != "ok":
            # a non-negative request on any selection must be answered; the
            # only listed exception is C16's finding C16-grid-constant-axis
            # (downsample_grid, Cython: IndexError when all valid values of
            # one axis are equal and the grid step runs)
            with np.errstate(all="ignore"):
                sx_, sy_ = sc(xs, parts[2]), sc(ys, parts[3])
            fin = np.isfinite(sx_) & np.isfinite(sy_)
            if r[1] == "IndexError" and fin.any() and 0 < min(
                    int(parts[1]), m) < fin.sum() and (
                        np.ptp(sx_[fin]) == 0 or np.ptp(sy_[fin]) == 0):
                continue
            fails.append("%s raises %s (%d selected events)" % (k, r[1], m))
            continue
        # definition: downsample_grid on the scaled selected events, capped
        # at the number of selected events
        with np.errstate(all="ignore"):
            try:
                _, _, idx = downsampling.downsample_grid(
                    sc(xs, parts[2]), sc(ys, parts[3]),
                    samples=min(int(parts[1]), m),
                    remove_invalid=case["par"]["rm_invalid"], ret_idx=True)
                want = (xs[idx], ys[idx])
            except Exception:
                want = None
        if want is not None and not (
                np.array_equal(np.asarray(r[1][0], dtype=float), want[0],
                               equal_nan=True)
                and np.array_equal(np.asarray(r[1][1], dtype=float), want[1],
                                   equal_nan=True)):
            fails.append("%s: %d points returned, downsample_grid on the "
                         "scaled selected events keeps %d (or other ones)"
                         % (k, len(r[1][0]), len(want[0])))
        x, y = r[1]
        j = 0
        okk = len(x) == len(y)
        for u, v in zip(np.asarray(x).tolist(), np.asarray(y).tolist()):
            while j < len(pairs) and not (same(pairs[j][0], u)
                                          and same(pairs[j][1], v)):
                j += 1
            if j == len(pairs):
                okk = False
                break
            j += 1
        dsz = int(parts[1])
        if okk and dsz == 0 and not case["par"]["rm_invalid"] and \
                len(x) != len(pairs):
            okk = False
        if not okk:
            fails.append("%s: the returned points are not a subsequence of "
                         "the selected events" % k)
    return fails


def bilinear(gx, gy, Z, px, py):
    """independent bilinear interpolation on a rectilinear grid (ascending
    gx, gy); 0 outside"""
    import numpy as np
    px = np.asarray(px, dtype=np.float64)
    py = np.asarray(py, dtype=np.float64)
    out = np.zeros(px.shape)
    ins = (px >= gx[0]) & (px <= gx[-1]) & (py >= gy[0]) & (py <= gy[-1])
    if not ins.any():
        return out
    x, y = px[ins], py[ins]
    a = np.clip(np.searchsorted(gx, x, side="right") - 1, 0, gx.size - 2)
    b = np.clip(np.searchsorted(gy, y, side="right") - 1, 0, gy.size - 2)
    tx = (x - gx[a]) / (gx[a + 1] - gx[a])
    ty = (y - gy[b]) / (gy[b + 1] - gy[b])
    out[ins] = ((1 - tx) * (1 - ty) * Z[a, b] + tx * (1 - ty) * Z[a + 1, b]
                + (1 - tx) * ty * Z[a, b + 1] + tx * ty * Z[a + 1, b + 1])
    return out


def check_contours(X, Y, Z, rel_levels):
    """find_contours_level: every vertex of every contour lies inside the
    grid and on the level (bilinear density = level * max within 1e-9 * max;
    marching squares interpolates linearly along grid edges); with
    closed=True every contour is a closed curve and vertices on the border
    of the grid have a density >= level; with closed=False a contour is
    closed or ends on the border.  Returns (failure or None, #contours)."""
    import numpy as np
    from dclab import kde_contours
    gx, gy = X[:, 0], Y[0, :]
    if gx.size < 2 or gy.size < 2 or not np.all(np.isfinite(Z)) or \
            not (np.all(np.diff(gx) > 0) and np.all(np.diff(gy) > 0)) or \
            not (np.all(np.isfinite(gx)) and np.all(np.isfinite(gy))):
        return None, 0
    top = float(Z.max())
    if not top > 0 or Z.size > 40000:
        return None, 0
    tol = 1e-9 * top
    ncont = 0
    for lev in rel_levels:
        if not 0 < lev < 1:
            continue
        for closed in (False, True):
            try:
                conts = kde_contours.find_contours_level(Z, X, Y, lev,
                                                         closed=closed)
            except Exception as e:
                return ("find_contours_level(level=%r, closed=%r) raised %r"
                        % (lev, closed, e)), ncont
            for cc in conts:
                ncont += 1
                cx, cy = cc[:, 0], cc[:, 1]
                if not (np.all(np.isfinite(cc)) and cx.min() >= gx[0]
                        and cx.max() <= gx[-1] and cy.min() >= gy[0]
                        and cy.max() <= gy[-1]):
                    return ("level %r closed=%r: contour leaves the grid"
                            % (lev, closed)), ncont
                d = bilinear(gx, gy, Z, cx, cy)
                border = ((cx == gx[0]) | (cx == gx[-1]) | (cy == gy[0])
                          | (cy == gy[-1]))
                inner = ~border
                if np.any(np.abs(d[inner] - lev * top) > tol):
                    j = int(np.argmax(np.abs(d[inner] - lev * top)))
                    return ("level %r closed=%r: vertex (%r, %r) has density"
                            " %r, the level is %r" % (
                                lev, closed, float(cx[inner][j]),
                                float(cy[inner][j]), float(d[inner][j]),
                                lev * top)), ncont
                is_closed = bool(np.all(cc[0] == cc[-1]))
                if closed:
                    if np.any(d[border] < lev * top - tol):
                        return ("level %r closed=True: border vertex below "
                                "the level" % lev), ncont
                    if not is_closed:
                        return ("level %r closed=True: contour is not a "
                                "closed curve" % lev), ncont
                elif not is_closed and not (border[0] and border[-1]):
                    return ("level %r closed=False: open contour ends "
                            "inside the grid" % lev), ncont
    return None, ncont


def quantile_record(X, Y, Z, xsel, ysel, a, b, normalize=False):
    """get_quantile_levels (array q, normalize as drawn) on a real KDE vs
    the exact linear-interpolation percentile (Model/C12.v:perc_lin) of the
    densities interpolated bilinearly at the events, as exact dyadic
    integers.  Returns a list of records (one per quantile)."""
    import numpy as np
    from dclab import kde_contours
    gx, gy = X[:, 0], Y[0, :]
    if gx.size < 2 or gy.size < 2 or not np.all(np.isfinite(Z)) or \
            not (np.all(np.diff(gx) > 0) and np.all(np.diff(gy) > 0)):
        return None
    good = np.isfinite(xsel) & np.isfinite(ysel)
    px, py = xsel[good], ysel[good]
    top = float(Z.max())
    if px.size == 0 or (normalize and not top > 0):
        return None
    for g, p in ((gx, px), (gy, py)):
        for edge in (g[0], g[-1]):
            # events one rounding step beside the border: skip the case
            if np.any((p != edge) & (np.abs(p - edge) <= 1e-9 * abs(edge))):
                return None
    try:
        levs = kde_contours.get_quantile_levels(
            Z, X, Y, xsel, ysel, q=[a / b, 0.5], normalize=normalize)
    except Exception:
        return None
    dp = bilinear(gx, gy, Z, px, py)
    fr = [fractions.Fraction(float(v)) for v in dp]
    den = max(f.denominator for f in fr)
    if den.bit_length() > 1100:
        return None
    ints = [int(f * den) for f in fr]
    scale = top if normalize else 1.0
    return [dict(a=aa, b=bb, ints=ints, shift=den.bit_length() - 1,
                 level=float(lv) * scale, top=float(np.max(np.abs(dp))))
            for (aa, bb), lv in zip([(a, b), (1, 2)], levs)]


def check_quantile(X, Y, Z, xsel, ysel, par, levels):
    import numpy as np
    gx, gy = X[:, 0], Y[0, :]
    if gx.size < 2 or gy.size < 2 or not np.all(np.isfinite(Z)) or \
            not (np.all(np.diff(gx) > 0) and np.all(np.diff(gy) > 0)):
        return None
    good = np.isfinite(xsel) & np.isfinite(ysel)
    px, py = xsel[good], ysel[good]
    if px.size == 0:
        return None
    dp = bilinear(gx, gy, Z, px, py)
    # events on the border of the grid: with a log scale the border is
    # exp(log(x)), one ulp beside x, so "inside" is a matter of rounding
    amb = 0
    for g, p in ((gx, px), (gy, py)):
        for edge in (g[0], g[-1]):
            amb += int(np.sum((p != edge) &
                              (np.abs(p - edge) <= 1e-9 * abs(edge))))
    top = float(Z.max())
    if par["normalize"]:
        dp = dp / top
        top = 1.0
    n = dp.size
    eps = 1e-9 * abs(top) + 1e-300
    for (a, b), lev in zip([par["q"], [1, 2]], np.atleast_1d(levels)):
        q = a / b
        below = int(np.sum(dp < lev - eps))
        notabove = int(np.sum(dp <= lev + eps))
        if below > q * n + (1 - q) + amb + 1e-9 or \
                notabove <= q * n - q - amb - 1e-9:
            return ("level %r for q=%d/%d: %d of %d events lie below it and "
                    "%d not above it" % (float(lev), a, b, below, n,
                                         notabove))
    return None


# --------------------------------------------------------------------------
# the metamorphic + differential oracle for one case (runs in a worker)
# --------------------------------------------------------------------------
def meta_worker(args):
    import warnings
    warnings.simplefilter("ignore")
    case, scratch = args
    import numpy as np
    try:
        dsA = build_filtered(case)
    except Exception as e:
        return dict(fails=["building the filtered dataset raised %r" % (e,)],
                    counts={}, nontrivial=False, m=0)
    n = case["n"]
    mask = np.array(dsA.filter.all, dtype=bool).copy()
    m = int(mask.sum())
    fails = []
    counts = {}
    flt = case["filt"]
    # the mask itself: "disabled" must select everything
    if flt["kind"] == "disabled" and m != n:
        fails.append("filtering disabled but filter.all selects %d of %d"
                     % (m, n))
    obsA = observe(dsA, case, scratch, "A")
    names = sorted(case["feats"])
    dataA = {k: dec(case["feats"][k]) for k in names}
    # (B) dataset of the selected events only
    if m > 0:
        try:
            dsB = build_from_arrays({k: v[mask] for k, v in dataA.items()},
                                    flow=case["par"].get("flow"))
            obsB = observe(dsB, case, scratch, "B")
            fails += compare_obs(obsA, obsB, "filtered", "restricted")
            counts["restricted-compared"] = 1
        except Exception as e:
            fails.append("restricted dataset: %r" % (e,))
    # (C) adversarial values on the excluded events, manual filter = mask
    if m < n and flt["kind"] != "disabled":
        adv = adversarial(case, dataA, mask)
        dsC = build_from_arrays(adv, mask=mask, flow=case["par"].get("flow"))
        if not np.array_equal(dsC.filter.all, mask):
            fails.append("manual filter not reproduced")
        obsC = observe(dsC, case, scratch, "C")
        fails += compare_obs(obsA, obsC, "filtered", "adversarial")
        counts["adversarial-compared"] = 1
    # definitions and reference estimators
    fails += check_statistics(case, obsA, mask)
    fails += check_tsv_down(case, obsA, mask)
    fails += check_stats_methods(case, obsA)
    fails += check_misc(case, obsA)
    sa = check_statistics_all(dsA, obsA, mask, flt["kind"] != "disabled")
    if isinstance(sa, tuple):
        fails += sa[0]
        counts["stat-features"] = sa[1]
    else:
        fails += sa
    rf, rc = check_reference(case, obsA, mask)
    fails += rf
    qreal = rc.pop("qreal", [])
    counts.update(rc)
    for ax in (case["par"]["xax"], case["par"]["yax"]):
        v = dataA[ax]
        with np.errstate(all="ignore"):
            if m and np.any(v[~mask] <= 0) and np.all(v[mask] > 0):
                counts["log:nonpositive-only-on-excluded"] = 1
            if np.any(v[mask] <= 0):
                counts["log:nonpositive-on-selected"] = 1
    for k, v in obsA.items():
        if k.endswith("/maskok") and v == ("ok", False):
            fails.append("%s: the returned mask does not identify the "
                         "returned points" % k[:-7])
        counts["entry:" + k.split("/")[0]] = \
            counts.get("entry:" + k.split("/")[0], 0) + 1
        if v[0] == "exc":
            counts["exc:" + v[1]] = counts.get("exc:" + v[1], 0) + 1
    return dict(fails=fails, counts=counts, nontrivial=(0 < m < n), m=m,
                qreal=qreal)


# --------------------------------------------------------------------------
# warm-cache pass: several filter states of ONE large dataset analysed in one
# process without clearing dclab's memo cache (dclab/cached.py) in between
# --------------------------------------------------------------------------
def gen_warm_case(rng):
    n = rng.choice([1200, 1500, 2000, 3000])
    w = rng.randint(30, 80)
    pop = rng.randint(200, n - 200 - w)          # a second population
    states = [[[pop, pop + w]]]                   # exclude it first ...
    for _ in range(rng.randint(1, 3)):
        a = rng.randint(10, n - 10 - w)
        st = [[a, a + w]]                         # ... same count elsewhere
        if rng.random() < .4:                     # ... or another count
            b = rng.randint(10, n - 40)
            st.append([b, b + rng.randint(1, 25)])
        states.append(st)
    rng.shuffle(states)
    return dict(kind="warm", n=n, seed=rng.randrange(1 << 30), pop=[pop, w],
                states=states, down=rng.choice([100, 300]),
                scales=rng.choice([["linear", "linear"], ["linear", "linear"],
                                   ["log", "linear"]]))


def warm_data(case):
    import random
    import numpy as np
    rng = random.Random(case["seed"])
    n = case["n"]
    x = np.array([rng.gauss(100, 10) for _ in range(n)])
    y = np.array([rng.gauss(0.1, 0.01) for _ in range(n)])
    p, w = case["pop"]
    x[p:p + w] = [rng.gauss(160, 2) for _ in range(w)]
    y[p:p + w] = [rng.gauss(0.16, 0.002) for _ in range(w)]
    # the extremes are the first and the last event (always selected): the
    # contour grid is the same for every filter state
    x[0], y[0] = 40.0, 0.04
    x[-1], y[-1] = 200.0, 0.2
    return x, y


def warm_analyses(ds, case):
    """the cached analysis entry points -> dict key -> guarded result"""
    import numpy as np
    xs, ys = case["scales"]
    px = np.linspace(60, 190, 14)
    py = np.linspace(0.06, 0.19, 14)
    out = {}
    for kt in ("histogram", "gauss", "multivariate"):
        kw = dict(xax="area_um", yax="deform", kde_type=kt, xscale=xs,
                  yscale=ys)
        out["scatter/" + kt] = guarded(lambda: ds.get_kde_scatter(**kw))
        out["scatterpos/" + kt] = guarded(lambda: ds.get_kde_scatter(
            positions=[px.copy(), py.copy()], **kw))
        out["contour/" + kt] = guarded(lambda: ds.get_kde_contour(
            xacc=(.2 if xs == "log" else 12), yacc=.012, **kw))
    out["down"] = guarded(lambda: ds.get_downsampled_scatter(
        xax="area_um", yax="deform", downsample=case["down"], xscale=xs,
        yscale=ys))
    # statistics, tsv and a quantile level of the large, non-dyadic sample
    from dclab import statistics, kde_contours
    out["stats_all"] = guarded(lambda: statistics.get_statistics(ds))
    out["tsv"] = guarded(lambda: tsv_rows(ds, ["area_um", "deform"],
                                          WARM_SCRATCH[0], "W"))
    c = out["contour/histogram"]
    if c[0] == "ok":
        out["quantile"] = guarded(lambda: kde_contours.get_quantile_levels(
            c[1][2], c[1][0], c[1][1], ds["area_um"][ds.filter.all],
            ds["deform"][ds.filter.all], q=[.1, .5, .95], normalize=False))
    return out, (px, py)


WARM_SCRATCH = ["/var/tmp"]


class ds_view:
    """the minimum check_statistics_all needs: scalar features by name"""

    def __init__(self, x, y, mask):
        import numpy as np
        self._d = {"area_um": x, "deform": y,
                   "index": np.arange(1, len(x) + 1)}
        self.features_scalar = ["area_um", "deform", "index"]
        self.config = {}

    def __getitem__(self, k):
        return self._d[k]

    def __contains__(self, k):
        return k in self._d


def warm_worker(args):
    import warnings
    warnings.simplefilter("ignore")
    case, scratch = args
    import numpy as np
    import dclab
    from dclab.cached import Cache
    x, y = warm_data(case)
    n = case["n"]
    WARM_SCRATCH[0] = scratch
    ds = dclab.new_dataset({"area_um": x, "deform": y})
    Cache.clear_cache()
    warm = []
    masks = []
    for st in case["states"]:
        ds.filter.manual[:] = True
        for a, b in st:
            ds.filter.manual[a:b] = False
        ds.apply_filter()
        mask = np.array(ds.filter.all, dtype=bool).copy()
        masks.append(mask)
        warm.append(warm_analyses(ds, case)[0])          # cache stays warm
    fails = []
    xs, ys = case["scales"]
    for k, (st, mask, ow) in enumerate(zip(case["states"], masks, warm)):
        # the same computation, freshly, on the selected events only
        Cache.clear_cache()
        dsr = dclab.new_dataset({"area_um": x[mask], "deform": y[mask]})
        dsr.apply_filter()
        of, (px, py) = warm_analyses(dsr, case)
        for f in compare_obs(ow, of, "filtered (state %d of a sequence, "
                             "cache not cleared)" % k,
                             "restricted (fresh cache)"):
            fails.append(f)
        # valid data: nothing may raise
        for kk, r in sorted(ow.items()):
            if r[0] != "ok":
                fails.append("state %d: %s raises %s on %d valid events" % (
                    k, kk, r[1], int(mask.sum())))
        # definitions on the large non-dyadic sample: statistics (exact
        # fractions), tsv rows, quantile levels
        sa = check_statistics_all(ds_view(x, y, mask), ow, mask, True)
        for f in (sa[0] if isinstance(sa, tuple) else sa):
            if "Index" not in f:
                fails.append("state %d: %s" % (k, f))
        if ow["tsv"][0] == "ok":
            want = ["%.10e\t%.10e" % (u, v) for u, v in zip(x[mask], y[mask])]
            if list(ow["tsv"][1]) != want:
                fails.append("state %d: tsv rows are not the selected events"
                             % k)
        cq, lq = ow.get("contour/histogram"), ow.get("quantile")
        if cq and lq and cq[0] == "ok" and lq[0] == "ok" and xs == "linear" \
                and ys == "linear":
            X, Y, Z = cq[1]
            dp = bilinear(X[:, 0], Y[0, :], Z, x[mask], y[mask])
            fr = sorted(fractions.Fraction(float(v)) for v in dp)
            for (a, b), lev in zip([(1, 10), (1, 2), (19, 20)], lq[1]):
                want = float(frac_percentile(fr, a, b))
                if not close(float(lev), want, 1e-9, 1e-9 * float(Z.max())):
                    fails.append("state %d: quantile level %r for q=%d/%d, "
                                 "percentile of the interpolated densities "
                                 "%r" % (k, float(lev), a, b, want))
        # reference estimator at the explicit positions
        ex, ey = sc(x[mask], xs), sc(y[mask], ys)
        ox, oy = sc(px, xs), sc(py, ys)
        for kt in ("histogram", "gauss", "multivariate"):
            r = ow["scatterpos/" + kt]
            if r[0] != "ok":
                fails.append("state %d scatterpos/%s raised %s" % (k, kt,
                                                                   r[1]))
                continue
            with np.errstate(all="ignore"):
                ref = ref_density(kt, ex, ey, ox, oy)
                peak = float(np.max(np.abs(ref_density(
                    kt, ex, ey, ex[::7], ey[::7]))))
            dd = dens_close(kt, r[1], ref, peak)
            if dd:
                fails.append("state %d (excluded %s) scatterpos/%s vs "
                             "reference on the selected events: %s" % (
                                 k, st, kt, dd))
    Cache.clear_cache()
    return dict(fails=fails, counts={"warm-states": len(case["states"])},
                nontrivial=True, m=int(masks[-1].sum()))


# --------------------------------------------------------------------------
# filter-history pass: ONE dataset object is re-filtered several times
# (manual changes, box filter set and removed, filtering disabled and
# enabled again); after every apply_filter() statistics, tsv, a contour and
# its quantile levels must be those of a fresh dataset of the selected events
# --------------------------------------------------------------------------
def gen_history_case(rng):
    n, feats = gen_dataset(rng, 40)
    while n < 5:
        n, feats = gen_dataset(rng, 40)
    names = sorted(feats)
    states = []
    for _ in range(rng.randint(2, 4)):
        st = dict(manual=[1 if rng.random() < rng.choice([.3, .7, .95])
                          else 0 for _ in range(n)],
                  enable=rng.random() < .8, box=None)
        if rng.random() < .4:
            nm = rng.choice(names)
            fin = sorted(k for t, k in feats[nm] if t == 0) or [0, 8]
            a, b = rng.choice(fin), rng.choice(fin)
            if a == b:
                b = a + 8
            st["box"] = [nm, min(a, b), max(a, b)]
        states.append(st)
    return dict(kind="history", n=n, feats=feats, states=states,
                par=gen_params(rng, n, feats))


def history_worker(args):
    import warnings
    warnings.simplefilter("ignore")
    case, scratch = args
    import numpy as np
    import dclab
    names = sorted(case["feats"])
    data = {k: dec(case["feats"][k]) for k in names}
    ds = dclab.new_dataset({k: v.copy() for k, v in data.items()})
    configure(ds, case["par"].get("flow"))
    fails = []
    for k, st in enumerate(case["states"]):
        ds.filter.manual[:] = np.array(st["manual"], dtype=bool)
        ds.config["filtering"]["enable filters"] = bool(st["enable"])
        for nm in names:
            # equal limits = no box filter on that feature
            a, b = (st["box"][1] / 8, st["box"][2] / 8) \
                if st["box"] and st["box"][0] == nm else (0.0, 0.0)
            ds.config["filtering"][nm + " min"] = a
            ds.config["filtering"][nm + " max"] = b
        ds.apply_filter()
        mask = np.array(ds.filter.all, dtype=bool).copy()
        # what the settings mean (box filters exclude NaN), independently
        want = np.ones(case["n"], dtype=bool)
        if st["enable"]:
            want &= np.array(st["manual"], dtype=bool)
            if st["box"]:
                v = data[st["box"][0]]
                with np.errstate(all="ignore"):
                    want &= (v >= st["box"][1] / 8) & (v <= st["box"][2] / 8)
        if not np.array_equal(mask, want):
            fails.append("state %d: filter.all selects %d events, the "
                         "settings select %d" % (k, mask.sum(), want.sum()))
            continue
        obs = observe(ds, case, scratch, "H", light=True)
        c2 = dict(case, filt=dict(kind="manual" if st["enable"]
                                  else "disabled"))
        for f in check_statistics(c2, obs, mask) + \
                check_tsv_down(c2, obs, mask) + check_stats_methods(c2, obs):
            fails.append("state %d: %s" % (k, f))
        sa = check_statistics_all(ds, obs, mask, st["enable"])
        for f in (sa[0] if isinstance(sa, tuple) else sa):
            fails.append("state %d: %s" % (k, f))
        if mask.any():
            dsr = build_from_arrays({kk: v[mask] for kk, v in data.items()},
                                    flow=case["par"].get("flow"))
            obr = observe(dsr, case, scratch, "HR", light=True)
            for f in compare_obs(obs, obr, "re-filtered (state %d)" % k,
                                 "restricted"):
                fails.append(f)
    return dict(fails=fails, counts={"history-states": len(case["states"])},
                nontrivial=True, m=0)


# --------------------------------------------------------------------------
# backend pass: the same selected events behind other dataset classes - an
# HDF5 file (features stored as float32) and a hierarchy child - must give
# the results of the plain dataset of the selected events
# --------------------------------------------------------------------------
def gen_backend_case(rng):
    n = rng.choice([12, 25, 50])
    # k/7: neither dyadic nor exactly representable in float32
    feats = {"area_um": [rng.randint(80, 2000) / 7 for _ in range(n)],
             "deform": [rng.randint(1, 400) / 7000 for _ in range(n)]}
    for k in feats:
        for i in range(n):
            if rng.random() < .08:
                feats[k][i] = None            # NaN
    mask = [1 if rng.random() < .7 else 0 for _ in range(n)]
    m = sum(mask)
    return dict(kind="backend", n=n, feats=feats, mask=mask,
                mask2=[1 if rng.random() < .8 else 0 for _ in range(m)],
                adv_seed=rng.randrange(1 << 30), down=rng.choice([0, 3, 7]))


def backend_observe(ds, case, scratch, tag):
    from dclab import statistics, kde_contours
    from dclab.cached import Cache
    Cache.clear_cache()
    obs = {}
    obs["stats"] = guarded(lambda: statistics.get_statistics(
        ds, features=["area_um", "deform"]))
    for kt in ("histogram", "gauss", "multivariate"):
        for xs in SCALES:
            obs["scatter/%s/%s" % (kt, xs)] = guarded(
                lambda: ds.get_kde_scatter(kde_type=kt, xscale=xs))
        obs["contour/%s" % kt] = guarded(
            lambda: ds.get_kde_contour(kde_type=kt))
    c = obs["contour/histogram"]
    if c[0] == "ok":
        obs["quantile"] = guarded(lambda: kde_contours.get_quantile_levels(
            c[1][2], c[1][0], c[1][1], ds["area_um"][ds.filter.all],
            ds["deform"][ds.filter.all], q=[.25, .5, .9]))
    obs["down"] = guarded(lambda: ds.get_downsampled_scatter(
        downsample=case["down"]))
    obs["tsv"] = guarded(lambda: tsv_rows(ds, ["area_um", "deform"], scratch,
                                          tag))
    return obs


def backend_worker(args):
    import warnings
    warnings.simplefilter("ignore")
    case, scratch = args
    import random
    import numpy as np
    import dclab
    from . import gen
    data = {k: np.array([np.nan if v is None else v for v in vals],
                        dtype=np.float64)
            for k, vals in case["feats"].items()}
    mask = np.array(case["mask"], dtype=bool)
    fails = []
    counts = {}
    if not mask.any():
        return dict(fails=[], counts={}, nontrivial=False, m=0)
    # what an HDF5 file stores: float32
    data32 = {k: v.astype(np.float32).astype(np.float64)
              for k, v in data.items()}

    def plain(d, sel):
        ds = dclab.new_dataset({k: v[sel] for k, v in d.items()})
        ds.apply_filter()
        return ds
    # adversarial values on the excluded events of the file
    adv = {k: v.astype(np.float32) for k, v in data.items()}
    arng = random.Random(case["adv_seed"])
    for k in adv:
        for i in np.where(~mask)[0]:
            adv[k][i] = arng.choice([np.nan, np.inf, -np.inf, 1e30, -1e30,
                                     0.0])
    path = os.path.join(scratch, "c12_backend_%d.rtdc" % os.getpid())
    gen.write_spec(path, dict(n=case["n"], features=adv,
                              meta=gen.base_meta()))
    variants = []
    h5 = dclab.new_dataset(path)
    h5.filter.manual[:] = mask
    h5.apply_filter()
    counts["backend:hdf5 dtype " + str(h5["area_um"][:].dtype)] = 1
    variants.append(("HDF5-backed (float32, adversarial excluded values)",
                     h5, plain(data32, mask)))
    par = dclab.new_dataset(data)
    par.filter.manual[:] = mask
    par.apply_filter()
    variants.append(("hierarchy child", dclab.new_dataset(par),
                     plain(data, mask)))
    # a child with a manual filter of its own
    mask2 = np.array(case.get("mask2", [1] * int(mask.sum())), dtype=bool)
    if mask2.any():
        child = dclab.new_dataset(par)
        child.filter.manual[:] = mask2
        child.apply_filter()
        sel2 = np.where(mask)[0][mask2]
        variants.append(("filtered hierarchy child", child,
                         plain(data, sel2)))
    for vi, (label, ds, ref) in enumerate(variants):
        oref = backend_observe(ref, case, scratch, "BR%d" % vi)
        ob = backend_observe(ds, case, scratch, "B%d" % vi)
        for k in sorted(oref):
            a, b = ob.get(k), oref[k]
            if a is None:
                fails.append("%s: missing for the %s dataset" % (k, label))
                continue
            if a[0] != b[0] or (a[0] == "exc" and a[1] != b[1]):
                fails.append("%s: %s dataset gives %s, plain dataset of the "
                             "selected events gives %s" % (k, label, short(a),
                                                           short(b)))
                continue
            if a[0] == "exc":
                continue
            if k == "stats":
                for h, u, v in zip(a[1][0], a[1][1], b[1][1]):
                    if h == "%-gated" or "Flow" in h:
                        continue
                    # float32 accumulation inside numpy: 1e-5
                    if not close(float(u), float(v), 1e-5, 0):
                        fails.append("%s dataset: %s = %r, plain dataset %r"
                                     % (label, h, float(u), float(v)))
                continue
            if k == "tsv":
                if list(a[1]) != list(b[1]):
                    fails.append("tsv: rows of the %s dataset differ from "
                                 "the rows of the plain dataset" % label)
                continue
            ra = a[1] if isinstance(a[1], (tuple, list)) else [a[1]]
            rb = b[1] if isinstance(b[1], (tuple, list)) else [b[1]]
            for u, v in zip(ra, rb):
                u = np.asarray(u, dtype=np.float64)
                v = np.asarray(v, dtype=np.float64)
                top = float(np.nanmax(np.abs(v))) if v.size and \
                    np.isfinite(v).any() else 0.0
                if u.shape != v.shape or not np.allclose(
                        u, v, rtol=1e-6, atol=1e-9 * top, equal_nan=True):
                    fails.append("%s: %s dataset differs from the plain "
                                 "dataset of the selected events (%s vs %s)"
                                 % (k, label, short(a), short(b)))
                    break
    try:
        h5.close() if hasattr(h5, "close") else None
        os.unlink(path)
    except OSError:
        pass
    return dict(fails=fails, counts=counts, nontrivial=bool(0 < mask.sum()
                                                          < case["n"]),
                m=int(mask.sum()))


# --------------------------------------------------------------------------
# integer-dtype pass: features and positions stored as integer arrays must
# give the results of the same values stored as float64
# --------------------------------------------------------------------------
INT_DTYPES = ["int64", "int32", "int16", "uint16", "uint8", "int8"]
SMALL_INT = ("int16", "uint16", "uint8", "int8")


def gen_dtype_case(rng):
    n = rng.choice([3, 5, 9, 20, 40, 80])
    xdt = rng.choice(INT_DTYPES)
    ydt = rng.choice(["float64", "float64", "float64"] + INT_DTYPES)
    pdt = rng.choice(INT_DTYPES)

    def vals(dt):
        hi = 120 if dt in ("int8", "uint8") else 900
        lo = 1 if (dt.startswith("u") or rng.random() < .7) else -20
        style = rng.choice(["spread", "spread", "ties"])
        if style == "ties":
            pool = [rng.randint(lo, hi) for _ in range(4)]
            return [rng.choice(pool) for _ in range(n)]
        return [rng.randint(lo, hi) for _ in range(n)]
    yv = vals(ydt) if ydt != "float64" else [rng.randint(1, 400) / 8
                                             for _ in range(n)]
    npos = rng.choice([1, 2, 3, 7])
    return dict(kind="dtype", n=n, xdt=xdt, ydt=ydt, pdt=pdt,
                xax=rng.choice(["area_um", "index", "frame"]),
                x=vals(xdt), y=yv,
                mask=[1 if rng.random() < .7 else 0 for _ in range(n)],
                px=[rng.randint(1, 120) for _ in range(npos)],
                py=[rng.randint(1, 120) for _ in range(npos)],
                down=rng.choice([0, 2, 5]))


def dtype_observe(ds, case, xax, pos):
    import numpy as np
    from dclab import kde_methods
    from dclab.cached import Cache
    Cache.clear_cache()
    obs = {}
    x = ds[xax][ds.filter.all]
    y = ds["deform"][ds.filter.all]
    for kt in ("histogram", "gauss", "multivariate"):
        # the estimator functions themselves
        fn = kde_methods.methods[kt]
        obs["fn/%s" % kt] = guarded(lambda: fn(x, y))
        obs["fnpos/%s" % kt] = guarded(lambda: fn(x, y, pos[0].copy(),
                                                  pos[1].copy()))
        for xs in SCALES:
            for ys in SCALES:
                key = "%s/%s/%s" % (kt, xs, ys)
                kw = dict(xax=xax, yax="deform", kde_type=kt, xscale=xs,
                          yscale=ys)
                obs["scatter/" + key] = guarded(
                    lambda: ds.get_kde_scatter(**kw))
                obs["scatterpos/" + key] = guarded(
                    lambda: ds.get_kde_scatter(
                        positions=[pos[0].copy(), pos[1].copy()], **kw))
                obs["contour/" + key] = guarded(
                    lambda: ds.get_kde_contour(**kw))
    for xs in SCALES:
        obs["down/" + xs] = guarded(lambda: ds.get_downsampled_scatter(
            xax=xax, yax="deform", downsample=case["down"], xscale=xs))
    from dclab import statistics
    obs["stats"] = guarded(lambda: statistics.get_statistics(
        ds, features=[xax, "deform"]))
    return obs


def dtype_worker(args):
    import warnings
    warnings.simplefilter("ignore")
    case, scratch = args
    import numpy as np
    import dclab
    xax = case["xax"]
    xi = np.array(case["x"], dtype=case["xdt"])
    yi = np.array(case["y"], dtype=case["ydt"])
    mask = np.array(case["mask"], dtype=bool)
    pos_i = [np.array(case["px"], dtype=case["pdt"]),
             np.array(case["py"], dtype=case["pdt"])]
    pos_f = [p.astype(np.float64) for p in pos_i]
    out = {}
    for tag, xa, ya, pos in (("int", xi, yi, pos_i),
                             ("float", xi.astype(np.float64),
                              yi.astype(np.float64), pos_f)):
        ds = dclab.new_dataset({xax: xa, "deform": ya})
        ds.filter.manual[:] = mask
        ds.apply_filter()
        out[tag] = dtype_observe(ds, case, xax, pos)
    fails = []
    small = case["xdt"] in SMALL_INT or case["ydt"] in SMALL_INT or \
        case["pdt"] in SMALL_INT
    for k in sorted(out["int"]):
        a, b = out["int"][k], out["float"][k]
        tag = "[8/16-bit integers] " if small else ""
        if a[0] != b[0] or (a[0] == "exc" and a[1] != b[1]):
            fails.append("%s%s: integer-typed data give %s, the same values "
                         "as float64 give %s" % (tag, k, short(a), short(b)))
            continue
        if a[0] == "exc":
            # valid data: statistics and downsampling must answer (listed
            # exception: C16-grid-constant-axis, IndexError)
            with np.errstate(all="ignore"):
                sel = (sc(xi[mask].astype(np.float64),
                          "log" if k.endswith("/log") else "linear"),
                       yi[mask].astype(np.float64))
            fin = np.isfinite(sel[0]) & np.isfinite(sel[1])
            const = fin.any() and (np.ptp(sel[0][fin]) == 0
                                   or np.ptp(sel[1][fin]) == 0)
            if k == "stats" or (k.startswith("down") and not (
                    a[1] == "IndexError" and const)):
                fails.append("%s raises %s on valid integer-valued data"
                             % (k, a[1]))
            continue
        if k == "stats":
            va, vb = a[1][1], b[1][1]
            for h, u, v in zip(a[1][0], va, vb):
                if not close(float(u), float(v), 1e-12, 0):
                    fails.append("statistic %r: %r for integer-typed data, "
                                 "%r for float64" % (h, float(u), float(v)))
            continue
        ra = a[1] if isinstance(a[1], (tuple, list)) else [a[1]]
        rb = b[1] if isinstance(b[1], (tuple, list)) else [b[1]]
        for u, v in zip(ra, rb):
            u, v = np.asarray(u), np.asarray(v)
            bad = None
            if u.shape != v.shape:
                bad = "shape %s vs %s" % (u.shape, v.shape)
            elif not k.startswith("down") and u.dtype.kind != "f":
                # a density is a real number: an integer array cannot hold it
                bad = "dtype %s for a density" % u.dtype
            else:
                uf, vf = u.astype(np.float64), v.astype(np.float64)
                top = float(np.nanmax(np.abs(vf))) if vf.size and \
                    np.isfinite(vf).any() else 0.0
                if not np.allclose(uf, vf, rtol=1e-9, atol=1e-12 * top,
                                   equal_nan=True):
                    with np.errstate(all="ignore"):
                        j = int(np.nanargmax(np.abs(uf - vf).ravel())) \
                            if np.isfinite(np.abs(uf - vf)).any() else 0
                    bad = "value %r vs %r" % (float(uf.ravel()[j]),
                                              float(vf.ravel()[j]))
            if bad:
                fails.append("%s%s: integer-typed (%s/%s, positions %s) vs "
                             "float64 data: %s" % (tag, k, case["xdt"],
                                                   case["ydt"], case["pdt"],
                                                   bad))
                break
    return dict(fails=fails, counts={}, nontrivial=bool(0 < mask.sum()
                                                        < case["n"]),
                m=int(mask.sum()))


# --------------------------------------------------------------------------
# correspondence: statistics
# --------------------------------------------------------------------------
def gen_stats_case(rng):
    n, feats = gen_dataset(rng, nmax=64, nfeat=2)
    kind = rng.choice(["manual", "manual", "manual", "disabled", "empty",
                       "none", "single"])
    if kind == "none":
        mask = [1] * n
    elif kind == "empty":
        mask = [0] * n
    elif kind == "single":
        mask = [0] * n
        if n:
            mask[rng.randrange(n)] = 1
    else:
        p = rng.choice([.2, .5, .8])
        mask = [1 if rng.random() < p else 0 for _ in range(n)]
    # adversarial (but exactly representable) values on excluded events
    if kind != "disabled":
        for nm in feats:
            for i in range(n):
                if not mask[i] and rng.random() < .7:
                    feats[nm][i] = rng.choice(
                        [[1, 0], [2, 0], [3, 0], [0, HUGE], [0, -HUGE]])
    return dict(kind="stats", n=n, feats=feats, enable=(kind != "disabled"),
                mask=mask)


def stats_impl(case):
    """returns (rendered Coq case, impl observation, skip flags)"""
    import numpy as np
    import dclab
    from dclab import statistics
    names = sorted(case["feats"])
    data = {k: dec(case["feats"][k]) for k in names}
    ds = dclab.new_dataset(data)
    ds.filter.manual[:] = np.array(case["mask"], dtype=bool)
    ds.config["filtering"]["enable filters"] = bool(case["enable"])
    ds.apply_filter()
    head, vals = statistics.get_statistics(ds, features=names)
    vals = [float(v) for v in vals]
    use = [bool(mk) or not case["enable"] for mk in case["mask"]]
    rend = []
    info = []
    for nm in names:
        ks = [k for (t, k), u in zip(case["feats"][nm], use) if t == 0 and u]
        bn, bd, tie = 0, 1, False
        d = None
        if ks:
            fr = sorted(fractions.Fraction(k, 8) for k in ks)
            iqr = frac_percentile(fr, 3, 4) - frac_percentile(fr, 1, 4)
            arr = np.array([k / 8 for k in ks])
            if iqr != 0:
                bs = 2 * float(iqr) / len(ks) ** (1 / 3)
                bn, bd = bs.as_integer_ratio()
                ratio = arr / bs
                tie = bool(np.any(np.abs(np.abs(ratio - np.floor(ratio))
                                         - .5) < 1e-9))
                d = (bs, arr)
            else:
                d = (0.0, arr)
        rend.append("(%s, %s, %s)" % (common.zlit(bn), common.zlit(bd),
                                      fvl(case["feats"][nm])))
        info.append((tie, d))
    coq = "(%s, %s, [%s])" % (common.blit(case["enable"]),
                              common.blist(case["mask"]), "; ".join(rend))
    return coq, (head, vals, info)


def stats_compare(model, impl):
    """model: flat list of (tag, num, den) triples; returns None when the
    implementation's values are the model's exact values"""
    head, vals, info = impl
    tr = [model[i:i + 3] for i in range(0, len(model), 3)]

    def val(t):
        return math.nan if t[0] == 0 else fractions.Fraction(t[1], t[2]) \
            if t[2] else math.nan
    # Events, %-gated
    ev, gated = tr[0], tr[1]
    if not close(vals[0], float(val(ev)) if ev[0] else math.nan):
        return "Events %r vs model %r" % (vals[0], ev)
    if not close(vals[1], float(val(gated)) if gated[0] else math.nan, 1e-12):
        return "%%-gated %r vs model %r" % (vals[1], gated)
    # vals[2] is the flow rate (configuration, not modelled)
    i, j = 3, 2
    for (tie, d) in info:
        mean, med, mode, sd = vals[i:i + 4]
        tm, tmed, tmode, tvar, tiqr = tr[j:j + 5]
        i += 4
        j += 5
        if tm[0] == 0:
            if not all(math.isnan(v) for v in (mean, med, mode, sd)):
                return "statistics of an empty selection are not NaN"
            if d is not None:
                return "model sees no data, implementation does"
            continue
        if d is None:
            return "model sees data, implementation has none"
        bs, arr = d
        scale = 1 + float(abs(arr).max())
        if not close(mean, tm[1] / tm[2], 1e-12, 1e-15 * scale):
            return "Mean %r vs model %s/%s" % (mean, tm[1], tm[2])
        if med != tmed[1] / tmed[2]:
            return "Median %r vs model %s/16" % (med, tmed[1])
        if tvar[1] < 0 or not close(sd, math.sqrt(fractions.Fraction(
                tvar[1], tvar[2])), 1e-9, 1e-9 * scale):
            return "SD %r vs model variance %s/%s" % (sd, tvar[1], tvar[2])
        import numpy as np
        iq = float(np.percentile(arr, 75) - np.percentile(arr, 25))
        if iq != tiqr[1] / tiqr[2]:
            return "np.percentile IQR %r vs model %s/32" % (iq, tiqr[1])
        if tmode[0] == 0:
            if not math.isnan(mode):
                return "Mode %r vs model NaN" % mode
        elif not tie:
            want = tmode[1] * bs + bs / 2
            if not close(mode, want, 1e-9, 1e-12 * scale):
                return "Mode %r vs model bin %s -> %r" % (mode, tmode[1],
                                                          want)
    return None


# --------------------------------------------------------------------------
# correspondence: get_kde_scatter with an exact stand-in estimator
# --------------------------------------------------------------------------
def fake_kde(events_x, events_y, xout=None, yout=None, unlog=(0, 0)):
    """mirrors Model/C12.v:fake_core"""
    import numpy as np
    if xout is None:
        xout, yout = events_x, events_y

    def k8(a, u):
        a = np.asarray(a, dtype=np.float64)
        return np.round(np.exp(a) * 8) if u else np.round(a * 8)
    ex, ey = k8(events_x, unlog[0]), k8(events_y, unlog[1])
    xo, yo = k8(xout, unlog[0]), k8(yout, unlog[1])
    base = 3 * np.sum(np.arange(1, ex.size + 1) * ex) + \
        5 * np.sum(np.arange(2, ey.size + 2) * ey) + 8 * ex.size
    return (base + 7 * xo + 11 * yo) / 8


def install_fake():
    from dclab import kde_methods
    if "veriffake" not in kde_methods.methods:
        kde_methods.methods["veriffake"] = kde_methods.ignore_nan_inf(fake_kde)


def gen_fake_case(rng):
    n = rng.choice([0, 1, 2, 3, 5, 8, 13, 30])
    positive = rng.random() < .6
    xs = inject(rng, gen_values(rng, n, "spread", positive), .15)
    ys = inject(rng, gen_values(rng, n, "spread", rng.random() < .6), .15)
    kind = rng.choice(["manual", "manual", "disabled", "empty", "none"])
    if kind == "none":
        mask = [1] * n
    elif kind == "empty":
        mask = [0] * n
    else:
        mask = [1 if rng.random() < .6 else 0 for _ in range(n)]
    if kind != "disabled":
        for arr in (xs, ys):
            for i in range(n):
                if not mask[i] and rng.random() < .7:
                    arr[i] = rng.choice([[1, 0], [2, 0], [3, 0], [0, HUGE],
                                         [0, -HUGE]])
    haspos = rng.random() < .5
    npos = rng.choice([0, 1, 4, 9]) if haspos else 0
    px = inject(rng, gen_values(rng, npos, "spread", rng.random() < .6), .2)
    py = inject(rng, gen_values(rng, npos, "spread", rng.random() < .6), .2)
    return dict(kind="fake", none=rng.random() < .15, n=n, xs=xs, ys=ys,
                mask=mask,
                enable=(kind != "disabled"), sx=rng.randint(0, 1),
                sy=rng.randint(0, 1), haspos=haspos, px=px, py=py)


def fake_impl(case):
    import numpy as np
    import dclab
    install_fake()
    ds = dclab.new_dataset(dict(area_um=dec(case["xs"]),
                                deform=dec(case["ys"])))
    ds.filter.manual[:] = np.array(case["mask"], dtype=bool)
    ds.config["filtering"]["enable filters"] = bool(case["enable"])
    ds.apply_filter()
    kw = dict(xax="area_um", yax="deform", kde_type="veriffake",
              xscale=SCALES[case["sx"]], yscale=SCALES[case["sy"]],
              kde_kwargs=dict(unlog=(case["sx"], case["sy"])))
    if case.get("none"):
        kw.update(kde_type="none", kde_kwargs=None)
    if case["haspos"]:
        kw["positions"] = [dec(case["px"]), dec(case["py"])]
    try:
        dens = ds.get_kde_scatter(**kw)
    except Exception as e:
        return ["exc", type(e).__name__]
    flat = []
    for v in np.asarray(dens, dtype=np.float64).ravel():
        if np.isnan(v):
            flat += [1, 0]
        elif np.isinf(v) or v * 8 != np.round(v * 8):
            flat += [7, 0]
        else:
            flat += [0, int(np.round(v * 8))]
    return flat


def fake_render(case):
    return "(%s, %s, %d, %d, %s, %s, %s, %s, %s, %s)" % (
        common.blit(case["enable"]), common.blist(case["mask"]), case["sx"],
        case["sy"], fvl(case["xs"]), fvl(case["ys"]),
        common.blit(case["haspos"]), fvl(case["px"]), fvl(case["py"]),
        common.blit(case.get("none", False)))


def enc_floats(arr):
    import numpy as np
    flat = []
    for v in np.asarray(arr, dtype=np.float64).ravel():
        if np.isnan(v):
            flat += [1, 0]
        elif v == np.inf:
            flat += [2, 0]
        elif v == -np.inf:
            flat += [3, 0]
        elif v * 8 != np.round(v * 8):
            flat += [7, 0]
        else:
            flat += [0, int(np.round(v * 8))]
    return flat


# --------------------------------------------------------------------------
# correspondence: get_kde_contour with the stand-in estimator (linear scale,
# explicit accuracies chosen so that the grid nodes are dyadic)
# --------------------------------------------------------------------------
def patch_everywhere(real, fake):
    """replace `real` by `fake` in every dclab module namespace that refers
    to it (also after `from x import y`); returns the undo list"""
    import sys
    undo = []
    for name, mod in list(sys.modules.items()):
        if not name.startswith("dclab") or mod is None:
            continue
        for attr, val in list(vars(mod).items()):
            if val is real:
                setattr(mod, attr, fake)
                undo.append((mod, attr))
    return undo


def unpatch(undo, real):
    for mod, attr in undo:
        setattr(mod, attr, real)


def gen_cfake_case(rng):
    n = rng.choice([2, 3, 5, 9, 20])
    kx, ky = rng.choice([2, 3, 4, 6]), rng.choice([2, 3, 5])
    ax, ay = rng.randint(-40, 200), rng.randint(-40, 200)
    stx, sty = rng.randint(1, 30), rng.randint(1, 30)
    bx, by = ax + (kx - 1) * stx, ay + (ky - 1) * sty
    xs = [[0, ax], [0, bx]] + [[0, rng.randint(ax, bx)] for _ in range(n - 2)]
    ys = [[0, ay], [0, by]] + [[0, rng.randint(ay, by)] for _ in range(n - 2)]
    mask = [1, 1] + [1 if rng.random() < .6 else 0 for _ in range(n - 2)]
    for i in range(2, n):
        r = rng.random()
        if not mask[i] and r < .7:
            # adversarial: would change the grid if it leaked
            xs[i] = rng.choice([[1, 0], [2, 0], [3, 0], [0, HUGE], [0, -HUGE]])
            ys[i] = rng.choice([[1, 0], [0, HUGE], [0, ay - 99]])
        elif mask[i] and r < .2:
            (xs if rng.random() < .5 else ys)[i] = rng.choice(
                [[1, 0], [2, 0], [3, 0]])
    kind = rng.choice(["manual", "manual", "manual", "empty", "disabled"])
    if kind == "empty":
        mask = [0] * n
    if kind == "disabled":
        for i in range(n):          # everything counts: keep it in range
            if xs[i][0] == 0:
                xs[i][1] = min(max(xs[i][1], ax), bx)
            if ys[i][0] == 0:
                ys[i][1] = min(max(ys[i][1], ay), by)
    # each accuracy: explicit, None or 0; the default spacing (stand-in for
    # bin_width_doane) yields kd nodes, so the range must be a multiple of
    # (kd - 1) node distances on an axis that falls back to it
    modes = [rng.choice(["k", "k", "none", "zero"]) for _ in range(2)]
    case = dict(kind="cfake", n=n, xs=xs, ys=ys, mask=mask, kx=kx, ky=ky,
                span=[bx - ax, by - ay], enable=(kind != "disabled"),
                none=rng.random() < .15, modes=modes, kd=0, sx=0, sy=0)
    # a log axis: positive end points, 2 nodes (exact in the encoding)
    if rng.random() < .4:
        for ax_i, (lo, hi, arr, key) in enumerate(
                ((ax, bx, xs, "kx"), (ay, by, ys, "ky"))):
            if lo > 0 and rng.random() < .7:
                case["sx" if ax_i == 0 else "sy"] = 1
                case[key] = 2
                case["modes"][ax_i] = "k"
                # selected values inside the range may also be non-positive
                # (log -> nan / -inf: purged), never beyond the end points
                for i in range(2, n):
                    if arr[i][0] == 0 and mask[i] and rng.random() < .2:
                        arr[i] = [0, rng.choice([0, -8, -lo])]
    if modes != ["k", "k"]:
        kd = rng.choice([2, 3, 4])
        ok = all(m == "k" or (sp % (kd - 1) == 0)
                 for m, sp in zip(modes, case["span"]))
        if ok:
            case["kd"] = kd
        else:
            case["modes"] = ["k", "k"]
    return case


def cfake_impl(case):
    import numpy as np
    import dclab
    install_fake()
    ds = dclab.new_dataset(dict(area_um=dec(case["xs"]),
                                deform=dec(case["ys"])))
    ds.filter.manual[:] = np.array(case["mask"], dtype=bool)
    ds.config["filtering"]["enable filters"] = bool(case["enable"])
    ds.apply_filter()
    lsx, lsy = case.get("sx", 0), case.get("sy", 0)
    kw = dict(xax="area_um", yax="deform", kde_type="veriffake",
              xscale=SCALES[lsx], yscale=SCALES[lsy],
              kde_kwargs=dict(unlog=(lsx, lsy)))
    modes = case.get("modes", ["k", "k"])
    xsv, ysv = dec(case["xs"]), dec(case["ys"])
    for name, mode, sp, k, lg, vals in (
            ("xacc", modes[0], case["span"][0], case["kx"], lsx, xsv[:2]),
            ("yacc", modes[1], case["span"][1], case["ky"], lsy, ysv[:2])):
        if mode == "k" and lg:
            # scaled units: the range of the logarithms
            kw[name] = float(np.log(vals[1]) - np.log(vals[0])) / (k - .5)
        elif mode == "k":
            kw[name] = sp / 8 / (k - .5)
        elif mode == "zero":
            kw[name] = 0
        # "none": the argument is not passed
    if case.get("none"):
        kw.update(kde_type="none", kde_kwargs=None)
    from dclab import kde_methods
    real = kde_methods.bin_width_doane
    kd = case.get("kd", 0)

    def fake_doane(a):
        """stand-in spacing: (finite) range / (kd - 1/2), times 5"""
        a = np.asarray(a, dtype=np.float64)
        a = a[np.isfinite(a)]
        return 5 * (a.max() - a.min()) / (kd - .5)
    undo = patch_everywhere(real, fake_doane) if kd else []
    try:
        X, Y, Z = ds.get_kde_contour(**kw)
    except Exception:
        return [1]
    finally:
        unpatch(undo, real)
    # nodes of a log axis come back as exp(log(k/8))
    X = np.round(X * 8) / 8 if lsx and np.allclose(
        X * 8, np.round(X * 8), rtol=1e-12, atol=0) else X
    Y = np.round(Y * 8) / 8 if lsy and np.allclose(
        Y * 8, np.round(Y * 8), rtol=1e-12, atol=0) else Y
    return [0, int(np.size(X))] + enc_floats(X) + enc_floats(Y) + \
        enc_floats(Z)


def cfake_render(case):
    modes = case.get("modes", ["k", "k"])

    def opt(mode, k):
        return {"k": "(Some %d)" % k, "zero": "(Some 0)",
                "none": "None"}[mode]
    return "(%s, %s, %d, %d, %s, %s, %s, %s, %d, %s)" % (
        common.blit(case["enable"]), common.blist(case["mask"]),
        case.get("sx", 0), case.get("sy", 0),
        fvl(case["xs"]), fvl(case["ys"]), opt(modes[0], case["kx"]),
        opt(modes[1], case["ky"]), case.get("kd", 0) or 2,
        common.blit(case.get("none", False)))


# --------------------------------------------------------------------------
# correspondence: get_downsampled_scatter(ret_mask=True) with a stand-in for
# downsample_grid
# --------------------------------------------------------------------------
DFAKE_UNLOG = [0, 0]     # scales of the current dfake call


def fake_downsample_grid(a, b, samples, remove_invalid=False, ret_idx=False):
    """mirrors Model/C12.v:dsgrid_fake"""
    import numpy as np
    a = np.asarray(a, dtype=np.float64)
    b = np.asarray(b, dtype=np.float64)
    fin = np.isfinite(a) & np.isfinite(b)
    idx = np.zeros(a.size, dtype=bool)
    with np.errstate(all="ignore"):
        ka = np.where(fin, a, 0)
        kb = np.where(fin, b, 0)
        ka = np.exp(ka) if DFAKE_UNLOG[0] else ka
        kb = np.exp(kb) if DFAKE_UNLOG[1] else kb
        k = np.round(ka * 8) + np.round(kb * 8) + int(samples)
    idx[fin] = (k[fin] % 2 == 0)
    idx[~fin] = not remove_invalid
    if ret_idx:
        return a[idx], b[idx], idx
    return a[idx], b[idx]


def gen_dfake_case(rng):
    n = rng.choice([0, 1, 2, 5, 9, 20])
    xs = inject(rng, gen_values(rng, n, "spread", False), .15)
    ys = inject(rng, gen_values(rng, n, "spread", False), .15)
    kind = rng.choice(["manual", "manual", "disabled", "empty", "none"])
    mask = [1] * n if kind == "none" else [0] * n if kind == "empty" else \
        [1 if rng.random() < .6 else 0 for _ in range(n)]
    if kind != "disabled":
        for arr in (xs, ys):
            for i in range(n):
                if not mask[i] and rng.random() < .7:
                    arr[i] = rng.choice([[1, 0], [2, 0], [3, 0], [0, HUGE],
                                         [0, -HUGE]])
    return dict(kind="dfake", n=n, xs=xs, ys=ys, mask=mask,
                sx=rng.choice([0, 0, 1]), sy=rng.choice([0, 0, 1]),
                enable=(kind != "disabled"),
                samples=rng.choice([0, 1, 2, 3, max(0, sum(mask) - 1),
                                    sum(mask), sum(mask) + 4, n + 7]),
                rm=rng.random() < .5)


def dfake_impl(case):
    import numpy as np
    import dclab
    from dclab.rtdc_dataset import core
    ds = dclab.new_dataset(dict(area_um=dec(case["xs"]),
                                deform=dec(case["ys"])))
    ds.filter.manual[:] = np.array(case["mask"], dtype=bool)
    ds.config["filtering"]["enable filters"] = bool(case["enable"])
    ds.apply_filter()
    real = core.downsampling.downsample_grid
    DFAKE_UNLOG[:] = [case.get("sx", 0), case.get("sy", 0)]
    undo = patch_everywhere(real, fake_downsample_grid)
    try:
        x, y, m = ds.get_downsampled_scatter(
            xax="area_um", yax="deform", downsample=case["samples"],
            xscale=SCALES[case.get("sx", 0)],
            yscale=SCALES[case.get("sy", 0)],
            remove_invalid=case["rm"], ret_mask=True)
    except Exception as e:
        return ["exc", type(e).__name__]
    finally:
        unpatch(undo, real)
    return [int(len(x))] + enc_floats(x) + enc_floats(y) + \
        [int(v) for v in m]


def dfake_render(case):
    return "(%s, %s, %d, %d, %s, %s, %d, %s)" % (
        common.blit(case["enable"]), common.blist(case["mask"]),
        case.get("sx", 0), case.get("sy", 0),
        fvl(case["xs"]), fvl(case["ys"]), case["samples"],
        common.blit(case["rm"]))


# --------------------------------------------------------------------------
# correspondence: percentile and quantile level
# --------------------------------------------------------------------------
def gen_perc_case(rng):
    n = rng.choice([1, 2, 3, 4, 5, 9, 16, 33])
    style = rng.choice(["spread", "ties", "const", "wide"])
    d = [k for _, k in gen_values(rng, n, style, rng.random() < .5)]
    b = rng.choice([1, 2, 4, 8, 16, 10, 20, 3, 100])
    a = rng.choice([0, b, rng.randint(0, b)])
    return dict(kind="perc", a=a, b=b, d=d)


def perc_compare(case, model):
    import numpy as np
    arr = np.array(case["d"], dtype=np.float64) / 8
    a, b = case["a"], case["b"]
    want = fractions.Fraction(model[0], 8 * b)
    scale = 1 + float(np.abs(arr).max())
    for fn in (np.percentile, np.nanpercentile):
        got = float(fn(arr, q=(a / b) * 100))
        if b in (1, 2, 4, 8, 16):
            if got != float(want):
                return "%s(q=%d/%d) = %r, model %r" % (
                    fn.__name__, a, b, got, float(want))
        elif not close(got, float(want), 1e-12, 1e-12 * scale):
            return "%s(q=%d/%d) = %r, model %r" % (
                fn.__name__, a, b, got, float(want))
    return None


def gen_quant_case(rng):
    n = rng.choice([1, 2, 3, 5, 8, 20])
    xlo = rng.randint(1, 40) * 8
    xhi = xlo + rng.randint(2, 40) * 8
    ylo = rng.randint(1, 40) * 8
    yhi = ylo + rng.randint(2, 40) * 8
    c = [rng.randint(0, 9), rng.randint(0, 5), rng.randint(0, 5)]
    if c == [0, 0, 0]:
        c[0] = 1

    def pts(lo, hi):
        out = []
        for _ in range(n):
            r = rng.random()
            if r < .7:
                out.append([0, rng.randint(lo, hi)])
            elif r < .85:
                out.append([0, rng.choice([lo - rng.randint(1, 30),
                                           hi + rng.randint(1, 30)])])
            else:
                out.append(rng.choice([[1, 0], [2, 0], [3, 0]]))
        return out
    b = rng.choice([2, 4, 8, 10, 20])
    return dict(kind="quant", a=rng.randint(0, b), b=b,
                c=c + [xlo, xhi, ylo, yhi], xp=pts(xlo, xhi),
                yp=pts(ylo, yhi), nx=rng.randint(2, 6), ny=rng.randint(2, 6))


def quant_impl(case):
    import numpy as np
    from dclab import kde_contours
    c0, c1, c2, xlo, xhi, ylo, yhi = case["c"]
    gx = np.linspace(xlo / 8, xhi / 8, case["nx"])
    gy = np.linspace(ylo / 8, yhi / 8, case["ny"])
    X, Y = np.meshgrid(gx, gy, indexing="ij")
    Z = c0 + c1 * X + c2 * Y
    try:
        lev = kde_contours.get_quantile_levels(
            Z, X, Y, dec(case["xp"]), dec(case["yp"]),
            q=case["a"] / case["b"], normalize=False)
    except Exception as e:
        return ("exc", type(e).__name__)
    return ("ok", float(lev))


def quant_render(case):
    return "(%d, %d, %s, %s, %s)" % (case["a"], case["b"],
                                     common.zlist(case["c"]),
                                     fvl(case["xp"]), fvl(case["yp"]))


def quant_compare(case, model, impl):
    P, cnt = model
    if cnt == 0:
        # no finite event: np.nanpercentile of an empty array
        return None if impl[0] == "exc" or math.isnan(impl[1]) else \
            "level %r without events" % (impl,)
    if impl[0] != "ok":
        return "implementation raised %s" % impl[1]
    want = P / (8 * case["b"])
    if not close(impl[1], want, 1e-9, 1e-9):
        return "level %r, model %r" % (impl[1], want)
    return None


# --------------------------------------------------------------------------
# correspondence: statsmodels _adjust_shape (positions of kde_multivariate)
# --------------------------------------------------------------------------
def gen_adjust_case(rng):
    r = rng.choice([0, 1, 2, 2, 2, 3, 4])
    c = rng.choice([0, 1, 2, 2, 2, 3, 5])
    return dict(kind="adjust", r=r, c=c,
                rows=[[rng.randint(-9, 9) for _ in range(c)]
                      for _ in range(r)])


def adjust_impl(case):
    import numpy as np
    from dclab.external.statsmodels.nonparametric._kernel_base import \
        _adjust_shape
    arr = np.array(case["rows"], dtype=np.float64).reshape(case["r"],
                                                          case["c"])
    try:
        out = _adjust_shape(arr, 2)
    except ValueError:
        return [1]
    return [0, int(out.shape[0])] + [int(v) for v in out.ravel()]


def adjust_render(case):
    return "(%d, %d, %s)" % (case["r"], case["c"], common.clist(
        [common.zlist(r) for r in case["rows"]]))


# --------------------------------------------------------------------------
def load_corpus():
    d = os.path.join(common.VERIF, "corpus", PROP)
    cases = []
    if os.path.isdir(d):
        for fn in sorted(os.listdir(d)):
            if fn.endswith(".json"):
                cases.append(json.load(open(os.path.join(d, fn)))["case"])
    return cases


FINDING_TWO_POS = "C12-multivariate-two-positions"


def classify(case, fails):
    """matcher of the known finding: every failure of the case is a
    multivariate-KDE density evaluated at exactly two (finite) positions that
    differs from the reference estimator"""
    if fails and all(f.startswith(TWO_POS) for f in fails):
        return FINDING_TWO_POS
    return None


def retry_dead(run, cases, results, worker=None):
    """cases whose worker process died (out-of-memory killer, crash in native
    code): once more in a fresh pool, then one process per case; a case that
    kills its own process again is an oracle failure"""
    worker = worker or meta_worker
    todo = [i for i, r in enumerate(results) if r is None]
    if not todo:
        return
    run.count("worker-died-retried", len(todo))
    with concurrent.futures.ProcessPoolExecutor(
            max_workers=common.NCPU) as ex:
        futs = {i: ex.submit(worker, (cases[i], run.scratch))
                for i in todo}
        for i, f in futs.items():
            try:
                results[i] = f.result()
            except Exception:
                results[i] = None
    for i in [i for i, r in enumerate(results) if r is None]:
        try:
            with concurrent.futures.ProcessPoolExecutor(max_workers=1) as ex:
                results[i] = ex.submit(worker,
                                       (cases[i], run.scratch)).result()
        except Exception as e:
            results[i] = dict(
                fails=["the process evaluating this case died twice (%s)"
                       % type(e).__name__], counts={}, nontrivial=False, m=0)


def meta_collect(run, cases, results):
    for c, r in zip(cases, results):
        run.record_case(c, r["nontrivial"], sample=False)
        run.count("filter:" + c["filt"]["kind"])
        run.count("n=%d" % c["n"])
        for k, v in r["counts"].items():
            run.count(k, v)
        if r["fails"]:
            desc = "; ".join(r["fails"][:4])
            if len(r["fails"]) > 4:
                desc += "; ... (%d in total)" % len(r["fails"])
            run.oracle_failure(c, desc, classify(c, r["fails"]))


def pre_build(run):
    """translator: Statistics.available_methods of the tree under test ->
    coq/Gen/StatMethods.v (fails closed)"""
    from .translators import stat_methods
    try:
        stat_methods.generate(common.REPO)
    except Exception:
        stat_methods.remove()
        raise


KNOWN_METHODS = ["Mean", "Median", "Mode", "SD", "Events", "%-gated",
                 "Flow rate"]


def registry_check(run):
    """the registry at run time is the one the translator listed and the
    oracle knows a definition for every method in it"""
    from dclab import statistics
    from .translators import stat_methods
    reg = [(k, bool(v.req_feature))
           for k, v in statistics.Statistics.available_methods.items()]
    src = [(n, r) for n, r, _ in stat_methods.inventory(common.REPO)[
        "methods"]]
    if reg != src:
        run.broken.append(("translator(C12)", "Statistics.available_methods "
                           "at run time %r differs from the registrations in "
                           "the source %r" % (reg, src)))
    unknown = [n for n, _ in reg if n not in KNOWN_METHODS]
    if unknown:
        run.broken.append(("method-inventory(C12)", "statistics methods "
                           "without a definition in the oracle: %r"
                           % unknown))
    run.count("registered-methods", len(reg))


def run(run):
    registry_check(run)
    corpus = load_corpus()
    run.count("corpus", len(corpus))
    n_meta, n_stats, n_fake, n_perc, n_quant = SIZES[
        "thorough" if run.thorough else "quick"]
    # one BLAS thread per worker process (inherited through the environment)
    for var in ("OMP_NUM_THREADS", "OPENBLAS_NUM_THREADS", "MKL_NUM_THREADS"):
        os.environ.setdefault(var, "1")

    # --- correspondence passes (model vs implementation) -------------------
    stats_cases = [c for c in corpus if c.get("kind") == "stats"]
    while len(stats_cases) < n_stats:
        stats_cases.append(gen_stats_case(run.rng))
    fake_cases = [c for c in corpus if c.get("kind") == "fake"]
    while len(fake_cases) < n_fake:
        fake_cases.append(gen_fake_case(run.rng))
    perc_cases = [c for c in corpus if c.get("kind") == "perc"]
    while len(perc_cases) < n_perc:
        perc_cases.append(gen_perc_case(run.rng))
    quant_cases = [c for c in corpus if c.get("kind") == "quant"]
    while len(quant_cases) < n_quant:
        quant_cases.append(gen_quant_case(run.rng))
    warm_cases = [c for c in corpus if c.get("kind") == "warm"]
    while len(warm_cases) < N_WARM["thorough" if run.thorough else "quick"]:
        warm_cases.append(gen_warm_case(run.rng))
    dtype_cases = [c for c in corpus if c.get("kind") == "dtype"]
    while len(dtype_cases) < N_DTYPE["thorough" if run.thorough
                                     else "quick"]:
        dtype_cases.append(gen_dtype_case(run.rng))
    hist_cases = [c for c in corpus if c.get("kind") == "history"]
    while len(hist_cases) < N_HIST["thorough" if run.thorough else "quick"]:
        hist_cases.append(gen_history_case(run.rng))
    meta_cases = [c for c in corpus if c.get("kind") == "meta"]
    while len(meta_cases) < n_meta:
        meta_cases.append(gen_meta_case(
            run.rng, 150 if run.thorough else 90,
            FILTER_KINDS[len(meta_cases) % len(FILTER_KINDS)]))

    # the slow oracle pass runs in worker processes (started before dclab is
    # imported here) while the correspondence passes are evaluated
    with concurrent.futures.ProcessPoolExecutor(
            max_workers=common.NCPU) as ex:
        wfuts = [ex.submit(warm_worker, (c, run.scratch))
                 for c in warm_cases]              # the long ones first
        futs = [ex.submit(meta_worker, (c, run.scratch)) for c in meta_cases]
        dfuts = [ex.submit(dtype_worker, (c, run.scratch))
                 for c in dtype_cases]
        hfuts = [ex.submit(history_worker, (c, run.scratch))
                 for c in hist_cases]
        back_cases = [c for c in corpus if c.get("kind") == "backend"]
        while len(back_cases) < N_BACKEND["thorough" if run.thorough
                                          else "quick"]:
            back_cases.append(gen_backend_case(run.rng))
        bfuts = [ex.submit(backend_worker, (c, run.scratch))
                 for c in back_cases]
        s_impl = [stats_impl(c) for c in stats_cases]
        f_impl = [fake_impl(c) for c in fake_cases]
        q_impl = [quant_impl(c) for c in quant_cases]
        s_model = common.coq_map(run.scratch, "c12s", HEADER, "stats_flat",
                                 [x[0] for x in s_impl], shard=40)
        f_model = common.coq_map(run.scratch, "c12f", HEADER, "scatter_flat",
                                 [fake_render(c) for c in fake_cases],
                                 shard=40)
        for kind, gen_c, impl_c, rend_c, fn in (
                ("cfake", gen_cfake_case, cfake_impl, cfake_render,
                 "contour_flat"),
                ("dfake", gen_dfake_case, dfake_impl, dfake_render,
                 "down_flat")):
            cs = [c for c in corpus if c.get("kind") == kind]
            while len(cs) < n_fake // 2:
                cs.append(gen_c(run.rng))
            ims = [impl_c(c) for c in cs]
            mods = common.coq_map(run.scratch, "c12" + kind, HEADER, fn,
                                  [rend_c(c) for c in cs], shard=40)
            for c, i, m in zip(cs, ims, mods):
                run.corr_checked += 1
                run.count("corr:" + kind)
                run.record_case(c, 0 < sum(c["mask"]) < c["n"], sample=False)
                if i != m:
                    run.mismatch(c, m, i)
        p_model = common.coq_map(
            run.scratch, "c12p", HEADER, "perc_flat",
            ["(%d, %d, %s)" % (c["a"], c["b"], common.zlist(c["d"]))
             for c in perc_cases], shard=60)
        q_model = common.coq_map(run.scratch, "c12q", HEADER, "quant_flat",
                                 [quant_render(c) for c in quant_cases],
                                 shard=40)
        a_cases = [gen_adjust_case(run.rng) for _ in range(n_perc)]
        a_model = common.coq_map(run.scratch, "c12a", HEADER, "adjust_flat",
                                 [adjust_render(c) for c in a_cases],
                                 shard=120)
        for c, m in zip(a_cases, a_model):
            run.corr_checked += 1
            run.count("corr:adjust-shape")
            run.record_case(c, c["r"] == 2 or c["c"] == 2, sample=False)
            i = adjust_impl(c)
            if i != m:
                run.mismatch(c, m, i)
        results = []
        for f in futs:
            try:
                results.append(f.result())
            except Exception:       # BrokenProcessPool: a worker died
                results.append(None)
        wres = []
        for f in wfuts:
            try:
                wres.append(f.result())
            except Exception:
                wres.append(None)
        dres = []
        for f in dfuts:
            try:
                dres.append(f.result())
            except Exception:
                dres.append(None)
        hres = []
        for f in hfuts:
            try:
                hres.append(f.result())
            except Exception:
                hres.append(None)
        bres = []
        for f in bfuts:
            try:
                bres.append(f.result())
            except Exception:
                bres.append(None)
    retry_dead(run, meta_cases, results)
    meta_collect(run, meta_cases, results)
    retry_dead(run, back_cases, bres, worker=backend_worker)
    for c, r in zip(back_cases, bres):
        run.record_case(c, r["nontrivial"], sample=False)
        run.count("backend-case")
        for k, v in r["counts"].items():
            run.count(k, v)
        if r["fails"]:
            run.oracle_failure(c, "; ".join(r["fails"][:4]), None)
    retry_dead(run, hist_cases, hres, worker=history_worker)
    for c, r in zip(hist_cases, hres):
        run.record_case(c, True, sample=False)
        run.count("history-case")
        run.count("history-states", r["counts"].get("history-states", 0))
        if r["fails"]:
            desc = "; ".join(r["fails"][:4])
            if len(r["fails"]) > 4:
                desc += "; ... (%d in total)" % len(r["fails"])
            run.oracle_failure(c, desc, None)
    retry_dead(run, dtype_cases, dres, worker=dtype_worker)
    for c, r in zip(dtype_cases, dres):
        run.record_case(c, r["nontrivial"], sample=False)
        run.count("dtype-case")
        run.count("dtype:x=%s" % c["xdt"])
        run.count("dtype:pos=%s" % c["pdt"])
        if r["fails"]:
            desc = "; ".join(r["fails"][:4])
            if len(r["fails"]) > 4:
                desc += "; ... (%d in total)" % len(r["fails"])
            run.oracle_failure(c, desc, classify(c, r["fails"]))
    # quantile levels of real KDEs vs the model's exact percentile
    qr_cases = []
    for c, r in zip(meta_cases, results):
        for rec in r.get("qreal", []):
            qr_cases.append((c, rec))
    qr_model = common.coq_map(
        run.scratch, "c12qr", HEADER, "perc_flat",
        ["(%d, %d, %s)" % (rec["a"], rec["b"], common.zlist(rec["ints"]))
         for _, rec in qr_cases], shard=25)
    for (c, rec), m in zip(qr_cases, qr_model):
        run.corr_checked += 1
        run.count("corr:quantile-real-kde")
        want = float(fractions.Fraction(m[0], rec["b"] << rec["shift"]))
        if not close(rec["level"], want, 1e-9, 1e-9 * rec["top"]):
            run.mismatch(dict(kind="meta-quantile", key=rec["key"], case=c),
                         want, rec["level"])
    retry_dead(run, warm_cases, wres, worker=warm_worker)
    for c, r in zip(warm_cases, wres):
        run.record_case(c, True, sample=False)
        run.count("warm-cache-case")
        run.count("warm-states", r["counts"].get("warm-states", 0))
        run.count("warm:n=%d" % c["n"])
        if r["fails"]:
            desc = "; ".join(r["fails"][:4])
            if len(r["fails"]) > 4:
                desc += "; ... (%d in total)" % len(r["fails"])
            run.oracle_failure(c, desc, None)

    for c, (coq, impl), m in zip(stats_cases, s_impl, s_model):
        run.corr_checked += 1
        run.count("corr:stats")
        sel = sum(c["mask"])
        run.record_case(c, 0 < sel < c["n"], sample=len(run.samples) < 1)
        d = stats_compare(m, impl)
        if d:
            run.mismatch(c, m, dict(header=impl[0], values=impl[1], why=d))
    for c, i, m in zip(fake_cases, f_impl, f_model):
        run.corr_checked += 1
        run.count("corr:fake-scatter")
        sel = sum(c["mask"])
        run.record_case(c, 0 < sel < c["n"], sample=len(run.samples) < 2)
        if i != m:
            run.mismatch(c, m, i)
    for c, m in zip(perc_cases, p_model):
        run.corr_checked += 1
        run.count("corr:percentile")
        run.record_case(c, len(set(c["d"])) > 1, sample=False)
        d = perc_compare(c, m)
        if d:
            run.mismatch(c, m, d)
    for c, i, m in zip(quant_cases, q_impl, q_model):
        run.corr_checked += 1
        run.count("corr:quantile-level")
        run.record_case(c, True, sample=len(run.samples) < 3)
        d = quant_compare(c, m, i)
        if d:
            run.mismatch(c, m, dict(impl=i, why=d))


# --------------------------------------------------------------------------
def check_case(case, scratch):
    """re-execute one case of any kind; list of failure descriptions"""
    kind = case.get("kind")
    if kind == "meta":
        return meta_worker((case, scratch))["fails"]
    if kind == "warm":
        return warm_worker((case, scratch))["fails"]
    if kind == "dtype":
        return dtype_worker((case, scratch))["fails"]
    if kind == "history":
        return history_worker((case, scratch))["fails"]
    if kind == "backend":
        return backend_worker((case, scratch))["fails"]
    if kind == "stats":
        coq, impl = stats_impl(case)
        m = common.coq_map(scratch, "c12rs", HEADER, "stats_flat", [coq])[0]
        d = stats_compare(m, impl)
        return [d] if d else []
    if kind == "fake":
        m = common.coq_map(scratch, "c12rf", HEADER, "scatter_flat",
                           [fake_render(case)])[0]
        i = fake_impl(case)
        return [] if m == i else ["model %r, implementation %r" % (m, i)]
    if kind == "perc":
        m = common.coq_map(scratch, "c12rp", HEADER, "perc_flat",
                           ["(%d, %d, %s)" % (case["a"], case["b"],
                                              common.zlist(case["d"]))])[0]
        d = perc_compare(case, m)
        return [d] if d else []
    if kind in ("cfake", "dfake"):
        impl_c, rend_c, fn = (cfake_impl, cfake_render, "contour_flat") \
            if kind == "cfake" else (dfake_impl, dfake_render, "down_flat")
        m = common.coq_map(scratch, "c12r" + kind, HEADER, fn,
                           [rend_c(case)])[0]
        i = impl_c(case)
        return [] if m == i else ["model %r, implementation %r" % (m, i)]
    if kind == "adjust":
        m = common.coq_map(scratch, "c12ra", HEADER, "adjust_flat",
                           [adjust_render(case)])[0]
        i = adjust_impl(case)
        return [] if m == i else ["model %r, implementation %r" % (m, i)]
    if kind == "quant":
        m = common.coq_map(scratch, "c12rq", HEADER, "quant_flat",
                           [quant_render(case)])[0]
        d = quant_compare(case, m, quant_impl(case))
        return [d] if d else []
    return ["unknown case kind %r" % kind]


def shrink(run, failure):
    """drop events, then features' special values, while the case fails"""
    case = failure["case"]
    if case.get("kind") != "meta":
        return failure

    def fails(c):
        try:
            return bool(meta_worker((c, run.scratch))["fails"])
        except Exception:
            return False

    def drop(c, idx):
        keep = [i for i in range(c["n"]) if i not in idx]
        c2 = json.loads(json.dumps(c))
        c2["n"] = len(keep)
        for k in c2["feats"]:
            c2["feats"][k] = [c["feats"][k][i] for i in keep]
        if "manual" in c2["filt"]:
            c2["filt"]["manual"] = [c["filt"]["manual"][i] for i in keep]
        return c2
    cur = case
    step = max(1, cur["n"] // 2)
    budget = 60
    while step >= 1 and budget > 0:
        i = 0
        while i < cur["n"] and budget > 0:
            cand = drop(cur, set(range(i, min(cur["n"], i + step))))
            budget -= 1
            if cand["n"] < cur["n"] and fails(cand):
                cur = cand
            else:
                i += step
        step //= 2
    r = meta_worker((cur, run.scratch))
    return dict(case=cur, desc="; ".join(r["fails"][:4]) or failure["desc"],
                finding=None)


def search(run, broken):
    """proof or correspondence broken and the oracle quiet: a larger sweep of
    the model-independent oracle"""
    cases = [gen_meta_case(run.rng, 150)
             for _ in range(3000 if run.thorough else 600)]
    args = [(c, run.scratch) for c in cases]
    with concurrent.futures.ProcessPoolExecutor(
            max_workers=common.NCPU) as ex:
        for c, r in zip(cases, ex.map(meta_worker, args, chunksize=4)):
            if r["fails"] and classify(c, r["fails"]) is None:
                return shrink(run, dict(case=c, desc="; ".join(r["fails"][:4])))
    return None


def replay(payload):
    import tempfile
    import warnings
    warnings.simplefilter("ignore")
    case = payload.get("case")
    if not case or "kind" not in case:
        print("replay: nothing executable in this file (kind=%s): %s" % (
            payload.get("kind"), json.dumps(payload.get("broken"))[:2000]))
        return 1
    scratch = tempfile.mkdtemp(prefix="verif-C12-replay-",
                               dir=os.environ.get("VERIF_SCRATCH", "/var/tmp"))
    try:
        fails = check_case(case, scratch)
    finally:
        import shutil
        shutil.rmtree(scratch, ignore_errors=True)
    print("case:", json.dumps(case)[:3000])
    if fails:
        for f in fails[:10]:
            print("FAILS:", f)
        return 1
    print("passes on the current tree")
    return 0
