"""C13 - the integrity checker accepts dclab's own output and flags real
inconsistencies.

Pieces
  * generator: recipes of datasets (scalar/fluorescence/image/mask/contour/
    trace/index/temp/ml_score features, complete and consistent metadata),
    written through every write path (RTDCWriter, ds.export.hdf5, CLI
    compress/repack/condense/join/split called in-process), then zero, one
    or two raw-h5py corruptions;
  * abstraction `abstract(h5)`: raw h5py -> the record of Model/C13.v
    (independent of dclab's reader);
  * implementation: IntegrityChecker(path).check(expand_section=False) and
    check_dataset(path); the violation cues are canonicalised to the integer
    triples of Model.C13.encode;
  * correspondence: multiset of triples, model (vm_compute) vs implementation;
    and the writer's metadata completion (rectify_metadata) vs Model.rectify;
  * exit status of dclab-verify-dataset (cli/task_verify_dataset.py, called
    in-process) vs Model.verify_exit; oracle: 0/1 without, 2/3 with violations;
  * property oracle (model independent): written files have no violations;
    each seeded corruption named in the property is reported; a file and its
    compressed / repacked copy get the same violations.
"""
import contextlib
import io
import json
import multiprocessing
import os
import random
import re
import shutil
import traceback

from . import common

PROP = "C13"
RULE = ("recipes of datasets (1..40 events; subsets of scalar, fl1..3_max, "
        "image/image_bg/mask, contour, traces, stored index, temp, ml_score "
        "features incl. feature sets whose alphabetically first member is "
        "'trace'; complete metadata) written through RTDCWriter, "
        "ds.export.hdf5 (feature subsets, filtered; for half of the "
        "export/split/join/append/condense cases writer.CHUNK_SIZE_BYTES is "
        "lowered to n-d chunks of 10 events and the event counts are "
        "k*10-1, k*10, k*10+1), dclab-compress/-repack/"
        "-condense/-join/-split, then 0, 1 or 2 raw-h5py corruptions "
        "(truncate/extend a feature, trace, contour or index; event count; "
        "ROI size incl. exchanged x/y and transposed images; unknown feature; "
        "delete mandatory keys or a section; non-enumerating index incl. "
        "interior duplicates/plateaus/fractional values that keep length, "
        "first, last and monotony, other dtypes; channel/laser/sample counts "
        "incl. one trace of another width, counts agreeing with each other "
        "but not the data, moved channel names; external link; "
        "non-positive set-up values; polygon shape; ml_score; temp); a case "
        "is non-trivial when the file could be checked and (for corrupted "
        "files) at least one violation was reported; distinct = different "
        "(recipe, path, corruptions)")
TRUSTED_BASE = [
    "abstraction function harness/c13.py:abstract (raw h5py -> model record)"
    " and the canonicaliser cue -> integer triple",
    "harness/translators/check_inventory.py (ast based reading of check.py)",
    "HDF5/h5py store and return what they are given",
    "exit status of dclab-verify-dataset: the number of alerts is taken from "
    "the implementation (alerts are not modelled)",
    "not modelled: alert/info cues, message texts, tdms/DCOR formats and "
    "tdms2rtdc, basins other than internal ones, basin rewriting of "
    "rtdc_copy, defective-feature detection of the reader, a group named "
    "mask, an empty contour group",
]
ASSUMPTIONS = [
    "guard of the abstraction: every member of /events is an HDF5 object "
    "of the kind of its feature (dataset; group for trace and contour, the "
    "latter not empty) and the groups of the file form a tree - otherwise "
    "the file is 'outside the model' (the checker may raise; counted, not "
    "compared)",
    "set-up values enter the rules only through their sign (<= 0, != 0): the "
    "abstraction rounds values that are no multiples of 1/64 away from zero "
    "and maps NaN/+inf to a positive number",
    "a missing image dimension is encoded as -1 (no ROI size is -1); a "
    "non-integer index value as -1",
    "feature names avoid those the reader may declare defective (aspect, "
    "time, volume, tilt, inert_ratio_*)",
    "derived files (export/split/join/condense) are compared without the "
    "data dependent flags of temp and ml_score features",
    "join inputs have identical feature sets and whole-second times (the "
    "C09 join defects are not in scope here)",
]

FINDING_FL = "C13-fl-checks-need-flmax"
FINDING_SUBSET = "C13-export-subset-channel-count"

SCALARS = ["area_um", "bright_avg", "deform", "pos_x", "size_x",
           "userdef1", "userdef2", "userdef3"]
TRACES = ["fl1_median", "fl1_raw", "fl2_median", "fl2_raw", "fl3_median",
          "fl3_raw"]
IMG_KINDS = ["image", "image_bg", "mask"]


def _quiet():
    return contextlib.redirect_stdout(io.StringIO())


# --------------------------------------------------------------------------
# recipes
# --------------------------------------------------------------------------
def base_meta(rec):
    h, w = rec["shape"]
    meta = {
        "experiment": {
            "date": "2024-03-%02d" % (5 + rec.get("day", 0)),
            "event count": 0,
            "run index": 1 + rec.get("day", 0),
            "sample": "verif sample",
            "time": "12:10:%02d" % (11 + rec.get("day", 0))},
        "imaging": {
            "flash device": "LED",
            "flash duration": 2.0,
            "frame rate": 2000.0,
            "pixel size": 0.375,
            "roi position x": 10,
            "roi position y": 20,
            "roi size x": w,
            "roi size y": h},
        "setup": {
            "channel width": 20.0,
            "chip region": "channel",
            "flow rate": 0.0625,
            "flow rate sample": 0.015625,
            "flow rate sheath": 0.046875,
            "identifier": "ZMDD-verif" if rec.get("zmd") else "verif-setup",
            "medium": "CellCarrierB",
            "module composition": "Cell_Flow_2, Fluor",
            "software version": "verifgen 1.0",
            "temperature": 23.0},
    }
    if rec.get("omit_roi") and (rec.get("image") or rec.get("mask")):
        # the writer completes the ROI size from image or mask
        del meta["imaging"]["roi size x"]
        del meta["imaging"]["roi size y"]
    if rec["fl"] or rec["traces"] or rec.get("flmeta"):
        fl = {
            "bit depth": 16,
            "channels installed": 3,
            "lasers installed": 3,
            "sample rate": 312500,
            "samples per event": rec["tlen"],
            "signal max": 1.0,
            "signal min": -1.0,
            "trace median": 0}
        for i in rec["fl"]:
            fl["channel %d name" % i] = "FL%d" % i
        if not (rec.get("omit_chcount") and rec["fl"]):
            fl["channel count"] = len(rec["fl"])
        nl = 0
        for i, power in rec["lasers"]:
            fl["laser %d lambda" % i] = [488.0, 561.0, 640.0][i - 1]
            fl["laser %d power" % i] = power / 64
            nl += power != 0
        fl["laser count"] = nl
        if rec.get("omit_spe") and rec["traces"]:
            del fl["samples per event"]
        meta["fluorescence"] = fl
    if rec.get("poly"):
        meta["online_filter"] = {
            rec.get("polykey", "area_um,deform") + " polygon points":
                [[0.0, 1.0], [2.0, 3.5], [4.0, 1.5], [1.0, 0.5]][:rec["poly"]]}
    # other values and types of keys the rules look at or pass over
    var = rec.get("metavar", 0)
    if var == 1:
        meta["imaging"]["frame rate"] = 3000
        meta["imaging"]["pixel size"] = 0.34
        meta["setup"]["channel width"] = 30
        meta["setup"]["flow rate"] = 0.16
        meta["setup"]["flow rate sample"] = 0.04
        meta["setup"]["flow rate sheath"] = 0.12
        meta["setup"]["medium"] = "water"
        meta["online_contour"] = {"bin kernel": 5, "no absdiff": True}
    elif var == 2:
        meta["imaging"]["frame rate"] = "2000"
        meta["setup"]["channel width"] = "20.0"
        meta["experiment"]["run index"] = "3"
        meta["setup"]["chip region"] = "reservoir"
        meta["user"] = {"verif key": 3}
    return meta


def gen_recipe(rng, small=False):
    n = rng.choice([1, 2, 3, 5, 8, 13] + ([] if small else [21, 40]))
    shape = [rng.randint(4, 7), rng.randint(4, 8)]
    if shape[0] == shape[1] and rng.random() < 0.8:
        shape[1] += 1          # mostly non-square images
    r = rng.random()
    scal = [s for s in SCALARS if rng.random() < 0.4]
    rec = dict(n=n, shape=shape, tlen=rng.choice([4, 7, 12]),
               seed=rng.randint(0, 10 ** 6), scalars=scal, fl=[], traces=[],
               lasers=[], image=False, image_bg=False, mask=False,
               contour=False, index=False, temp=None, ml=[], poly=0,
               zmd=rng.random() < 0.15)
    if rng.random() < 0.5:
        rec["fl"] = sorted(rng.sample([1, 2, 3], rng.randint(1, 3)))
    if rng.random() < 0.45:
        rec["traces"] = sorted(rng.sample(TRACES, rng.randint(1, 3)))
    if rng.random() < 0.15:
        rec["flmeta"] = True
    if rec["fl"] or rec["traces"] or rec.get("flmeta"):
        for i in sorted(rng.sample([1, 2, 3], rng.randint(0, 3))):
            rec["lasers"].append([i, rng.choice([0, 640, 640, 96, 1280])])
        rec["omit_chcount"] = rng.random() < 0.4
        rec["omit_spe"] = rng.random() < 0.4
    rec["image"] = rng.random() < 0.4
    rec["mask"] = rng.random() < 0.35
    rec["image_bg"] = rng.random() < 0.2
    rec["omit_roi"] = rng.random() < 0.4
    rec["contour"] = rng.random() < 0.25
    rec["index"] = rng.random() < 0.3
    if rng.random() < 0.15:
        rec["temp"] = rng.choice(["ok", "ok", "zero", "lead0"])
        if rec["temp"] == "zero" and rec["zmd"]:
            rec["temp"] = "ok"     # that would be a (correct) violation
        if rec["temp"] == "lead0":
            # ten leading zeros only: no violation, ZMD identifier or not
            rec["n"] = n = max(n, 13)
            rec["zmd"] = rng.random() < 0.7
    if rng.random() < 0.12:
        rec["ml"] = rng.sample(["ml_score_abc", "ml_score_xyz"],
                               rng.randint(1, 2))
    if rng.random() < 0.15:
        rec["poly"] = rng.choice([3, 4])
        rec["polykey"] = rng.choice(["area_um,deform", "size_x,pos_x",
                                     "deform,bright_avg", "fl1_max,area_um"])
    rec["metavar"] = rng.choice([0, 0, 0, 1, 2])
    if r < 0.12:
        # feature sets whose alphabetically first member is "trace"
        rec["scalars"] = [s for s in rec["scalars"] if s > "trace"] or \
            ["userdef2"]
        rec["traces"] = rec["traces"] or ["fl1_raw", "fl2_raw"]
        rec["fl"] = []
        rec["image"] = rec["image_bg"] = rec["mask"] = False
        rec["contour"] = rec["index"] = False
        rec["temp"] = None
        rec["ml"] = []
        rec.setdefault("omit_chcount", False)
        rec.setdefault("omit_spe", rng.random() < 0.4)
    if not (rec["scalars"] or rec["fl"] or rec["traces"] or rec["image"]
            or rec["mask"] or rec["contour"]):
        rec["scalars"] = ["deform"]
    return rec


def recipe_features(rec):
    import numpy as np
    rng = random.Random(rec["seed"])
    n = rec["n"]
    h, w = rec["shape"]
    feats = {}
    for s in rec["scalars"]:
        feats[s] = np.array([rng.randint(1, 400) / 8 for _ in range(n)])
    for i in rec["fl"]:
        feats["fl%d_max" % i] = np.array(
            [rng.randint(1, 3000) for _ in range(n)], dtype=float)
    for k in IMG_KINDS:
        if rec[k]:
            if k == "mask":
                # a filled rectangle away from the border (has a contour)
                m = np.zeros((n, h, w), dtype=bool)
                for e in range(n):
                    y1 = rng.randint(2, h - 2)
                    x1 = rng.randint(2, w - 2)
                    m[e, 1:y1 + 1, 1:x1 + 1] = True
                feats[k] = m
            else:
                feats[k] = np.array(
                    [[[rng.randint(1, 255) for _ in range(w)]
                      for _ in range(h)] for _ in range(n)], dtype=np.uint8)
    if rec["contour"]:
        feats["contour"] = [
            np.array([[rng.randint(0, 5), rng.randint(0, 5)]
                      for _ in range(rng.randint(3, 6))], dtype=np.int32)
            for _ in range(n)]
    if rec["traces"]:
        feats["trace"] = {
            t: np.array([[rng.randint(-200, 2000) for _ in range(rec["tlen"])]
                         for _ in range(n)], dtype=np.int16)
            for t in rec["traces"]}
    if rec["index"]:
        # the writer stores an enumeration whatever is passed
        feats["index"] = np.array([rng.randint(1, 99) for _ in range(n)])
    if rec["temp"]:
        feats["temp"] = np.zeros(n) if rec["temp"] == "zero" else \
            np.array([22 + rng.randint(0, 16) / 8 for _ in range(n)])
        if rec["temp"] == "lead0":
            feats["temp"][:10] = 0
    for m in rec["ml"]:
        feats[m] = np.array([rng.randint(0, 8) / 8 for _ in range(n)])
    return feats


def fslice(data, a, b):
    if isinstance(data, dict):
        return {k: v[a:b] for k, v in data.items()}
    return data[a:b]


def write_recipe(path, rec, pre_hook=None):
    """RTDCWriter; returns the abstraction just before the writer closes
    (i.e. before rectify_metadata) when pre_hook is given."""
    from dclab.rtdc_dataset.writer import RTDCWriter
    feats = recipe_features(rec)
    n = rec["n"]
    cut = rec.get("cut")
    bounds = [0, n] if not cut or cut >= n else [0, cut, n]
    pre = None
    with RTDCWriter(path, mode="reset") as hw:
        hw.store_metadata(base_meta(rec))
        for a, b in zip(bounds[:-1], bounds[1:]):
            for feat, data in feats.items():
                hw.store_feature(feat, fslice(data, a, b))
        hw.store_log("verif-log", ["line %d" % i for i in range(3)])
        if pre_hook:
            hw.h5file.flush()
            pre = pre_hook(hw.h5file)
    return pre


# --------------------------------------------------------------------------
# abstraction: raw h5py -> model record (as nested python lists)
# --------------------------------------------------------------------------
# IMPORTANT_KEYS followed by IMPORTANT_KEYS_FL in the order of
# Model.C13.model_important (the position is the key id of the model; the
# generated inventory is compared with it as a set in Proofs/C13_inventory.v)
IMPORTANT_TABLE = [
    ("experiment", "date"), ("experiment", "event count"),
    ("experiment", "run index"), ("experiment", "sample"),
    ("experiment", "time"),
    ("imaging", "flash device"), ("imaging", "flash duration"),
    ("imaging", "frame rate"), ("imaging", "pixel size"),
    ("imaging", "roi position x"), ("imaging", "roi position y"),
    ("imaging", "roi size x"), ("imaging", "roi size y"),
    ("setup", "channel width"), ("setup", "chip region"),
    ("setup", "flow rate"), ("setup", "medium"),
    ("fluorescence", "bit depth"), ("fluorescence", "channel count"),
    ("fluorescence", "channels installed"), ("fluorescence", "laser count"),
    ("fluorescence", "lasers installed"), ("fluorescence", "sample rate"),
    ("fluorescence", "samples per event"), ("fluorescence", "signal max"),
    ("fluorescence", "signal min"), ("fluorescence", "trace median")]


def important_table():
    return list(IMPORTANT_TABLE)


SPECIAL = {"experiment:event count": 0, "imaging:roi size x": 1,
           "imaging:roi size y": 2, "imaging:frame rate": 3,
           "imaging:pixel size": 4, "setup:channel width": 5,
           "setup:flow rate": 6, "fluorescence:channel count": 7,
           "fluorescence:laser count": 8,
           "fluorescence:samples per event": 9}
SCALED = (3, 4, 5, 6)
SECS = ["experiment", "imaging", "setup", "fluorescence"]
RANK_WIDTH = 20


def rank_of(name):
    """Order isomorphic integer code of a feature name (ASCII, compared like
    Python compares str): the same name has the same rank in every file."""
    b = name.encode("ascii")
    if len(b) > RANK_WIDTH or 0 in b:
        raise ValueError("feature name %r cannot be ranked" % name)
    return int.from_bytes(b.ljust(RANK_WIDTH, b"\0"), "big")


def x64(v):
    """A set-up value in 1/64; the rules only look at its sign (<= 0, != 0):
    values that are no multiples of 1/64 are rounded away from zero, NaN and
    +inf are mapped to a positive number, -inf to a negative one."""
    if isinstance(v, bytes):
        v = v.decode()
    v = float(v)
    if v != v or v == float("inf"):
        return 64 * 10 ** 6
    if v == float("-inf"):
        return -64 * 10 ** 6
    k = v * 64
    if k == int(k):
        return int(k)
    return int(k) + (1 if k > 0 else -1)


def intattr(v):
    if isinstance(v, bytes):
        v = v.decode()
    return int(float(v))


def resolvable(grp, key):
    """None for a link whose target does not exist (never raises)."""
    try:
        return grp.get(key)
    except Exception:
        return None


class OutsideModel(Exception):
    """The file has no abstraction: an object of the wrong HDF5 kind for its
    feature, or groups that do not form a tree (hard-link cycle)."""


def _addr(obj):
    import h5py
    return h5py.h5o.get_info(obj.id).addr


def tree_of(grp, seen=None):
    """The objects of a group as Coq term (Model.C13.h5obj); external links
    are not followed."""
    import h5py
    out = []
    seen = (seen or frozenset()) | {_addr(grp)}
    for key in grp:
        link = grp.get(key, getlink=True)
        if isinstance(link, h5py.ExternalLink):
            out.append("H5ExtLink")
            continue
        obj = resolvable(grp, key)
        if isinstance(obj, h5py.Dataset):
            out.append("H5Dataset %s %s" % (
                common.blit(bool(obj.is_virtual)),
                common.blit(bool(obj.external))))
        elif isinstance(obj, h5py.Group):
            if _addr(obj) in seen:
                raise OutsideModel("hard-link cycle at %s/%s" % (grp.name, key))
            out.append("H5Group %s" % tree_of(obj, seen))
        else:       # dangling soft link, named datatype: no data
            out.append("H5Group []")
    return "[" + "; ".join("(%s)" % o for o in out) + "]"


def dims(shape, k):
    """shape[k] or -1 for a missing dimension"""
    return int(shape[k]) if len(shape) > k else -1


def abstract(h5):
    """Returns (case, names) - case: nested lists for render(); names: the
    dictionaries needed to canonicalise the implementation's cues."""
    import h5py
    import numpy as np
    import dclab.definitions as dfn
    tab = important_table()
    sc = [[] for _ in range(15)]
    attrs = h5.attrs
    for name, pos in SPECIAL.items():
        if name in attrs:
            v = attrs[name]
            sc[pos] = [x64(v) if pos in SCALED else intattr(v)]
    plain = [i for i, (sec, k) in enumerate(tab)
             if "%s:%s" % (sec, k) not in SPECIAL
             and "%s:%s" % (sec, k) in attrs]
    imp_img = set(k for sec, k in tab if sec == "imaging")
    sc[12] = [int(any(a.startswith("imaging:") and a[8:] not in imp_img
                      for a in attrs))]
    ident = attrs.get("setup:identifier", "")
    if isinstance(ident, bytes):
        ident = ident.decode()
    sc[13] = [int("ZMD" in ident)]
    chnames = [i for i in (1, 2, 3)
               if "fluorescence:channel %d name" % i in attrs]
    lambdas = [i for i in (1, 2, 3)
               if "fluorescence:laser %d lambda" % i in attrs]
    powers = [[i, x64(attrs["fluorescence:laser %d power" % i])]
              for i in (1, 2, 3) if "fluorescence:laser %d power" % i in attrs]
    polykeys = sorted(a for a in attrs if a.startswith("online_filter:")
                      and a.endswith("polygon points"))
    polys = [(list(np.array(attrs[a]).shape) + [-1, -1])[:2]
             for a in polykeys]

    events = h5["events"] if "events" in h5 else {}
    names = sorted(events.keys())
    rank = {nm: rank_of(nm) for nm in names if dfn.feature_exists(nm)}
    feats, traces, unknown, uid = [], [], [], {}
    sc[10] = [rank_of("trace")]
    for nm in names:
        if not dfn.feature_exists(nm):
            uid[nm] = 0 if nm == "def" else len(uid) + 1
            unknown.append(uid[nm])
            continue
        obj = resolvable(events, nm)
        if obj is None:
            # a link without target is invisible to the reader
            continue
        r = rank[nm]
        is_group = isinstance(obj, h5py.Group)
        if is_group != (nm in ("trace", "contour")) or (
                nm == "contour" and len(obj) == 0):
            raise OutsideModel("feature %s stored as %s" % (
                nm, "group" if is_group else "dataset"))
        if nm == "trace":
            for t in obj:
                tr = resolvable(obj, t)
                if tr is not None:
                    if not isinstance(tr, h5py.Dataset):
                        raise OutsideModel("trace %s is a group" % t)
                    # samples of one event: trace[key][0].size
                    width = int(np.prod(tr.shape[1:])) if tr.ndim > 1 else -1
                    traces.append([TRACES.index(t), int(tr.shape[0]), width])
        elif nm in IMG_KINDS:
            feats.append([r, 1, IMG_KINDS.index(nm), int(obj.shape[0]),
                          dims(obj.shape, 1), dims(obj.shape, 2)])
        elif nm == "index":
            # a value that is not an integer equals no member of 1..n: -1
            feats.append([r, 2, 0, 0, 0] + [
                int(v) if float(v) == int(v) else -1 for v in obj[:]])
        elif re.match(r"^fl[123]_max$", nm):
            feats.append([r, 3, int(nm[2]), int(obj.shape[0])])
        elif nm == "temp":
            feats.append([r, 4, int(obj.shape[0]),
                          int(bool(np.allclose(obj[:], 0)))])
        elif nm == "ml_class":
            feats.append([r, 6, int(obj.shape[0])])
        elif nm.startswith("ml_score_"):
            v = obj[:]
            bad = False
            if v.size and not np.all(np.isnan(v)):
                bad = bool(np.nanmax(v) > 1 or np.nanmin(v) < 0)
            feats.append([r, 5, int(obj.shape[0]), int(bad)])
        else:
            feats.append([r, 0, int(len(obj))])
    basins = []
    bfeat = {}

    def bid(nm):
        return bfeat.setdefault(nm, len(bfeat))
    if "basins" in h5:
        for bk in h5["basins"]:
            lines = [ln.decode() if isinstance(ln, bytes) else ln
                     for ln in h5["basins"][bk][:]]
            bd = json.loads(" ".join(lines))
            if bd.get("type") == "internal":
                basins.append([int(bd.get("paths") == ["basin_events"])]
                              + [bid(f) for f in bd.get("features") or []])
    if "basin_events" in h5:
        sc[14] = [1] + [bid(f) for f in h5["basin_events"]]
    case = dict(sc=sc, feats=feats, traces=traces, unknown=unknown,
                plain=plain, chnames=chnames, lambdas=lambdas, powers=powers,
                polys=polys, basins=basins, tree=tree_of(h5))
    info = dict(rank=rank, uid=uid, polykeys=polykeys, bfeat=bfeat,
                tab=tab, has_flmax=any(f[1] == 3 for f in feats))
    return case, info


def zll(ll):
    return common.clist([common.zlist(x) for x in ll])


def render(c):
    return "((%s, %s, %s, %s, %s, %s, %s, %s, %s, %s, %s) : case)" % (
        zll(c["sc"]), zll(c["feats"]), zll(c["traces"]),
        common.zlist(c["unknown"]), common.zlist(c["plain"]),
        common.zlist(c["chnames"]), common.zlist(c["lambdas"]),
        zll(c["powers"]), zll(c["polys"]), zll(c["basins"]),
        c.get("tree", "[]"))


def flat_of(c, extlink=None):
    """The abstraction in the layout of Model.C13.file_flat."""
    sc = [list(x) for x in c["sc"]]
    if extlink is None:
        extlink = "H5ExtLink" in c["tree"] or "true" in c["tree"]
    sc[11] = [int(extlink)]
    return [sc, [list(f) for f in c["feats"]], [list(t) for t in c["traces"]],
            [list(c["unknown"])], [list(c["plain"])], [list(c["chnames"])],
            [list(c["lambdas"])], [list(p) for p in c["powers"]],
            [list(p) for p in c["polys"]], [list(b) for b in c["basins"]]]


HEADER = ("From Coq Require Import ZArith List.\nImport ListNotations.\n"
          "From Verif Require Import Model.C13.\n")


# --------------------------------------------------------------------------
# implementation: cues -> integer triples.  A cue is identified by the check
# method that raised it, its cfg_section/cfg_key and the feature, trace or
# key names that occur in its message - not by the wording of the message.
# --------------------------------------------------------------------------
def _mentions(msg, name):
    return re.search(r"(?<![\w/])%s(?![\w])" % re.escape(name), msg) is not None


def cue_id(method, cue, info):
    sec, key, msg = cue.cfg_section, cue.cfg_key, cue.msg
    tab = info["tab"]
    try:
        if method == "check_basin_features_internal":
            hit = [nm for nm in info["bfeat"] if _mentions(msg, nm)]
            return [1, 1, info["bfeat"][hit[0]]] if hit else [1, 0, 0]
        if method == "check_external_links":
            return [2, 0, 0]
        if method == "check_feat_index":
            return [3, 0, 0]
        if method == "check_ml_class":
            return [3, 1, 0]
        if method == "check_temperature_zero_zmd":
            return [3, 2, 0]
        if method == "check_feature_size":
            hit = [t for t in TRACES if ("trace/" + t) in msg]
            if hit:
                return [4, 1, TRACES.index(max(hit, key=len))]
            hit = [nm for nm in info["rank"] if _mentions(msg, nm)]
            return [4, 0, info["rank"][max(hit, key=len)]]
        if method == "check_features_unknown_hdf5":
            hit = [nm for nm in info["uid"] if _mentions(msg, nm)]
            return [5, info["uid"][max(hit, key=len)], 0]
        if method == "check_metadata_missing":
            if key is None:
                return [8, SECS.index(sec), 0]
            return [7, tab.index((sec, key)), 0]
        if method == "check_metadata_online_filter_polygon_points_shape":
            return [6, 100, info["polykeys"].index("online_filter:" + key)]
        if method in ("check_fl_num_channels", "check_fl_num_lasers",
                      "check_metadata_bad_greater_zero"):
            return [6, tab.index((sec, key)), 0]
        if method == "check_fl_samples_per_event":
            hit = [t for t in TRACES if _mentions(msg, t)]
            return [6, tab.index((sec, key)), TRACES.index(hit[0])]
        if method == "check_metadata_bad":
            hit = [k for k in IMG_KINDS if _mentions(msg, k)]
            return [6, tab.index((sec, key)), IMG_KINDS.index(hit[0])]
    except Exception:
        pass
    return [99, 0, 0]


def cues_by_method(ic):
    """The dispatch of IntegrityChecker.check, keeping the method names."""
    from dclab.rtdc_dataset.check import IntegrityChecker
    out = []
    funcs = IntegrityChecker.__dict__
    for ff in sorted(funcs.keys()):
        if not ff.startswith("check_") or not callable(funcs[ff]):
            continue
        if ff.startswith("check_fl_") and not ic.has_fluorescence:
            continue
        for cue in funcs[ff](ic, expand_section=False):
            out.append((ff, cue))
    return out


def run_impl(path):
    """Returns (sorted triples | [[-1,0,0]], violation messages | exception
    name, abstraction, info)."""
    import h5py
    import hdf5plugin  # noqa: F401
    from dclab.rtdc_dataset.check import IntegrityChecker, check_dataset
    try:
        with h5py.File(path, "r") as h5:
            case, info = abstract(h5)
    except OutsideModel as e:
        # no abstraction: the checker may raise (documented), nothing is
        # compared
        return [[-2, 0, 0]], "outside the model: %s" % e, None, dict(
            nalert=0, exit=cli_exit_status(path), has_flmax=False,
            outside=str(e))
    try:
        with IntegrityChecker(path) as ic:
            cues = ic.check(expand_section=False)
        with IntegrityChecker(path) as ic:
            tagged = cues_by_method(ic)
        ids = sorted(cue_id(m, c, info) for m, c in tagged
                     if c.level == "violation")
        msgs = sorted(c.msg for c in cues if c.level == "violation")
        viol, aler, _ = check_dataset(path)
        if list(viol) != msgs or msgs != sorted(
                c.msg for m, c in tagged if c.level == "violation"):
            # check_dataset, check() and the method-wise run disagree
            ids.append([98, 0, 0])
        info["nalert"] = len(aler)
    except BaseException as e:   # OldFormatNotSupportedError is one
        if isinstance(e, (KeyboardInterrupt, SystemExit)):
            raise
        ids = [[-1, 0, 0]]
        msgs = "%s: %s" % (e.__class__.__name__, str(e)[:200])
        info["nalert"] = 0
    info["exit"] = cli_exit_status(path)
    return ids, msgs, case, info


def cli_exit_status(path):
    """dclab-verify-dataset called in-process; its exit status."""
    import pathlib
    from dclab.cli import verify_dataset
    try:
        with _quiet():
            verify_dataset(path_in=pathlib.Path(path))
    except SystemExit as e:
        return int(e.code)
    return -2


# --------------------------------------------------------------------------
# corruptions (raw h5py); each returns the triples that must be reported
# (model independent statement of the property's second sentence), a list
# that may be empty when the corruption is not one the property names
# --------------------------------------------------------------------------
def _replace(grp, name, data):
    at = dict(grp[name].attrs)
    del grp[name]
    d = grp.create_dataset(name, data=data)
    for k, v in at.items():
        d.attrs[k] = v


def _resize(arr, k):
    import numpy as np
    if k <= arr.shape[0]:
        return arr[:k]
    reps = [arr[-1:]] * (k - arr.shape[0])
    return np.concatenate([arr] + reps)


# interior changes of an enumeration -> minimal number of events
INDEX_INTERIOR_MODES = {"dup_prev": 3, "dup_next": 3, "plateau2": 4,
                        "plateau3": 5, "plateau5": 7, "skip_catch": 5,
                        "frac": 3, "frac_dup": 3}


def index_interior(v, mode, pos):
    """v: an integer array; returns the changed array (same length, first and
    last value, monotone non-decreasing)."""
    import numpy as np
    n = len(v)
    v = np.array(v)
    if mode in ("frac", "frac_dup"):
        v = v.astype(np.float64)
    width = {"plateau2": 2, "plateau3": 3, "plateau5": 5}.get(mode, 1)
    lo, hi = 1, n - 1 - width           # first changed position: lo..hi
    if mode == "skip_catch":
        hi = n - 3
    i = min(hi, lo + pos * max(1, (hi - lo) // 2)) if hi >= lo else lo
    if mode == "dup_prev":
        v[i] = v[i - 1]
    elif mode == "dup_next":
        v[i] = v[i + 1]
    elif mode.startswith("plateau"):
        v[i:i + width] = v[i - 1]
    elif mode == "skip_catch":          # .., 7, 9, 10, 10, 11, ..
        v[i] = v[i] + 1
        v[i + 1] = v[i + 1] + 1
    elif mode == "frac":
        v[i] = v[i] - 0.5
    elif mode == "frac_dup":
        v[i] = v[i] + 0.25
    return v


# names that are NOT features of dclab (fixed here, independent of the tree
# under test), among them near-misses of the valid patterns ml_score_???,
# userdef0..9, basinmap0..9, fl1..3_max
UNKNOWN_NAMES = ("peter", "area_xyz", "userdef10", "ml_score_abcd",
                 "ml_score_abc_old", "ml_score_ab", "ml_score_ABC",
                 "basinmap10", "fl4_max")


def corruption_menu(h5, info):
    """Applicable corruption kinds for this file: list of (kind, params)."""
    import dclab.definitions as dfn
    ev = h5["events"]
    at = h5.attrs
    n = int(at.get("experiment:event count", 0))
    menu = []
    lens = sorted(set([0, 1, max(n - 1, 0), n + 1, n + 3]) - {n})
    for nm in ev:
        if not dfn.feature_exists(nm):
            continue
        if nm == "trace":
            for t in ev[nm]:
                menu += [("trace_len", dict(t=t, k=k)) for k in lens]
        elif nm == "contour":
            if n > 1:
                menu.append(("contour_drop", {}))
            if n > 2:
                menu.append(("contour_drop", dict(mode="interior")))
            menu.append(("contour_extra", {}))
        elif nm == "index":
            menu += [("index_len", dict(k=k)) for k in lens]
            menu.append(("index_values", dict(mode="shift")))
            if n > 1:
                menu.append(("index_values", dict(mode="swap")))
            # keep length, first and last value and monotony (every cheap
            # summary of an enumeration), change the interior
            menu += [("index_interior", dict(mode=m, pos=q))
                     for m in INDEX_INTERIOR_MODES for q in (0, 1, 2)
                     if n >= INDEX_INTERIOR_MODES[m]]
            menu += [("index_dtype", dict(dtype=d))
                     for d in ("uint8", "int16", "uint64", "float64")]
        else:
            menu += [("feat_len", dict(f=nm, k=k)) for k in lens]
    if "index" not in ev:
        menu.append(("index_add", dict(mode="zero")))
        menu.append(("index_add", dict(mode="ok")))
        menu += [("index_add", dict(mode=m, pos=q))
                 for m in INDEX_INTERIOR_MODES for q in (0, 1)
                 if n >= INDEX_INTERIOR_MODES[m]]
    menu += [("evcount", dict(v=v)) for v in (max(n - 1, 0), n + 1, n + 7)
             if v != n]
    for k in IMG_KINDS:
        if k in ev:
            menu += [("roi", dict(axis=a, d=d)) for a in "xy" for d in (-1, 2)]
            # sizes exchanged: sum, product, min and max are kept
            if "imaging:roi size x" in at and "imaging:roi size y" in at \
                    and at["imaging:roi size x"] != at["imaging:roi size y"]:
                menu.append(("roi_swap", {}))
            break
    for k in IMG_KINDS:
        if k not in ev and "imaging:roi size x" in at:
            menu.append(("img_add", dict(f=k, dh=1, dw=0)))
            menu.append(("img_add", dict(f=k, dh=0, dw=-1)))
            menu.append(("img_add", dict(f=k, dh=0, dw=0)))
            if "imaging:roi size y" in at and \
                    at["imaging:roi size x"] != at["imaging:roi size y"]:
                # transposed image
                d = int(at["imaging:roi size x"]) - int(
                    at["imaging:roi size y"])
                menu.append(("img_add", dict(f=k, dh=d, dw=-d)))
    menu += [("unknown", dict(name=nm)) for nm in ("def",) + UNKNOWN_NAMES]
    tab = info["tab"]
    for i, (sec, key) in enumerate(tab[:17]):
        if "%s:%s" % (sec, key) in at:
            menu.append(("del_key", dict(sec=sec, key=key)))
    for sec in ("imaging", "setup", "experiment"):
        menu.append(("del_section", dict(sec=sec)))
    if any(a.startswith("fluorescence:") for a in at):
        for sec, key in tab[17:]:
            if "%s:%s" % (sec, key) in at:
                menu.append(("del_key", dict(sec=sec, key=key)))
        menu.append(("del_section", dict(sec="fluorescence")))
        if "fluorescence:channel count" in at:
            menu += [("chcount", dict(d=d)) for d in (1, -1, 2)]
        for i in (1, 2, 3):
            if "fluorescence:channel %d name" % i in at:
                menu.append(("del_chname", dict(i=i)))
        if "fluorescence:laser count" in at:
            menu += [("lasercount", dict(d=d)) for d in (1, -1)]
            for i in (1, 2, 3):
                if "fluorescence:laser %d power" % i in at:
                    menu.append(("laser_power", dict(i=i)))
                    menu.append(("laser_del_lambda", dict(i=i)))
        if "fluorescence:samples per event" in at and "trace" in ev:
            menu += [("spe", dict(d=d)) for d in (1, -1, 5)]
            # only one of the traces has another number of samples
            for t in ev["trace"]:
                menu += [("trace_width", dict(t=t, d=d)) for d in (1, -1)]
        if "fluorescence:channel count" in at and \
                "fluorescence:laser count" in at:
            # counts that agree with each other, not with the data
            menu += [("counts_both", dict(v=v)) for v in (0, 1, 2, 3)]
        for i in (1, 2, 3):
            for j in (1, 2, 3):
                if "fluorescence:channel %d name" % i in at and \
                        "fluorescence:channel %d name" % j not in at:
                    # same number of names, other channel
                    menu.append(("chname_move", dict(i=i, j=j)))
    menu += [("extlink", dict(where=w)) for w in ("events", "logs", "root")]
    # external data of the other kinds: links without target, a link inside
    # events/trace, a virtual dataset, external raw storage
    menu += [("extlink_dangling", dict(where=w))
             for w in ("events", "logs", "root", "trace", "unknown")]
    menu += [("extlink_nested", {}), ("virtual", {}), ("extstorage", {})]
    for k in IMG_KINDS:
        if k in ev:
            menu += [("img_rank", dict(f=k, rank=r)) for r in (2, 4)]
    menu.append(("all_empty", {}))
    # invalid event counts
    menu += [("evcount", dict(v=v)) for v in (-1, -max(n, 2))]
    if "trace" in ev:
        for t in ev["trace"]:
            menu += [("trace_rank", dict(t=t, rank=r)) for r in (1, 3)]
    # files without abstraction (the checker may raise): wrong object kinds,
    # a cycle of hard links
    menu += [("outside", dict(mode=m)) for m in
             ("scalar_group", "trace_dataset", "mask_group", "link_cycle")]
    menu.append(("imaging_unknown_key", {}))
    menu += [("retype", dict(key=k, typ=t)) for k, t in (
        ("imaging:frame rate", "str"), ("experiment:event count", "float"),
        ("fluorescence:channel count", "str"), ("imaging:roi size x", "int16"),
        ("setup:flow rate", "float32"), ("fluorescence:laser count", "float"))
        if k in at]
    menu += [("setup_special", dict(sec=s_, key=k_, v=v))
             for s_, k_ in (("imaging", "pixel size"), ("setup", "flow rate"))
             for v in ("nan", "inf", "tiny")]
    menu += [("nonpos", dict(sec=s, key=k, v=v))
             for s, k in (("imaging", "frame rate"), ("imaging", "pixel size"),
                          ("setup", "channel width"), ("setup", "flow rate"))
             for v in (0, -96, -1)]
    menu += [("poly", dict(rows=r, cols=c)) for r, c in
             ((2, 2), (4, 3), (3, 2), (1, 1), (3, 1), (6, 1), (6, 0), (2, 3),
              (8, 2))]
    for m in ev:
        if m.startswith("ml_score_"):
            menu += [("ml_bad", dict(f=m, v=v)) for v in (2.0, -0.5)]
    if n > 10:
        menu.append(("temp_lead_zero", {}))
    if "temp" in ev:
        menu.append(("temp_zero", dict(zmd=True)))
        menu.append(("temp_zero", dict(zmd=False)))
    else:
        menu.append(("temp_add_zero", {}))
    menu.append(("ml_add", dict(v=1.5)))
    menu.append(("ml_add", dict(v=0.5)))
    menu += [("basin", dict(mode=m)) for m in
             ("ok", "nogroup", "missingfeat", "paths")]
    return menu


def apply_corruption(h5, kind, p, info, scratch):
    """A corruption that is not applicable to the current state of the file
    (replayed or shrunk cases: its object was removed by an earlier one) is
    a no-op without expectation."""
    try:
        return _apply_corruption(h5, kind, p, info, scratch)
    except (KeyError, IndexError):
        return []


def _apply_corruption(h5, kind, p, info, scratch):
    """Mutates the open file; returns the list of expected triples (computed
    from the state of the file *before* and the corruption only)."""
    import h5py
    import numpy as np
    ev = h5["events"]
    at = h5.attrs
    tab = info["tab"]
    n = at.get("experiment:event count")
    rank_after = None
    if kind == "feat_len":
        _replace(ev, p["f"], _resize(ev[p["f"]][:], p["k"]))
        return [[4, 0, ("rank", p["f"])]] if n is not None else []
    if kind == "trace_len":
        _replace(ev["trace"], p["t"], _resize(ev["trace"][p["t"]][:], p["k"]))
        return [[4, 1, TRACES.index(p["t"])]] if n is not None else []
    if kind == "contour_drop":
        keys = sorted(ev["contour"].keys(), key=int)
        if len(keys) < 2:
            return []
        # the last one, or one in the middle (the highest key stays)
        del ev["contour"][keys[-1] if p.get("mode") != "interior"
                          else keys[len(keys) // 2]]
        return [[4, 0, ("rank", "contour")]] if n is not None else []
    if kind == "contour_extra":
        keys = sorted(ev["contour"].keys(), key=int)
        new = str(int(keys[-1]) + 1) if keys else "0"
        ev["contour"].create_dataset(new, data=np.array(
            [[0, 0], [2, 0], [2, 2]], dtype=np.int32))
        return [[4, 0, ("rank", "contour")]] if n is not None else []
    if kind == "extlink_dangling":
        nowhere = os.path.join(scratch, "no-such-file-%s.h5" % p["where"])
        if p["where"] == "trace" and "trace" not in ev:
            return []
        grp, name = {
            "events": (ev, "userdef7"), "unknown": (ev, "nowhere"),
            "logs": (h5.require_group("logs"), "danglog"),
            "root": (h5, "dangling"),
            "trace": (ev.get("trace"), "fl3_median")}[p["where"]]
        if name in grp:
            return []
        grp[name] = h5py.ExternalLink(nowhere, "x")
        out = [[2, 0, 0]]
        if p["where"] == "unknown":
            out.append(("anycat", 5))
        return out
    if kind == "extlink_nested":
        if "trace" not in ev or "fl3_raw" in ev["trace"]:
            return []
        first = list(ev["trace"])[0]
        ext = os.path.join(scratch, "extn-%s.h5" % os.path.basename(
            h5.filename))
        with h5py.File(ext, "w") as e:
            e["x"] = ev["trace"][first][:]
        ev["trace"]["fl3_raw"] = h5py.ExternalLink(ext, "x")
        return [[2, 0, 0]]
    if kind == "virtual":
        if "userdef6" in ev:
            return []
        src = [nm for nm in ev if isinstance(ev[nm], h5py.Dataset)
               and ev[nm].ndim == 1 and not ev[nm].is_virtual]
        if not src:
            return []
        layout = h5py.VirtualLayout(shape=ev[src[0]].shape, dtype="f8")
        layout[:] = h5py.VirtualSource(ev[src[0]])
        ev.create_virtual_dataset("userdef6", layout)
        return [[2, 0, 0]]
    if kind == "extstorage":
        if "userdef5" in ev:
            return []
        nn = int(n) if n is not None else 3
        raw = os.path.join(scratch, "raw-%s.bin" % os.path.basename(
            h5.filename))
        with open(raw, "wb") as fd:
            fd.write(np.arange(max(nn, 1), dtype="f8").tobytes())
        ev.create_dataset("userdef5", shape=(nn,), dtype="f8",
                          external=[(raw, 0, 8 * max(nn, 1))])
        return [[2, 0, 0]]
    if kind == "img_rank":
        d = ev[p["f"]][:]
        if d.ndim != 3:
            return []
        d = d[:, :, 0] if p["rank"] == 2 else np.stack([d, d], axis=-1)
        _replace(ev, p["f"], d)
        if p["rank"] == 2 and "imaging:roi size x" in at \
                and "imaging:roi size y" in at:
            return [[6, tab.index(("imaging", "roi size x")),
                     IMG_KINDS.index(p["f"])]]
        return []
    if kind == "all_empty":
        # no event count and only empty features: the length is undefined
        if "experiment:event count" in at:
            del at["experiment:event count"]
        for nm in list(ev):
            obj = ev.get(nm)
            if isinstance(obj, h5py.Group) or obj is None:
                del ev[nm]
            else:
                _replace(ev, nm, obj[:0])
        if len(ev) == 0:
            ev.create_dataset("deform", data=np.zeros(0))
        return [("missing", 1)]
    if kind == "imaging_unknown_key":
        # a key of [imaging] that dclab does not know
        at["imaging:exposure time"] = 20.0
        return []
    if kind == "retype":
        v = at[p["key"]]
        if isinstance(v, (bytes, str, np.ndarray)):
            return []
        at[p["key"]] = {"str": lambda x: str(x),
                        "float": lambda x: np.float64(x),
                        "float32": lambda x: np.float32(x),
                        "int16": lambda x: np.int16(x)}[p["typ"]](v)
        return []
    if kind == "setup_special":
        at["%s:%s" % (p["sec"], p["key"])] = {
            "nan": np.nan, "inf": np.inf, "tiny": 1e-300}[p["v"]]
        # a positive / undefined value is not "non-positive"
        return [("absent", [6, tab.index((p["sec"], p["key"])), 0])]
    if kind == "temp_lead_zero":
        nn = int(n) if n is not None else 13
        if nn <= 10:
            return []
        v = np.concatenate([np.zeros(10), 22 + np.arange(nn - 10) / 8])
        if "temp" in ev:
            _replace(ev, "temp", v)
        else:
            ev.create_dataset("temp", data=v)
        at["setup:identifier"] = "ZMDD-x2"
        # ten leading zeros are not an all-zero temperature
        return [("absent", [3, 2, 0])]
    if kind == "index_len":
        _replace(ev, "index", _resize(ev["index"][:], p["k"]))
        return [[4, 0, ("rank", "index")], [3, 0, 0]] if n is not None else []
    if kind == "index_values":
        v = ev["index"][:]
        if p["mode"] == "shift":
            v = v + 1
        else:
            v[[0, -1]] = v[[-1, 0]]
        _replace(ev, "index", v)
        return [[3, 0, 0]]
    if kind == "index_interior":
        v = index_interior(ev["index"][:], p["mode"], p["pos"])
        _replace(ev, "index", v)
        bad = n is None or not np.array_equal(v, np.arange(1, int(n) + 1))
        return [[3, 0, 0]] if bad and n is not None else []
    if kind == "index_dtype":
        v = ev["index"][:]
        if p["dtype"] == "uint8" and len(v) and v.max() > 255:
            return []
        _replace(ev, "index", v.astype(p["dtype"]))
        return []
    if kind == "index_add":
        if "index" in ev:
            return []
        nn = int(n) if n is not None else 3
        if p["mode"] in INDEX_INTERIOR_MODES:
            if nn < INDEX_INTERIOR_MODES[p["mode"]]:
                return []
            v = index_interior(np.arange(1, nn + 1), p["mode"], p["pos"])
            ev.create_dataset("index", data=v)
            return [[3, 0, 0]]
        start = 1 if p["mode"] == "ok" else 0
        ev.create_dataset("index", data=np.arange(start, start + nn))
        return [[3, 0, 0]] if (start == 0 and nn > 0) else []
    if kind == "evcount":
        at["experiment:event count"] = p["v"]
        if p["v"] < 0:
            # an invalid count is reported as such
            return [[6, tab.index(("experiment", "event count")), 0]]
        # every stored feature now has a wrong length
        return [("anycat", 4)]
    if kind == "roi":
        key = "imaging:roi size %s" % p["axis"]
        if key not in at or ("imaging:roi size %s" %
                             ("y" if p["axis"] == "x" else "x")) not in at:
            return []
        at[key] = int(at[key]) + p["d"]
        k = tab.index(("imaging", "roi size %s" % p["axis"]))
        return [("anycatkey", 6, k)]
    if kind == "roi_swap":
        rx, ry = int(at["imaging:roi size x"]), int(at["imaging:roi size y"])
        at["imaging:roi size x"], at["imaging:roi size y"] = ry, rx
        if rx == ry:
            return []
        return [("anycatkey", 6, tab.index(("imaging", "roi size x"))),
                ("anycatkey", 6, tab.index(("imaging", "roi size y")))]
    if kind == "img_add":
        if p["f"] in ev or "imaging:roi size y" not in at \
                or "imaging:roi size x" not in at:
            return []
        nn = int(n) if n is not None else 3
        h = int(at["imaging:roi size y"]) + p["dh"]
        w = int(at["imaging:roi size x"]) + p["dw"]
        d = ev.create_dataset(p["f"], data=np.ones((nn, h, w), dtype=np.uint8))
        d.attrs.create('CLASS', np.bytes_('IMAGE'))
        d.attrs.create('IMAGE_VERSION', np.bytes_('1.2'))
        d.attrs.create('IMAGE_SUBCLASS', np.bytes_('IMAGE_GRAYSCALE'))
        out = []
        if p["dh"]:
            out.append([6, tab.index(("imaging", "roi size y")),
                        IMG_KINDS.index(p["f"])])
        if p["dw"]:
            out.append([6, tab.index(("imaging", "roi size x")),
                        IMG_KINDS.index(p["f"])])
        return out
    if kind == "unknown":
        if p["name"] in ev:
            return []
        nn = int(n) if n is not None else 3
        ev.create_dataset(p["name"], data=np.arange(nn, dtype=float))
        if p["name"] in UNKNOWN_NAMES:
            # not a feature name of dclab, whatever the tree under test says
            return [("anycat", 5)]
        return []
    if kind == "del_key":
        name = "%s:%s" % (p["sec"], p["key"])
        if name not in at:
            return []
        del at[name]
        k = tab.index((p["sec"], p["key"]))
        if p["sec"] == "fluorescence":
            return [("fl", [7, k, 0])]
        return [("missing", k)]
    if kind == "del_section":
        ks = [a for a in at if a.startswith(p["sec"] + ":")]
        for a in ks:
            del at[a]
        out = []
        for i, (sec, key) in enumerate(tab):
            if sec == p["sec"] and "%s:%s" % (sec, key) in ks:
                out.append(("fl", [7, i, 0]) if sec == "fluorescence"
                           else ("missing", i))
        return out
    if kind == "chcount":
        v = int(at["fluorescence:channel count"]) + p["d"]
        at["fluorescence:channel count"] = v
        found = sum(1 for i in (1, 2, 3)
                    if "fluorescence:channel %d name" % i in at
                    and "fl%d_max" % i in ev)
        return [("fl", [6, 18, 0])] if v != found else []
    if kind == "del_chname":
        del at["fluorescence:channel %d name" % p["i"]]
        if "fluorescence:channel count" in at and "fl%d_max" % p["i"] in ev:
            return [("fl", [6, 18, 0])]
        return []
    if kind == "lasercount":
        at["fluorescence:laser count"] = \
            int(at["fluorescence:laser count"]) + p["d"]
        return [("fl", [6, 20, 0])]
    if kind in ("laser_power", "laser_del_lambda"):
        i = p["i"]
        was = ("fluorescence:laser %d lambda" % i in at
               and at["fluorescence:laser %d power" % i] != 0)
        if kind == "laser_power":
            at["fluorescence:laser %d power" % i] = 0.0 if was else 10.0
            now = (not was) and "fluorescence:laser %d lambda" % i in at
        else:
            if "fluorescence:laser %d lambda" % i in at:
                del at["fluorescence:laser %d lambda" % i]
            now = False
        return [("fl", [6, 20, 0])] if was != now else []
    if kind == "trace_width":
        d = ev["trace"][p["t"]][:]
        spe = int(at["fluorescence:samples per event"])
        if p["d"] > 0:
            d = np.concatenate([d, d[:, :p["d"]]], axis=1)
        else:
            d = d[:, :d.shape[1] + p["d"]]
        if d.shape[1] < 1:
            return []
        _replace(ev["trace"], p["t"], d)
        if d.shape[0] == 0 or d.shape[1] == spe:
            return []
        return [("fl", [6, 23, TRACES.index(p["t"])])]
    if kind == "counts_both":
        at["fluorescence:channel count"] = p["v"]
        at["fluorescence:laser count"] = p["v"]
        chfound = sum(1 for i in (1, 2, 3)
                      if "fluorescence:channel %d name" % i in at
                      and "fl%d_max" % i in ev)
        lafound = sum(1 for i in (1, 2, 3)
                      if "fluorescence:laser %d lambda" % i in at
                      and "fluorescence:laser %d power" % i in at
                      and at["fluorescence:laser %d power" % i] != 0)
        out = []
        if p["v"] != chfound:
            out.append(("fl", [6, 18, 0]))
        if p["v"] != lafound:
            out.append(("fl", [6, 20, 0]))
        return out
    if kind == "chname_move":
        name = at["fluorescence:channel %d name" % p["i"]]
        del at["fluorescence:channel %d name" % p["i"]]
        at["fluorescence:channel %d name" % p["j"]] = name
        if "fluorescence:channel count" not in at:
            return []
        found = sum(1 for i in (1, 2, 3)
                    if "fluorescence:channel %d name" % i in at
                    and "fl%d_max" % i in ev)
        return [("fl", [6, 18, 0])] \
            if int(at["fluorescence:channel count"]) != found else []
    if kind == "spe":
        at["fluorescence:samples per event"] = \
            int(at["fluorescence:samples per event"]) + p["d"]
        return [("fl", [6, 23, TRACES.index(t)]) for t in ev["trace"]
                if ev["trace"][t].shape[0] > 0]
    if kind == "extlink":
        # one target file per place; a second corruption of the same place
        # (paired corruptions) is a no-op
        grp, name, target = {
            "events": (ev, "userdef9", "x"),
            "logs": (h5.require_group("logs"), "extlog", "log"),
            "root": (h5, "extra", "x")}[p["where"]]
        if name in grp:
            return []
        ext = os.path.join(scratch, "ext-%s-%s.h5" % (
            p["where"], os.path.basename(h5.filename)))
        with h5py.File(ext, "w") as e:
            e["x"] = np.arange(3, dtype=float)
            e.create_dataset("log", data=np.array([b"a line", b"another"]))
        grp[name] = h5py.ExternalLink(ext, target)
        return [[2, 0, 0]]
    if kind == "nonpos":
        at["%s:%s" % (p["sec"], p["key"])] = p["v"] / 64
        return [[6, tab.index((p["sec"], p["key"])), 0]]
    if kind == "trace_rank":
        d0 = ev["trace"][p["t"]][:]
        if d0.ndim != 2:
            return []
        d0 = d0[:, 0] if p["rank"] == 1 else np.stack([d0, d0], axis=-1)
        _replace(ev["trace"], p["t"], d0)
        if "fluorescence:samples per event" in at and d0.shape[0] > 0 \
                and p["rank"] == 3:
            # twice as many samples in every event
            return [("fl", [6, 23, TRACES.index(p["t"])])]
        return []
    if kind == "outside":
        nn = int(n) if n is not None else 3
        if p["mode"] == "scalar_group":
            if "userdef8" in ev:
                return []
            ev.create_group("userdef8").create_dataset("x", data=np.zeros(nn))
        elif p["mode"] == "trace_dataset":
            if "trace" in ev:
                del ev["trace"]
            ev.create_dataset("trace", data=np.zeros((nn, 4)))
        elif p["mode"] == "mask_group":
            if "mask" in ev:
                del ev["mask"]
            ev.create_group("mask")
        else:
            g = h5.require_group("logs")
            if "loop" not in g:
                g["loop"] = g          # hard link to an ancestor
        return []
    if kind == "poly":
        key = "online_filter:size_x,deform polygon points"
        if p["cols"] == 0:
            # one-dimensional
            at[key] = np.arange(p["rows"], dtype=float)
        else:
            at[key] = np.arange(p["rows"] * p["cols"], dtype=float).reshape(
                p["rows"], p["cols"])
        bad = p["cols"] != 2 or p["rows"] < 3
        return [("anycatkey", 6, 100)] if bad else []
    if kind == "ml_bad":
        v = ev[p["f"]][:]
        if len(v) == 0:
            return []
        v[len(v) // 2] = p["v"]
        _replace(ev, p["f"], v)
        # a stored ml_class (dclab-condense) is read, not recomputed
        return [[3, 1, 0]] if "ml_class" not in ev else []
    if kind == "ml_add":
        if "ml_score_vrf" in ev:
            return []
        nn = int(n) if n is not None else 3
        ev.create_dataset("ml_score_vrf", data=np.full(nn, p["v"]))
        return [[3, 1, 0]] if (p["v"] > 1 and "ml_class" not in ev) else []
    if kind in ("temp_zero", "temp_add_zero"):
        if kind == "temp_zero":
            _replace(ev, "temp", np.zeros(ev["temp"].shape[0]))
            zmd = p["zmd"]
        else:
            if "temp" in ev:
                return []
            nn = int(n) if n is not None else 3
            ev.create_dataset("temp", data=np.zeros(nn))
            zmd = True
        if zmd:
            at["setup:identifier"] = "ZMDD-x1"
        ident = at.get("setup:identifier", "")
        ident = ident.decode() if isinstance(ident, bytes) else ident
        return [[3, 2, 0]] if "ZMD" in ident else []
    if kind == "basin":
        if "basins" in h5 or "basin_events" in h5:
            return []
        nn = int(n) if n is not None else 3
        feats = ["userdef4", "userdef5"]
        bd = {"description": "verif", "format": "h5dataset",
              "name": "verif basin", "type": "internal",
              "features": feats, "mapping": "same",
              "paths": ["basin_events"] if p["mode"] != "paths"
              else ["somewhere"]}
        lines = json.dumps(bd, indent=2).split("\n")
        h5.require_group("basins").create_dataset(
            "verifbasin0001", data=np.array([ln.encode() for ln in lines]))
        if p["mode"] != "nogroup":
            g = h5.require_group("basin_events")
            g.create_dataset("userdef4", data=np.arange(nn, dtype=float))
            if p["mode"] != "missingfeat":
                g.create_dataset("userdef5", data=np.arange(nn, dtype=float))
        if p["mode"] == "nogroup":
            return [[1, 0, 0]]
        if p["mode"] == "missingfeat":
            return [("anycat", 1)]
        return []
    raise ValueError("unknown corruption %s" % kind)


def expectation_met(exp, ids, info, has_flmax):
    """exp: an expected triple or a tagged expectation; returns (met,
    finding id or None when the miss is a listed finding class)."""
    if isinstance(exp, tuple):
        tag = exp[0]
        if tag == "anycat":
            return any(i[0] == exp[1] for i in ids), None
        if tag == "anycatkey":
            return any(i[0] == exp[1] and i[1] == exp[2] for i in ids), None
        if tag == "absent":
            return list(exp[1]) not in ids, None
        if tag == "missing":
            k = exp[1]
            sec = SECS.index(info["tab"][k][0])
            return ([7, k, 0] in ids or [8, sec, 0] in ids), None
        if tag == "fl":
            if exp[1] in ids:
                return True, None
            return False, (None if has_flmax else FINDING_FL)
    exp = list(exp)
    if isinstance(exp[2], tuple):
        exp[2] = rank_of(exp[2][1])
    return exp in ids, None


# --------------------------------------------------------------------------
# write paths
# --------------------------------------------------------------------------
def make_path_file(case, d):
    """Creates the file of case["path"]; returns (path, provenance notes).
    With case["chunk_bytes"] the writer's chunk size is lowered (n-d chunks
    of 10 events), so that small event counts lie around its multiples."""
    from dclab.rtdc_dataset import writer as _writer
    saved = _writer.CHUNK_SIZE_BYTES
    try:
        if case.get("chunk_bytes"):
            _writer.CHUNK_SIZE_BYTES = int(case["chunk_bytes"])
        return _make_path_file(case, d)
    finally:
        _writer.CHUNK_SIZE_BYTES = saved


def _make_path_file(case, d):
    import dclab
    from dclab import cli
    rec = case["recipe"]
    kind = case["path"]
    src = os.path.join(d, "src.rtdc")
    pre = write_recipe(src, rec, pre_hook=lambda h: abstract(h)[0])
    out = os.path.join(d, "out.rtdc")
    extra = dict(pre=pre, src=src)
    if kind == "writer":
        return src, extra
    import h5py
    with h5py.File(src, "r") as h5:
        src_abs = abstract(h5)[0]
        src_names = [nm for nm in h5["events"]]

    import dclab.definitions as dfn
    src_feat_names = [nm for nm in src_names
                      if dfn.feature_exists(nm) and nm != "trace"]
    n_src = rec["n"]

    def derive(keep_names, keep_trace, n, extra_names=(), outpath=None):
        """parameters of Model.derive_model computed from the source and the
        request (not from the file that was produced); only for dclab-condense
        the added ancillary features are read from the output (`outpath`)"""
        keep = [rank_of(nm) for nm in keep_names if nm in src_feat_names]
        extra = []
        for nm in extra_names:
            if nm == "index":
                extra.append([rank_of(nm), 2, 0, 0, 0] + list(range(1, n + 1)))
            else:
                extra.append([rank_of(nm), 0, n])
        if outpath is not None:
            with h5py.File(outpath, "r") as h5:
                o_abs = abstract(h5)[0]
            have = set(keep) | set(e[0] for e in extra)
            extra += [f for f in o_abs["feats"] if f[0] not in have
                      and f[0] not in set(rank_of(x) for x in src_feat_names)]
        return dict(src=src_abs, keep=keep,
                    keep_trace=bool(keep_trace and "trace" in src_names),
                    extra=sorted(extra), n=n)
    if kind == "append":
        # a second writer session adds the remaining events and a feature
        from dclab.rtdc_dataset.writer import RTDCWriter
        import numpy as np
        rec1 = dict(rec, n=case["n1"])
        write_recipe(out, rec1)
        feats = recipe_features(rec)
        with RTDCWriter(out, mode="append") as hw:
            for feat, data in feats.items():
                hw.store_feature(feat, fslice(data, case["n1"], rec["n"]))
            hw.store_feature("userdef0", np.arange(rec["n"]) / 8)
            hw.h5file.flush()
            extra["pre"] = abstract(hw.h5file)[0]
        return out, extra
    if kind == "export":
        with dclab.new_dataset(src) as ds:
            feats = list(ds.features_innate)
            keep = [f for f, k in zip(feats, case["keep"] * 20) if k] or \
                feats[:1]
            if case.get("with_index") and "index" not in keep:
                keep.append("index")
            if case.get("drop"):
                ds.filter.manual[[i for i in case["drop"] if i < len(ds)]] \
                    = False
                ds.apply_filter()
            if not ds.filter.all.any():
                ds.filter.manual[0] = True
                ds.apply_filter()
            ds.export.hdf5(out, features=keep, filtered=bool(case.get("drop")),
                           basins=bool(case.get("basins")), override=True)
            extra["kept"] = keep
            nsel = int(ds.filter.all.sum()) if case.get("drop") else n_src
        ex = []
        if "index" in keep and "index" not in src_names:
            ex.append("index")
        if case.get("basins") and case.get("drop"):
            # the mapping of the exported events to the source (mapped basin)
            ex.append("basinmap0")
        extra["derive"] = derive(keep, "trace" in keep, nsel, ex)
        return out, extra
    with _quiet():
        if kind == "compress":
            cli.compress(path_in=src, path_out=out)
        elif kind == "repack":
            cli.repack(path_in=src, path_out=out,
                       strip_logs=bool(case.get("strip_logs")))
        elif kind == "condense":
            cli.condense(path_in=src, path_out=out)
        elif kind == "split":
            paths = cli.split(path_in=src, path_out=d,
                              split_events=case["split_events"],
                              skip_initial_empty_image=bool(
                                  case.get("skip_empty")),
                              skip_final_empty_image=bool(
                                  case.get("skip_empty")),
                              ret_out_paths=True)
            extra["all"] = [str(p) for p in paths]
            out = str(paths[case["pick"] % len(paths)])
        elif kind == "join":
            rec2 = dict(rec, day=1, seed=rec["seed"] + 1,
                        n=case.get("n2", rec["n"]))
            src2 = os.path.join(d, "src2.rtdc")
            write_recipe(src2, rec2)
            cli.join(paths_in=[src, src2], path_out=out)
        else:
            raise ValueError(kind)
    if kind == "split":
        se = case["split_events"]
        idx = case["pick"] % len(paths)
        extra["derive"] = derive(src_feat_names, True,
                                 min(se, n_src - idx * se), ["basinmap0"])
    elif kind == "join":
        extra["derive"] = derive(src_feat_names, True,
                                 n_src + case.get("n2", n_src))
    elif kind == "condense":
        extra["derive"] = derive(
            [nm for nm in src_feat_names if dfn.scalar_feature_exists(nm)],
            False, n_src, outpath=out)
    return out, extra


def gen_case(rng, k):
    rec = gen_recipe(rng)
    if rng.random() < 0.3:
        rec["cut"] = rng.randint(1, max(1, rec["n"] - 1))
    kinds = ["writer", "writer", "append", "export", "export", "compress",
             "repack", "condense", "split", "join"]
    case = dict(recipe=rec, path=kinds[k % len(kinds)] if k < 40
                else rng.choice(kinds), corruptions=[],
                cseed=rng.randint(0, 10 ** 9))
    if case["path"] == "export":
        case["keep"] = [rng.random() < 0.6 for _ in range(8)]
        case["with_index"] = rng.random() < 0.3
        if rng.random() < 0.5:
            case["drop"] = sorted(set(rng.randint(0, rec["n"] - 1)
                                      for _ in range(rng.randint(1, 3))))
    if case["path"] == "repack":
        case["strip_logs"] = rng.random() < 0.5
    if case["path"] == "append":
        if rec["n"] < 2:
            rec["n"] = 2
        case["n1"] = rng.randint(1, rec["n"] - 1)
        rec.pop("cut", None)
    if case["path"] == "export":
        case["basins"] = rng.random() < 0.3
    if case["path"] == "split":
        case["skip_empty"] = rng.random() < 0.5
    if case["path"] == "split":
        case["split_events"] = rng.randint(1, max(1, rec["n"]))
        case["pick"] = rng.randint(0, 5)
    if case["path"] == "join":
        case["n2"] = rng.choice([1, 2, 5])
    if case["path"] in ("export", "split", "join", "append", "condense") \
            and rng.random() < 0.5:
        # event counts around multiples of the (lowered) n-d chunk size of
        # 10: k*10-1, k*10, k*10+1 events are written by the filtered export
        case["chunk_bytes"] = rng.choice([64, 256])
        target = rng.choice([9, 10, 11, 19, 20, 21, 31])
        if not (rec["image"] or rec["mask"] or rec["traces"]):
            rec["image"] = True
        if case["path"] == "export":
            extra_n = rng.randint(1, 2)
            rec["n"] = target + extra_n
            case["drop"] = sorted(rng.sample(range(rec["n"]), extra_n))
        elif case["path"] == "split":
            case["split_events"] = target
            rec["n"] = target * rng.randint(1, 2) + rng.choice([0, 1, 9, 11])
            case["skip_empty"] = False
        elif case["path"] == "join":
            rec["n"] = target
            case["n2"] = rng.choice([1, 9, 10, 11])
        elif case["path"] == "append":
            rec["n"] = target + rng.choice([1, 10, 11])
            case["n1"] = target
        else:
            rec["n"] = target
        rec.pop("cut", None)
        if rec.get("temp") == "lead0":
            rec["temp"] = "ok"
    if rec.get("temp") == "lead0" and case["path"] in ("split", "export"):
        # a part / selection may hold only the leading zeros: that is a
        # (correct) violation for a ZMD setup
        rec["zmd"] = False
    r = rng.random()
    case["ncorr"] = 0 if r < 0.25 else (1 if r < 0.7 else 2)
    r = rng.random()
    case["copycheck"] = "compress" if r < 0.25 else (
        "repack" if r < 0.5 else None)
    return case


def eval_case(args):
    """Worker: builds the file, corrupts it, runs the checker. Returns a list
    of records (dicts)."""
    case, base = args
    import h5py
    import hdf5plugin  # noqa: F401
    import warnings
    warnings.simplefilter("ignore")
    d = os.path.join(base, "c%08x" % (hash(json.dumps(case, sort_keys=True))
                                      & 0xffffffff))
    os.makedirs(d, exist_ok=True)
    recs = []
    try:
        try:
            path, extra = make_path_file(case, d)
        except BaseException as e:
            return [dict(kind="build-error", case=case,
                         error="%s: %s" % (e.__class__.__name__,
                                           str(e)[:300]),
                         tb=traceback.format_exc()[-1500:])]
        # --- clean file: first sentence of the property
        ids, msgs, cabs, info = run_impl(path)
        if extra.get("kept"):
            case = dict(case, kept_names=list(extra["kept"]))
        rec = dict(kind="clean", case=dict(case, corruptions=[]),
                   abs=render(cabs), ids=ids, fails=[], nontrivial=True,
                   path_kind=case["path"], exit=info["exit"],
                   nalert=info["nalert"])
        if not ids and info["exit"] not in (0, 1):
            rec["fails"].append(dict(
                desc="dclab-verify-dataset exits with %d for a file without "
                     "violations" % info["exit"], finding=None, tag="exit"))
        if ids:
            kept = extra.get("kept")
            fid = None
            if case["path"] == "export" and ids == [[6, 18, 0]] and any(
                    "fl%d_max" % i not in kept for i in case["recipe"]["fl"]):
                # a fluorescence channel was left out of the export, the
                # channel count of the source is kept
                fid = FINDING_SUBSET
            rec["fails"].append(dict(
                desc="file written by %s is reported with violations: %s" %
                     (case["path"], msgs), finding=fid, tag="clean"))
        if case["path"] in ("writer", "append") and \
                extra.get("pre") is not None:
            # writer's metadata completion vs Model.rectify
            sc = cabs["sc"]

            def o(x):
                return [1, x[0]] if x else [0, 0]
            rec["writer"] = dict(abs=render(extra["pre"]),
                                 impl=flat_of(cabs), n=case["recipe"]["n"])
        if extra.get("derive"):
            # export / split / join / condense: the file as predicted by
            # Model.derive_model from the abstraction of the source
            dv = extra["derive"]
            rec["tie"] = dict(
                fn="run_derive_flat", what="derive:" + case["path"],
                arg="((%s, %s, %s) : derive_arg)" % (render(dv["src"]), zll(
                    [dv["keep"], [int(dv["keep_trace"])], [dv["n"]]]),
                    zll(dv["extra"])),
                impl=flat_of(cabs))
        recs.append(rec)
        # --- corruptions: second sentence
        ncorr = case.get("ncorr", 0)
        cur = path
        if case.get("corruptions") or ncorr:
            crng = random.Random(case["cseed"])
            cpath = os.path.join(d, "corrupt.rtdc")
            shutil.copy(path, cpath)
            applied = []
            expected = []
            fixed_list = case.get("corruptions") or None
            steps = len(fixed_list) if fixed_list else ncorr
            for s in range(steps):
                with h5py.File(cpath, "a") as h5:
                    try:
                        _, inf0 = abstract(h5)
                    except OutsideModel:
                        break
                    if fixed_list:
                        kind, p = fixed_list[s]
                    else:
                        menu = corruption_menu(h5, inf0)
                        # pick a family first, then a member: all cue
                        # families are exercised equally
                        fam = sorted(set(m[0] for m in menu))
                        kf = crng.choice(fam)
                        kind, p = crng.choice([m for m in menu
                                               if m[0] == kf])
                    exp = apply_corruption(h5, kind, p, inf0, d)
                    applied.append([kind, p])
                    expected.append((s, kind, exp))
            ids2, msgs2, cabs2, info2 = run_impl(cpath)
            if ids2 == [[-2, 0, 0]]:
                # no abstraction (wrong object kind, link cycle): documented
                # as outside the property; only counted
                recs.append(dict(kind="outside", what=info2["outside"],
                                 exit=info2["exit"],
                                 case=dict(case, corruptions=applied)))
                return recs
            crec = dict(kind="corrupt", case=dict(case, corruptions=applied,
                                                  ncorr=len(applied)),
                        abs=render(cabs2), ids=ids2, fails=[],
                        nontrivial=bool(ids2) and ids2 != [[-1, 0, 0]],
                        path_kind=case["path"], exit=info2["exit"],
                        nalert=info2["nalert"],
                        corr_kinds=[a[0] for a in applied])
            if ids2 and ids2 != [[-1, 0, 0]] and info2["exit"] not in (2, 3):
                crec["fails"].append(dict(
                    desc="dclab-verify-dataset exits with %d although "
                         "violations are reported: %s" % (info2["exit"],
                                                          msgs2),
                    finding=None, tag="exit"))
            if ids2 == [[-1, 0, 0]]:
                crec["fails"].append(dict(
                    desc="the checker raises instead of reporting after "
                         "%s: %s" % (applied, msgs2), finding=None,
                    tag="raises"))
            else:
                # an expectation of step s stays valid when a later step did
                # not touch the same object; only independent pairs are
                # generated for the oracle (else the expectation is dropped)
                for s, kind, exp in expected:
                    others = applied[:s] + applied[s + 1:]
                    if others and not (
                            independent(applied[s], others) and
                            all(independent(o, [applied[s]])
                                for o in others)):
                        continue
                    for e in exp:
                        met, fid = expectation_met(e, ids2, info2,
                                                   info2["has_flmax"])
                        if not met:
                            crec["fails"].append(dict(
                                desc="seeded corruption %s %s is not "
                                     "reported (expected %s; reported: %s)" %
                                     (kind, applied[s][1], e, msgs2),
                                finding=fid, tag="silent:" + kind))
            recs.append(crec)
            cur = cpath
        # --- same violations after compress / repack
        if case.get("copycheck"):
            from dclab import cli
            from dclab.rtdc_dataset.check import check_dataset
            for tool in [case["copycheck"]]:
                cp = os.path.join(d, "copy-%s.rtdc" % tool)
                try:
                    with _quiet():
                        getattr(cli, tool)(path_in=cur, path_out=cp)
                except BaseException as e:
                    # tolerated: links without target cannot be copied; the
                    # writer's completion reads image[0].shape /
                    # trace.shape[1] (ranks other than 3 / 2 are outside
                    # the model of rectify)
                    with h5py.File(cur, "r") as h5:
                        ac = abstract(h5)[0]
                        dang = _has_dangling(h5)
                    odd = any(ft[1] == 1 and -1 in ft[4:6]
                              for ft in ac["feats"]) or any(
                        t[2] == -1 for t in ac["traces"]) or _odd_trace(cur)
                    recs.append(dict(kind="copy-skipped", tool=tool,
                                     error=e.__class__.__name__,
                                     tolerated=bool(dang or odd),
                                     case=dict(recs[-1]["case"], copy=tool)))
                    continue
                try:
                    va = check_dataset(cur)[0]
                except BaseException as e:
                    va = "exception " + e.__class__.__name__
                try:
                    vb = check_dataset(cp)[0]
                except BaseException as e:
                    vb = "exception " + e.__class__.__name__
                if any(isinstance(v, str) and "OldFormat" in v
                       for v in (va, vb)):
                    # sandbox artefact: the untagged development build
                    # brands the copy with a version it refuses to re-open
                    # (the corruption removed setup:software version)
                    recs.append(dict(kind="copy-skipped", tool=tool,
                                     error="OldFormatNotSupportedError",
                                     tolerated=True))
                    continue
                with h5py.File(cur, "r") as h5:
                    a0 = abstract(h5)[0]
                idsc, _, a1, infoc = run_impl(cp)
                preserved = flat_of(a0) == flat_of(a1)
                r = dict(kind="copy", tool=tool, fails=[],
                         preserved=preserved, abs=render(a1), ids=idsc,
                         exit=infoc["exit"], nalert=infoc["nalert"],
                         case=dict(recs[-1]["case"], copy=tool))
                # the copy as predicted by Model.copy_model / compress_model
                # from the abstraction of the original
                r["tie"] = dict(fn="run_copy_flat", what="dclab-" + tool,
                                arg="((%s, %d) : copy_arg)" % (
                                    render(a0), 1 if tool == "compress" else 0),
                                impl=flat_of(a1))
                ext0 = flat_of(a0)[0][11] == [1]
                empty0 = any(
                    (ft[1] in (0, 3, 4, 5, 6) and ft[2] == 0)
                    or (ft[1] == 1 and ft[3] == 0)
                    or (ft[1] == 2 and len(ft) == 5) for ft in a0["feats"])
                if a0["basins"] or a0["sc"][14] or (ext0 and empty0) or (
                        tool == "compress" and _odd_trace(cur)):
                    # (the writer's completion reads trace.shape[1], the
                    # checker trace[0].size: traces of rank 3 are outside
                    # the model of rectify_metadata)
                    # an empty virtual dataset stays virtual in the copy
                    # rtdc_copy rewrites / filters basin definitions (C08):
                    # not part of the copy model
                    del r["tie"]
                clean_input = not recs[-1]["case"].get("corruptions")
                if clean_input and not preserved:
                    r["fails"].append(dict(
                        desc="dclab-%s of a file written by dclab changes "
                             "content the checker looks at: %s -> %s" %
                             (tool, flat_of(a0), flat_of(a1)), finding=None,
                        tag="copy"))
                if preserved and va != vb:
                    r["fails"].append(dict(
                        desc="violations differ after dclab-%s although the "
                             "copy preserves all checked content: %s vs %s" %
                             (tool, va, vb), finding=None, tag="copy"))
                recs.append(r)
    finally:
        shutil.rmtree(d, ignore_errors=True)
    return recs


def _has_dangling(grp):
    import h5py
    for key in grp:
        if isinstance(grp.get(key, getlink=True), h5py.ExternalLink):
            if resolvable(grp, key) is None:
                return True
        else:
            obj = resolvable(grp, key)
            if isinstance(obj, h5py.Group) and obj.name.count("/") < 4 \
                    and _has_dangling(obj):
                return True
    return False


def _odd_trace(path):
    import h5py
    with h5py.File(path, "r") as h5:
        tr = resolvable(h5["events"], "trace") if "events" in h5 else None
        if isinstance(tr, h5py.Group):
            return any(getattr(resolvable(tr, t), "ndim", 2) != 2 for t in tr)
    return False


def safe_eval_case(args):
    try:
        return eval_case(args)
    except BaseException as e:
        if isinstance(e, KeyboardInterrupt):
            raise
        return [dict(kind="harness-error", case=args[0],
                     error="%s: %s" % (e.__class__.__name__, str(e)[:300]),
                     tb=traceback.format_exc()[-1500:])]


def _object_of(c):
    kind, p = c
    if kind in ("feat_len",):
        return "feat:" + p["f"]
    if kind in ("trace_len",):
        return "trace:" + p["t"]
    if kind in ("index_len", "index_values", "index_add", "index_interior",
                "index_dtype"):
        return "feat:index"
    if kind in ("contour_drop", "contour_extra"):
        return "feat:contour"
    if kind == "img_rank":
        return "feat:" + p["f"]
    if kind == "temp_lead_zero":
        return "feat:temp"
    if kind == "retype":
        return "key:" + p["key"]
    if kind == "unknown":
        return "unknownfeat:" + p["name"]
    if kind == "trace_rank":
        return "trace:" + p["t"]
    if kind == "extlink_nested":
        return "trace:fl3_raw"
    if kind == "setup_special":
        return "key:%s:%s" % (p["sec"], p["key"])
    if kind == "extlink_dangling":
        return "extlink"
    if kind == "all_empty":
        return "key:experiment:event count"
    if kind in ("del_key",):
        return "key:%s:%s" % (p["sec"], p["key"])
    if kind == "del_section":
        return "sec:" + p["sec"]
    if kind == "roi_swap":
        return "key:imaging:roi size x"
    if kind == "trace_width":
        return "trace:" + p["t"]
    if kind == "counts_both":
        return "key:fluorescence:counts"
    if kind in ("chcount", "del_chname", "chname_move"):
        return "key:fluorescence:channel count"
    if kind in ("lasercount", "laser_power", "laser_del_lambda"):
        return "key:fluorescence:laser count"
    if kind == "spe":
        return "key:fluorescence:samples per event"
    if kind == "roi":
        return "key:imaging:roi size " + p["axis"]
    if kind == "nonpos":
        return "key:%s:%s" % (p["sec"], p["key"])
    if kind == "evcount":
        return "key:experiment:event count"
    if kind in ("temp_zero", "temp_add_zero"):
        return "feat:temp"
    if kind == "img_add":
        return "feat:" + p["f"]
    if kind in ("ml_bad",):
        return "feat:" + p["f"]
    if kind == "ml_add":
        return "feat:ml_score_vrf"
    if kind == "extlink" and p["where"] == "events":
        return "feat:userdef9"
    return kind


def independent(c, later):
    """Can a later corruption invalidate the expectation of `c`?"""
    a = _object_of(c)
    for other in later:
        b = _object_of(other)
        if a == b:
            return False
        # the event count changes what every length is compared with
        if b == "key:experiment:event count" or \
                (other[0] == "del_section" and other[1]["sec"] == "experiment"):
            if a.startswith("feat:") or a.startswith("trace:"):
                return False
        if other[0] == "del_section" and a.startswith(
                "key:%s:" % other[1]["sec"]):
            return False
        # every feature is emptied, groups and links in /events are removed
        if other[0] == "all_empty" and (
                not a.startswith("key:") or a.startswith("key:fluorescence")):
            return False
        if other[0] == "del_key" and a.startswith("key:") and \
                a == "key:%s:%s" % (other[1]["sec"], other[1]["key"]):
            return False
        # removing / adding fluorescence keys changes the counts' context
        if a.startswith("key:fluorescence") and b.startswith(
                "key:fluorescence") or (
                a.startswith("key:fluorescence") and other[0] == "del_section"
                and other[1]["sec"] == "fluorescence"):
            return False
        # a changed trace width is compared with the stored sample count
        if c[0] in ("trace_width", "trace_rank") and (
                b.startswith("key:fluorescence") or b == "sec:fluorescence"
                or b.startswith("feat:fl")):
            return False
        # ROI keys: deleting one disables the comparison
        if a.startswith("key:imaging:roi") and (
                b.startswith("key:imaging:roi") or b == "sec:imaging"):
            return False
        if a.startswith("feat:") and a[5:] in IMG_KINDS and \
                (b.startswith("key:imaging:roi") or b == "sec:imaging"):
            return False
        # fl?_max features gate the fluorescence checks; empty traces are
        # not compared with samples per event
        if a.startswith("key:fluorescence") and (
                b.startswith("feat:fl") or b.startswith("trace:")):
            return False
        # any ml_score feature can make ml_class fail / a stored one is read
        if a.startswith("feat:ml_score") and b.startswith("feat:ml_"):
            return False
        if c[0] == "temp_zero" and b == "key:setup:identifier":
            return False
        if a == "feat:temp" and b == "sec:setup":
            return False
    return True


# --------------------------------------------------------------------------
def load_corpus():
    d = os.path.join(common.VERIF, "corpus", PROP)
    cases = []
    if os.path.isdir(d):
        for fn in sorted(os.listdir(d)):
            if fn.endswith(".json"):
                cases.append(json.load(open(os.path.join(d, fn)))["case"])
    return cases


def pre_build(run):
    from .translators import check_inventory
    try:
        check_inventory.generate(common.REPO)
    except Exception:
        check_inventory.remove()
        raise


def evaluate(cases, scratch, procs=None):
    # import in the parent: the forked workers inherit the loaded modules
    import h5py  # noqa: F401
    import hdf5plugin  # noqa: F401
    import dclab  # noqa: F401
    import dclab.cli  # noqa: F401
    import dclab.rtdc_dataset.check  # noqa: F401
    base = os.path.join(scratch, "files")
    os.makedirs(base, exist_ok=True)
    jobs = [(c, base) for c in cases]
    procs = procs or min(common.NCPU, 16)
    if procs > 1 and len(jobs) > 4:
        import concurrent.futures as cf
        ctx = multiprocessing.get_context("fork")
        with cf.ProcessPoolExecutor(procs, mp_context=ctx) as pool:
            out = list(pool.map(safe_eval_case, jobs, chunksize=2))
    else:
        out = [safe_eval_case(j) for j in jobs]
    return [r for rs in out for r in rs]


QUICK_CASES = 60


def run(run):
    import time
    cases = load_corpus()
    run.count("corpus", len(cases))
    t0 = time.time()
    records = evaluate(cases, run.scratch) if cases else []
    # the generated cases are a function of VERIF_SEED and the tier only:
    # QUICK_CASES (after the directed corpus cases) / 800; a time limit is
    # only a safety net that marks the run broken, it never decides which
    # cases exist
    total, k = 0, 0
    target = 800 if run.thorough else QUICK_CASES
    limit = 1500 if run.thorough else 400
    while total < target:
        batch = []
        for _ in range(min(200 if run.thorough else 30, target - total)):
            batch.append(gen_case(run.rng, k))
            k += 1
        records += evaluate(batch, run.scratch)
        total += len(batch)
        if time.time() - t0 > limit and total < target:
            run.broken.append(("timeout(C13)", "only %d of %d cases within "
                               "%d s" % (total, target, limit)))
            break
    t1 = time.time()
    if run.thorough:
        selftest_render(run)
    feed(run, records)
    # no silent shrinking: the floor of generated cases and every write path
    # must have been reached, else the run reports a coverage shortfall
    missing = [k for k in ("writer", "append", "export", "compress", "repack",
                           "condense", "split", "join")
               if run.dist.get("path:" + k, 0) < (10 if run.thorough else 2)]
    if total < target or missing:
        run.broken.append(("coverage(C13)", "coverage shortfall: %d generated "
                           "cases, thin write paths %s" % (total, missing)))
    run.extra["timing_s"] = dict(files_and_checker=round(t1 - t0, 1),
                                 model=round(time.time() - t1, 1))


def selftest_render(run):
    """Every run_*_flat interface evaluates a shard that consists only of
    the emptiest arguments (no untyped empty list literal is rendered)."""
    empty = dict(sc=[[] for _ in range(15)], feats=[], traces=[], unknown=[],
                 plain=[], chnames=[], lambdas=[], powers=[], polys=[],
                 basins=[], tree="[]")
    r = render(empty)
    jobs = {"run_flat_x": "((%s, 0) : copy_arg)" % r,
            "run_copy_flat": "((%s, 1) : copy_arg)" % r,
            "run_hyp_writer_flat": "((%s, 0) : copy_arg)" % r,
            "run_rectify_flat": r,
            "run_derive_flat": "((%s, %s, %s) : derive_arg)" % (
                r, zll([[], [0], [0]]), zll([])),
            "run_hyp_derive_flat": "((%s, %s, %s) : derive_arg)" % (
                r, zll([]), zll([]))}
    for fn, arg in sorted(jobs.items()):
        common.coq_map(run.scratch, "c13self" + fn[4:9], HEADER, fn,
                       [arg, arg])
        run.count("selftest:" + fn)


def feed(run, records):
    corr = []       # (case, rendered abstraction, impl ids)
    writers = []
    ties = []       # (case, dict(fn, arg, impl, what))
    for r in records:
        kind = r["kind"]
        run.count("record:" + kind)
        if kind == "build-error":
            # a write path of dclab failed on a generated (valid) recipe:
            # no file to check - the run fails closed
            run.record_case(r["case"], False)
            run.count("build-error:%s:%s" % (r["case"]["path"],
                                             r["error"].split(":")[0]))
            run.oracle_failure(dict(r["case"], fail_tag="build"),
                               "dclab write path %s failed on a generated "
                               "recipe: %s" % (r["case"]["path"], r["error"]),
                               None)
            continue
        if kind == "outside":
            run.record_case(r["case"], False, sample=False)
            run.count("outside-model:%s:exit=%d" % (
                r["what"].split(" at ")[0][:40], r["exit"]))
            continue
        if kind == "harness-error":
            run.broken.append(("harness(C13)", r["error"] + " | " + r["tb"]))
            continue
        if kind == "copy-skipped":
            run.count("copy-skipped:%s:%s" % (r["tool"], r["error"]))
            if not r.get("tolerated"):
                run.oracle_failure(
                    dict(r["case"], fail_tag="copy-raises"),
                    "dclab-%s raises %s on a file it should be able to copy "
                    "(no dangling link, regular image and trace ranks)" %
                    (r["tool"], r["error"]), None)
            continue
        for f in r.get("fails", []):
            run.oracle_failure(dict(r["case"], fail_tag=f.get("tag")),
                               f["desc"], f["finding"])
        if kind == "copy":
            run.record_case(r["case"], True, sample=False)
            run.count("copy:%s:%s" % (r["tool"], "preserved" if r["preserved"]
                                      else "repaired-by-writer"))
            corr.append((r["case"], r["abs"], r["ids"], r["exit"],
                         r["nalert"]))
            if "tie" in r:
                ties.append((r["case"], r["tie"]))
            continue
        run.record_case(r["case"], r["nontrivial"])
        run.count("path:" + r["path_kind"])
        for ck in r.get("corr_kinds", []):
            run.count("corruption:" + ck)
        for i in r["ids"]:
            run.count("cue-category:%d" % i[0])
        if kind == "corrupt":
            run.count("ncorr=%d" % len(r["case"]["corruptions"]))
        corr.append((r["case"], r["abs"], r["ids"], r["exit"], r["nalert"]))
        run.count("exit-status:%d" % r["exit"])
        if "tie" in r:
            ties.append((r["case"], r["tie"]))
        if "writer" in r:
            writers.append((r["case"], r["writer"]))
    # all model evaluations run concurrently (one coqc per shard)
    import concurrent.futures as cf
    pool = cf.ThreadPoolExecutor(max_workers=8)
    fut_main = pool.submit(
        common.coq_map, run.scratch, "c13", HEADER, "run_flat_x",
        ["((%s, %d) : copy_arg)" % (c[1], c[4]) for c in corr], 80)

    for case, w in writers:
        ties.append((case, dict(fn="run_rectify_flat", what="rectify_metadata",
                                arg=w["abs"], impl=w["impl"])))
        # the hypothesis of C13_writer_output_clean holds for what the
        # generator hands to the writer
        ties.append((case, dict(fn="run_hyp_writer_flat",
                                what="hyp:complete_input",
                                arg="((%s, %d) : copy_arg)" % (w["abs"],
                                                               w["n"]),
                                impl=[[[1]]])))
    for case, t in list(ties):
        if t["fn"] == "run_derive_flat":
            # guards of C13_derived_output_clean_partial: every added feature
            # is extra_ok; keeps_channels unless a fluorescence channel was
            # left out on purpose (the known finding)
            kept = case.get("kept_names")
            kc = 1 if kept is None else int(all(
                "fl%d_max" % i in kept for i in case["recipe"]["fl"]))
            ties.append((case, dict(fn="run_hyp_derive_flat",
                                    what="hyp:derive-guards", arg=t["arg"],
                                    impl=[[[kc], [1]]])))
    futs = {}
    for fn in sorted(set(t[1]["fn"] for t in ties)):
        sel = [t for t in ties if t[1]["fn"] == fn]
        futs[fn] = (sel, pool.submit(
            common.coq_map, run.scratch, "c13" + fn[4:-5], HEADER, fn,
            [t[1]["arg"] for t in sel], 60))
    model = fut_main.result()
    for (case, _, ids, ex, _), m in zip(corr, model):
        run.corr_checked += 1
        if sorted(m[1:]) != sorted(ids):
            run.mismatch(case, sorted(m[1:]), sorted(ids))
        elif ex is not None and m[0][0] != ex:
            run.mismatch(dict(case, what="exit status"), m[0][0], ex,
                         what="exit-status")
    for fn in sorted(futs):
        sel, fut = futs[fn]
        out = fut.result()
        for (case, t), m in zip(sel, out):
            run.corr_checked += 1
            run.count("tie:" + t["what"])
            if t["what"].startswith("hyp:"):
                if m != t["impl"]:
                    run.mismatch(dict(case, what=t["what"]), m, t["impl"],
                                 what=t["what"])
                elif t["what"] == "hyp:derive-guards" and m[0][0] == [0]:
                    run.count("hyp:keeps_channels=false")
                continue
            if norm_flat(m) != norm_flat(t["impl"]):
                run.mismatch(dict(case, what=t["what"]), m, t["impl"],
                             what=t["what"])


def norm_flat(flat):
    """Derived files are compared without the data dependent flags of temp
    and ml_score features (a subset of the events may be all zero)."""
    if not flat:
        return flat
    out = [x for x in flat]
    out[1] = sorted([(f[:3] + [0] if f[1] in (4, 5) else list(f))
                     for f in flat[1]])
    out[2] = sorted(list(t) for t in flat[2])
    return out


# --------------------------------------------------------------------------
def shrink(run, failure):
    case = dict(failure["case"])
    if "recipe" not in case:
        return failure
    failure = dict(failure, tag=case.pop("fail_tag", None))

    want = failure.get("tag")

    def fails(c):
        try:
            recs = eval_case((dict(c, copycheck=case.get("copy")),
                              os.path.join(run.scratch, "shrink")))
        except Exception:
            return None
        for r in recs:
            for f in r.get("fails", []):
                if f["finding"] is None and (want is None
                                             or f.get("tag") == want):
                    return f["desc"]
        return None

    best = dict(case)
    if case.get("corruptions"):
        best["corruptions"] = list(case["corruptions"])
    desc = fails(best)
    if desc is None:
        return failure
    # drop corruptions, then simplify the recipe
    changed = True
    while changed:
        changed = False
        for i in range(len(best.get("corruptions", []))):
            cand = dict(best, corruptions=best["corruptions"][:i]
                        + best["corruptions"][i + 1:])
            cand["ncorr"] = len(cand["corruptions"])
            d2 = fails(cand)
            if d2:
                best, desc, changed = cand, d2, True
                break
        if changed:
            continue
        rec = best["recipe"]
        trials = []
        for key in ("image", "image_bg", "mask", "contour", "index", "zmd",
                    "omit_roi", "omit_spe", "omit_chcount", "flmeta"):
            if rec.get(key):
                trials.append(dict(rec, **{key: False}))
        for key in ("scalars", "fl", "traces", "lasers", "ml"):
            for i in range(len(rec.get(key, []))):
                trials.append(dict(rec, **{key: rec[key][:i]
                                           + rec[key][i + 1:]}))
        if rec.get("temp"):
            trials.append(dict(rec, temp=None))
        if rec.get("poly"):
            trials.append(dict(rec, poly=0))
        if rec.get("cut"):
            trials.append(dict(rec, cut=None))
        if rec["n"] > 2:
            trials.append(dict(rec, n=2))
        for t in trials:
            if not (t["scalars"] or t["fl"] or t["traces"] or t["image"]
                    or t["mask"] or t["contour"]):
                continue
            cand = dict(best, recipe=t)
            d2 = fails(cand)
            if d2:
                best, desc, changed = cand, d2, True
                break
    return dict(case=best, desc=desc, finding=None)


def search(run, broken):
    """Proof/correspondence broken and the oracle quiet: a larger
    oracle-only sweep on the real code."""
    rng = run.rng
    cases = [gen_case(rng, 100 + i) for i in range(1500 if run.thorough
                                                  else 500)]
    for r in evaluate(cases, run.scratch):
        for f in r.get("fails", []):
            if f["finding"] is None:
                return shrink(run, dict(case=dict(r["case"],
                                                  fail_tag=f.get("tag")),
                                        desc=f["desc"]))
    return None


def replay(payload):
    case = payload.get("case")
    if not case or "recipe" not in case:
        print("replay: nothing executable in this file (kind=%s): %s" % (
            payload.get("kind"), json.dumps(payload.get("broken"))[:3000]))
        return 1
    import tempfile
    d = tempfile.mkdtemp(prefix="verif-C13-replay-",
                         dir=os.environ.get("VERIF_SCRATCH", "/var/tmp"))
    try:
        recs = eval_case((dict(case, copycheck=case.get("copy")), d))
    finally:
        shutil.rmtree(d, ignore_errors=True)
    print("case:", json.dumps(case))
    bad = 0
    for r in recs:
        if r["kind"] == "build-error":
            print("FAILS: write path failed:", r["error"])
            bad += 1
            continue
        if "ids" in r:
            print("%s file: violation cues %s" % (r["kind"], r["ids"]))
        for f in r.get("fails", []):
            print("FAILS%s: %s" % (
                " (known finding %s)" % f["finding"] if f["finding"] else "",
                f["desc"]))
            bad += 1
    if bad:
        return 1
    print("passes on the current tree")
    return 0
